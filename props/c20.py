"""C20 Benchmark experimenters evaluate faithfully and leave suggestions intact.

Families
  stack    Hypothesis: base experimenter (every BBOB function through
           NumpyExperimenter / BBOBExperimenterFactory, Branin, Hartmann 3/6,
           SimpleKD, DTLZ/ZDT/WFG/DH multi-objective problems, or a
           MultiObjective / Switch combiner of sub-stacks) under 0-3 wrapper
           layers drawn from {Shifting, SignFlip, Permuting, Discretizing
           (explicit values or create_with_grid), HyperCube, Normalizing,
           Noisy, Sparse, HashingInfeasible, ParamRegionInfeasible}, evaluated
           on a batch of 1..8 points resolved inside the top problem
           statement's search space.  A transparent harness probe sits between
           every two layers; every clause is judged per layer on what crossed
           the boundary (see harness/c20_model.py).
  bases    exhaustive: every base configuration (all BBOB functions x
           dimensions 1,2,3,5 x both construction paths, every other leaf)
           with a fixed batch, without wrappers and without avoidance of known
           findings.
  factory  Hypothesis: SingleObjectiveExperimenterFactory configurations
           compared with the same composition built by hand.
"""
import copy
import itertools
import traceback

from hypothesis import strategies as st

from harness import core
from harness import c20_model as M

ID = 'C20'
LEVEL = 'exploration'
RULE = ('stack: Hypothesis-generated (experimenter tree, batch). 7/20 of the '
        'cases are free stacks (0-3 layers drawn among the layers eligible for '
        'the abstract type of the space below), the rest follow a recipe that '
        'makes one clause likely to bite (Noisy under SignFlip; Discretizing '
        'under Permuting; non-zero Shifting; Normalizing; ParamRegion on top; '
        'HyperCube over mixed spaces; MultiObjective/Switch combiners) plus '
        '0-2 free layers. Wrapper arguments are relative (fractions of the '
        'inner range, masks, seeds) and resolved against the inner problem '
        'statement so that every constructor guard holds by construction; '
        'points are unit coordinates (a third of them 0, 1 or 0.5) resolved '
        'inside the top search space, bounds included, duplicates included. '
        'non-trivial = at least one wrapper/combiner layer AND batch >= 2. '
        'bases: exhaustive enumeration of base configurations, non-trivial = '
        'batch >= 2. factory: non-trivial = at least one transformation option '
        'set AND batch >= 2. distinct = SHA-1 of the canonical JSON case. '
        'Excluded by construction (outside the documented domain): '
        'GriewankRosenbrock with dim 1 (BBOB f19 needs D >= 2), a second '
        'Sparse layer with the same prefix, Shifting over non-DOUBLE spaces, '
        'HyperCube/Normalizing/Permuting/Discretizing over conditional '
        '(Switch) spaces, should_restrict=False except over total numpy '
        'objectives (BBOB, Branin, Hartmann).')
ASSUMPTIONS = [
    'the base experimenters are the reference for the objective value: '
    'wrappers are judged against what the wrapped experimenter returned for '
    'the point the wrapper handed to it (observed by a pass-through probe), '
    'bases against a fresh instance evaluated one trial at a time and, for '
    'BBOB/Branin, against a direct call of the numpy function on the '
    'parameters in search-space order',
    'HyperCubeExperimenter: unit coordinate h_i belongs to the i-th inner '
    'parameter in search_space.parameters order (one coordinate per numeric '
    'parameter, one per category); DOUBLE linear/log parameters are compared '
    'with the affine/log-affine embedding up to float32 rounding (1e-5 of the '
    'range), other kinds only for membership',
    'PermutingExperimenter: "the" permutation is the private '
    '_parameter_permutation_dict built by the constructor',
    'factory family: composition order shift, normalise, discretise, '
    'categorise, permute, noise (SingleObjectiveExperimenterFactory.__call__)',
    'third-party optproblems (DTLZ/ZDT/WFG) objective functions are trusted',
]

_UF = st.floats(min_value=0.0, max_value=1.0, allow_nan=False, width=32)
U = st.one_of(st.sampled_from([0.0, 1.0, 0.5]), _UF, _UF)
FRAC = st.one_of(st.sampled_from([0.0, 0.25, -0.25, 0.9, -0.9]),
                 st.floats(min_value=-0.875, max_value=0.875, allow_nan=False,
                           width=32))
# BBOB f19 (Griewank-Rosenbrock) averages over D-1 terms: the suite defines it
# for D >= 2 only; bbob.GriewankRosenbrock divides by zero for D == 1
DIM2_ONLY = ('GriewankRosenbrock',)


# ---------------------------------------------------------------------------
# generators
# ---------------------------------------------------------------------------
@st.composite
def leaf(draw, kinds=('bbob', 'bbob', 'bbob', 'branin', 'hartmann', 'simplekd',
                      'simplekd', 'mo')):
  k = draw(st.sampled_from(list(kinds)))
  if k == 'bbob':
    dim = draw(st.sampled_from([1, 2, 2, 3, 3, 4, 5, 6]))
    fn = draw(st.sampled_from(M.BBOB_FUNCS))
    if fn in DIM2_ONLY:
      dim = max(dim, 2)
    node = {'t': 'bbob', 'fn': fn,
            'dim': dim, 'seed': draw(st.integers(0, 3)),
            'via': draw(st.sampled_from(['factory', 'direct'])),
            'space': draw(st.sampled_from(['default', 'default', 'offset',
                                           'log', 'revlog']))}
    sig = {'kinds': ['D'] * dim, 'flat': True, 'nobj': 1, 'total': True}
    return node, sig
  if k == 'branin':
    return {'t': 'branin'}, {'kinds': ['D'] * 2, 'flat': True, 'nobj': 1,
                            'total': True}
  if k == 'hartmann':
    d = draw(st.sampled_from([3, 6]))
    return {'t': 'hartmann', 'd': d}, {'kinds': ['D'] * d, 'flat': True,
                                       'nobj': 1, 'total': True}
  if k == 'simplekd':
    nf, nd, ni = (draw(st.integers(1, 2)) for _ in range(3))
    node = {'t': 'simplekd',
            'best': draw(st.sampled_from(['corner', 'center', 'mixed'])),
            'nf': nf, 'nd': nd, 'ni': ni, 'rel': draw(st.booleans())}
    return node, {'kinds': ['D'] * nf + ['Si'] * nd + ['I'] * ni + ['C'],
                  'flat': True, 'nobj': 1, 'total': False}
  fam = draw(st.sampled_from(['dtlz', 'zdt', 'wfg', 'dh']))
  if fam == 'dtlz':
    nobj = draw(st.integers(2, 3))
    dim = nobj + draw(st.integers(1, 3))
    node = {'t': 'dtlz', 'name': 'DTLZ%d' % draw(st.integers(1, 7)),
            'dim': dim, 'nobj': nobj}
  elif fam == 'wfg':
    nobj = draw(st.integers(2, 3))
    dim = (nobj - 1) + 2 * draw(st.integers(1, 2))
    node = {'t': 'wfg', 'name': 'WFG%d' % draw(st.integers(1, 9)),
            'dim': dim, 'nobj': nobj}
  elif fam == 'zdt':
    dim = draw(st.integers(2, 5))
    nobj = 2
    node = {'t': 'zdt', 'name': draw(st.sampled_from(
        ['ZDT1', 'ZDT2', 'ZDT3', 'ZDT4', 'ZDT6'])), 'dim': dim}
  else:
    name = draw(st.sampled_from(['DH1', 'DH2', 'DH3', 'DH4']))
    dim = draw(st.integers(3, 5)) if name in ('DH3', 'DH4') else draw(
        st.integers(2, 4))
    nobj = 2
    node = {'t': 'dh', 'name': name, 'dim': dim}
  return node, {'kinds': ['D'] * dim, 'flat': True, 'nobj': nobj,
                'total': False}


def eligible(sig, used):
  w = ['signflip', 'signflip', 'infeasible_hash']
  if 'noisy' in used:
    w += ['signflip', 'signflip', 'signflip']
  else:
    w += ['noisy', 'noisy']
  if 'sparse' not in used:
    w += ['sparse', 'sparse']
  if sig['flat']:
    w += ['permute', 'hypercube', 'hypercube', 'hypercube', 'normalize',
          'normalize']
    if any(k in ('Sf', 'C') for k in sig['kinds']):
      w += ['permute', 'permute', 'permute', 'permute']
    if any(k != 'D' for k in sig['kinds']):
      w += ['hypercube', 'hypercube']
    if sig['kinds'] and all(k == 'D' for k in sig['kinds']):
      w += ['shift', 'shift', 'shift', 'shift']
    if any(k == 'D' for k in sig['kinds']):
      w += ['discretize', 'discretize', 'discretize', 'discretize',
            'discretize']
    if any(k != 'C' for k in sig['kinds']):
      w += ['infeasible_region']
  return w


@st.composite
def wrap(draw, node, sig, used, only=None, force=None):
  """One more layer on top of (node, sig)."""
  t = draw(st.sampled_from(only or eligible(sig, used)))
  sig = copy.deepcopy(sig)
  w = {'t': t, 'in': node}
  if t == 'shift':
    w['fracs'] = draw(st.lists(FRAC, min_size=1, max_size=6))
    w['scalar'] = draw(st.booleans())
    w['restrict'] = draw(st.booleans()) if sig['total'] else True
  elif t == 'signflip':
    w['objonly'] = draw(st.booleans())
  elif t == 'permute':
    w['mask'] = draw(st.lists(st.sampled_from([True, True, False]),
                              min_size=1, max_size=4))
    w['seed'] = draw(st.integers(0, 7))
  elif t == 'discretize':
    w['mask'] = draw(st.lists(st.booleans(), min_size=1, max_size=4))
    w['mode'] = draw(st.sampled_from(['values', 'values', 'grid']))
    w['as_str'] = draw(st.lists(st.booleans(), min_size=1, max_size=3))
    if w['mode'] == 'grid':
      w['counts'] = draw(st.lists(st.integers(1, 5), min_size=1, max_size=3))
    else:
      w['grids'] = draw(st.lists(
          st.lists(U, min_size=1, max_size=5), min_size=1, max_size=3))
  elif t == 'normalize':
    w['n'] = draw(st.sampled_from([1, 2, 3, 5, 8, 8, 12, 100]))
    w['seed'] = draw(st.integers(0, 50))
  elif t == 'noisy':
    w['noise'] = draw(st.sampled_from(M.NOISE_TYPES))
    w['seed'] = draw(st.one_of(st.none(), st.integers(0, 9)))
  elif t == 'sparse':
    w['counts'] = draw(st.lists(st.integers(0, 2), min_size=4, max_size=4))
  elif t == 'infeasible_hash':
    w['prob'] = draw(st.sampled_from([0.0, 0.2, 0.5, 0.5, 0.8, 1.0]))
    w['seed'] = draw(st.integers(0, 9))
  elif t == 'infeasible_region':
    w['param'] = draw(st.integers(0, 5))
    w['interval'] = [draw(U), draw(U)]
  w.update(force or {})
  # abstract signature of the wrapped experimenter's search space
  if t == 'discretize':
    dix = [i for i, k in enumerate(sig['kinds']) if k == 'D']
    chosen = [j for j in range(len(dix)) if w['mask'][j % len(w['mask'])]]
    chosen = chosen or [0]
    for n, j in enumerate(chosen):
      sig['kinds'][dix[j]] = 'C' if w['as_str'][n % len(w['as_str'])] else 'Sf'
  elif t == 'hypercube':
    n = sum(2 if k == 'C' else 1 for k in sig['kinds'])
    sig['kinds'] = ['D'] * max(1, n)
  elif t == 'sparse':
    c = w['counts']
    sig['kinds'] = sig['kinds'] + ['D'] * c[0] + ['I'] * c[1] + [
        'Si'] * c[2] + ['C'] * c[3]
  if t in ('permute', 'discretize', 'hypercube', 'sparse',
           'infeasible_region'):
    sig['total'] = False
  return w, sig, used + [t]


@st.composite
def combiner(draw):
  """MultiObjective / Switch over shallow sub-stacks."""
  if draw(st.booleans()):
    dim = draw(st.integers(1, 4))
    k = draw(st.integers(1, 3))
    kids = []
    fns = [draw(st.sampled_from(M.BBOB_FUNCS)) for _ in range(k)]
    if any(f in DIM2_ONLY for f in fns):
      dim = max(dim, 2)
    for ci, fn in enumerate(fns):
      node = {'t': 'bbob', 'fn': fn,
              'dim': dim, 'seed': draw(st.integers(0, 3)),
              'via': draw(st.sampled_from(['factory', 'direct'])),
              'space': 'default'}
      sig = {'kinds': ['D'] * dim, 'flat': True, 'nobj': 1, 'total': True}
      if k >= 2 and ci < k - 1 and draw(st.booleans()):
        # infeasibility that originates in a NON-LAST objective must survive
        node, sig, _ = draw(wrap(node, sig, [], only=[
            'infeasible_hash', 'infeasible_region'],
                                 force=None))
      elif draw(st.sampled_from([True, False, False])):
        node, sig, _ = draw(wrap(node, sig, [], only=[
            'signflip', 'noisy', 'normalize', 'infeasible_hash', 'permute']))
      kids.append(node)
    keys = draw(st.permutations(['obj_a', 'obj_b', 'bbob_eval', 'value']))
    return ({'t': 'multi', 'ins': kids, 'keys': list(keys)[:k]},
            {'kinds': ['D'] * dim, 'flat': True, 'nobj': k, 'total': False})
  k = draw(st.integers(1, 3))
  kids = []
  for _ in range(k):
    node, sig = draw(leaf(kinds=('bbob', 'bbob', 'branin', 'hartmann',
                                 'simplekd')))
    if draw(st.sampled_from([True, False, False])):
      # 'sparse' marked as used: the spine above may add the (single) Sparse
      # layer, whose prefix must not already exist below
      node, sig, _ = draw(wrap(node, sig, ['sparse']))
    kids.append(node)
  return ({'t': 'switch', 'ins': kids},
          {'kinds': [], 'flat': False, 'nobj': 1, 'total': False})


@st.composite
def batch_strategy(draw):
  n = draw(st.sampled_from([1, 2, 2, 3, 3, 4, 5, 8]))
  pts = []
  for i in range(n):
    if i and draw(st.sampled_from([True] + [False] * 7)):
      pts.append({'dup': draw(st.integers(0, i - 1))})
    else:
      pts.append({'u': draw(st.lists(U, min_size=12, max_size=12))})
  return pts


GRID3 = st.lists(st.lists(U, min_size=3, max_size=5), min_size=1, max_size=3)
NONZERO = st.one_of(st.sampled_from([0.25, -0.25, 0.875, -0.875, 0.5]),
                    st.floats(min_value=0.015625, max_value=0.875,
                              allow_nan=False, width=32))


@st.composite
def stack_case(draw):
  """A free stack, or a recipe that makes one of the rule's classes likely."""
  recipe = draw(st.sampled_from(['free'] * 7 + [
      'aux_flip', 'aux_flip', 'perm', 'perm', 'shift', 'shift', 'norm',
      'norm', 'combine', 'combine', 'combine', 'region', 'region', 'cube',
      'cube']))
  used = []
  if recipe == 'combine':
    node, sig = draw(combiner())
  elif recipe in ('perm', 'shift'):
    node, sig = draw(leaf(kinds=('bbob', 'bbob', 'branin', 'hartmann', 'mo')
                          + (('simplekd',) if recipe == 'perm' else ())))
  else:
    node, sig = draw(leaf(kinds=('bbob', 'bbob', 'bbob', 'branin', 'hartmann',
                                 'simplekd', 'simplekd', 'mo', 'mo')))
  d = draw(st.sampled_from([0, 1, 1, 1, 2, 2, 2, 2, 3, 3, 3]))
  if recipe == 'aux_flip':
    if draw(st.booleans()):
      node, sig, used = draw(wrap(node, sig, used))
    node, sig, used = draw(wrap(node, sig, used, only=['noisy']))
    node, sig, used = draw(wrap(node, sig, used, only=['signflip']))
    d = draw(st.sampled_from([0, 0, 1]))
  elif recipe == 'perm':
    node, sig, used = draw(wrap(node, sig, used, only=['discretize'], force={
        'mode': 'values', 'grids': draw(GRID3),
        'mask': draw(st.sampled_from([[True], [True, False], [True, True]]))}))
    node, sig, used = draw(wrap(node, sig, used, only=['permute'],
                                force={'mask': [True]}))
    d = draw(st.sampled_from([0, 0, 1]))
  elif recipe == 'shift':
    node, sig, used = draw(wrap(node, sig, used, only=['shift'], force={
        'fracs': draw(st.lists(NONZERO, min_size=1, max_size=6))}))
    d = draw(st.sampled_from([0, 1, 1, 2]))
  elif recipe == 'cube':
    if draw(st.booleans()) and any(k == 'D' for k in sig['kinds']):
      node, sig, used = draw(wrap(node, sig, used, only=['discretize']))
    node, sig, used = draw(wrap(node, sig, used, only=['hypercube']))
    d = draw(st.sampled_from([0, 0, 1]))
  elif recipe == 'region':
    if draw(st.booleans()):
      node, sig, used = draw(wrap(node, sig, used))
    if sig['flat'] and any(k != 'C' for k in sig['kinds']):
      node, sig, used = draw(wrap(node, sig, used, only=['infeasible_region'],
                                  force={'interval': [draw(_UF), draw(_UF)]}))
    d = draw(st.sampled_from([0, 0, 1]))
  elif recipe == 'norm':
    if draw(st.booleans()):
      node, sig, used = draw(wrap(node, sig, used))
    if sig['flat']:
      node, sig, used = draw(wrap(node, sig, used, only=['normalize']))
    d = draw(st.sampled_from([0, 0, 1]))
  for _ in range(d):
    node, sig, used = draw(wrap(node, sig, used))
  batch = draw(batch_strategy())
  case = {'node': node, 'batch': batch,
          'involution': draw(st.sampled_from([True, False, False, False])),
          'involution_objonly': draw(st.booleans())}
  if draw(st.integers(0, 10 ** 6)) % 25 == 7:
    case['noavoid'] = [draw(st.sampled_from(['bbob_scalar', 'permute_int']))]
  return case


def stack_strategy():
  return stack_case()


# ---------------------------------------------------------------------------
# the check
# ---------------------------------------------------------------------------
def resolve_batch(space, batch):
  pts = []
  for p in batch:
    if 'dup' in p:
      pts.append(dict(pts[p['dup']]))
    else:
      pts.append(M.sample_point(space, p['u']))
  return pts


def _trials(points):
  """Trials the way callers build them: every other one lists its parameters
  in another order than the search space does."""
  from vizier import pyvizier as vz
  out = []
  for i, p in enumerate(points):
    items = list(p.items())
    if i % 2 == 1:
      items.reverse()
    out.append(vz.Trial(parameters=dict(items), id=i + 1))
  return out


def _evaluate(exp, points, out, phase):
  """-> list of snapshots or None (violation recorded)."""
  trials = _trials(points)
  try:
    exp.evaluate(trials)
  except Exception as e:  # pylint: disable=broad-except
    out.violate('raises/%s/%s@%s' % (phase, M.exc_key(e), M.exc_site(e)),
                traceback.format_exc()[-1200:])
    return None
  return [M.snap_trial(t) for t in trials]


def check_stack(case):
  out = core.Out()
  ctx = M.Ctx(case.get('noavoid'))
  node = case['node']
  types = M.types_in(node)
  d = M.depth(node)
  out.cls('depth_%d' % min(d, 4), 'batch_%s' % (
      '1' if len(case['batch']) == 1 else '2plus'))
  for t in sorted(set(types)):
    out.cls(('base:' if t in M.LEAVES else 'w:') + t)
  out.nontrivial = d >= 1 and len(case['batch']) >= 2
  if case.get('noavoid'):
    out.cls('noavoid')

  def finish():
    for c in ctx.classes:
      out.cls(c)
    return out

  # ---- build with probes
  try:
    top = M.build(node, True, ctx)
  except M.BuildError as e:
    out.violate('raises/construct/%s/%s@%s' % (
        e.node_type, M.exc_key(e.exc), M.exc_site(e.exc)), e.tb[-1200:])
    return finish()
  try:
    space = top.exp.problem_statement().search_space
    points = resolve_batch(space, case['batch'])
  except Exception as e:  # pylint: disable=broad-except
    out.violate('raises/problem_statement/%s@%s' % (
        M.exc_key(e), M.exc_site(e)), traceback.format_exc()[-1200:])
    return finish()
  if any('dup' in p for p in case['batch']):
    out.cls('batch_has_duplicate_point')

  # ---- wrappers transform the problem statement only as documented
  M.check_ps_algebra(top, out, ctx)

  # ---- evaluate through the probed stack, judge every layer
  top.reset()
  snaps = _evaluate(top.exp, points, out, 'evaluate')
  if snaps is None:
    return finish()
  recs = top.probe.records
  if any(s['infeasible'] for s in snaps):
    out.cls('has_infeasible_trial')
  M.check_tree(top, recs, out, ctx)

  # ---- a second, unprobed instance must behave identically
  try:
    twin = M.build(node, False, M.Ctx(case.get('noavoid')))
  except M.BuildError as e:
    out.violate('raises/construct_twin/%s/%s' % (
        e.node_type, M.exc_key(e.exc)), e.tb[-1200:])
    return finish()
  tsnaps = _evaluate(twin.exp, points, out, 'evaluate_twin')
  if tsnaps is None:
    return finish()
  for a, b in zip(snaps, tsnaps):
    if (not M.same_metrics(a['metrics'], b['metrics'])
        or a['infeasible'] != b['infeasible']):
      kinds = [t for t in types if t in ('noisy', 'infeasible_hash',
                                         'permute', 'normalize')]
      out.violate('repro/second_instance_differs/' + (
          '+'.join(sorted(set(kinds))) or 'deterministic_stack'),
                  M._detail(first=a, second=b))  # pylint: disable=protected-access
      break
  if M.describe_ps(twin.exp.problem_statement()) != top.ps_desc:
    out.violate('repro/second_instance_problem_statement', '')

  # ---- SignFlip o SignFlip == id (values and problem statement)
  if case.get('involution') and not out.violations:
    from vizier._src.benchmarks.experimenters import sign_flip_experimenter
    oo = bool(case.get('involution_objonly'))
    try:
      inv = M.build(node, False, M.Ctx(case.get('noavoid')))
      ff = sign_flip_experimenter.SignFlipExperimenter(
          sign_flip_experimenter.SignFlipExperimenter(
              inv.exp, flip_objectives_only=oo), flip_objectives_only=oo)
      isnaps = _evaluate(ff, points, out, 'evaluate_double_signflip')
      if isnaps is not None:
        out.cls('double_signflip_checked')
        for a, b in zip(tsnaps, isnaps):
          if (not M.same_metrics(a['metrics'], b['metrics'])
              or a['infeasible'] != b['infeasible']
              or not M.same_params(a['params'], b['params'])):
            out.violate('signflip/double_flip_is_not_identity',
                        M._detail(plain=a, double_flipped=b))  # pylint: disable=protected-access
            break
        if M.describe_ps(ff.problem_statement()) != top.ps_desc:
          out.violate('signflip/double_flip_problem_statement', M._detail(  # pylint: disable=protected-access
              diff=M.diff_desc(top.ps_desc,
                               M.describe_ps(ff.problem_statement()))))
    except M.BuildError:
      pass

  # ---- permutation is a bijection of all feasible values
  if not out.violations:
    for n in top.walk():
      if n.node['t'] == 'permute' and n.info['permuted']:
        try:
          M.permute_sweep(n, out, ctx)
        except Exception as e:  # pylint: disable=broad-except
          out.violate('raises/permute_sweep/%s@%s' % (
              M.exc_key(e), M.exc_site(e)), traceback.format_exc()[-800:])

  # ---- problem statements are returned by value (last: may corrupt)
  M.check_ps_by_value(top, out, ctx)
  return finish()


# ---------------------------------------------------------------------------
# bases (exhaustive)
# ---------------------------------------------------------------------------
FIXED_BATCH = [
    {'u': [0.5] * 12},
    {'u': [0.0, 1.0, 0.25, 0.75, 0.1, 0.9, 0.33, 0.66, 0.0, 1.0, 0.5, 0.2]},
    {'u': [1.0, 0.0, 0.6, 0.4, 0.8, 0.2, 0.7, 0.3, 0.15, 0.85, 0.45, 0.55]},
    {'dup': 1},
]


def enum_bases(tier):
  nodes = []
  for fn, dim, via in itertools.product(M.BBOB_FUNCS, (1, 2, 3, 5),
                                        ('factory', 'direct')):
    if fn in DIM2_ONLY and dim < 2:
      continue
    nodes.append({'t': 'bbob', 'fn': fn, 'dim': dim, 'seed': 1, 'via': via,
                  'space': 'default'})
  for fn in M.BBOB_FUNCS:
    for space in ('offset', 'log', 'revlog'):
      nodes.append({'t': 'bbob', 'fn': fn, 'dim': 3, 'seed': 0,
                    'via': 'direct', 'space': space})
  nodes.append({'t': 'branin'})
  nodes += [{'t': 'hartmann', 'd': 3}, {'t': 'hartmann', 'd': 6}]
  for best, nf, nd, ni, rel in itertools.product(
      ('corner', 'center', 'mixed'), (1, 2), (1, 2), (1, 2), (True, False)):
    nodes.append({'t': 'simplekd', 'best': best, 'nf': nf, 'nd': nd, 'ni': ni,
                  'rel': rel})
  for i in range(1, 8):
    for nobj, dim in ((2, 3), (2, 5), (3, 4), (3, 6)):
      nodes.append({'t': 'dtlz', 'name': 'DTLZ%d' % i, 'dim': dim,
                    'nobj': nobj})
  for i in range(1, 10):
    for nobj, dim in ((2, 3), (2, 5), (3, 4), (3, 6)):
      nodes.append({'t': 'wfg', 'name': 'WFG%d' % i, 'dim': dim,
                    'nobj': nobj})
  for name in ('ZDT1', 'ZDT2', 'ZDT3', 'ZDT4', 'ZDT6'):
    for dim in (2, 3, 5):
      nodes.append({'t': 'zdt', 'name': name, 'dim': dim})
  for name in ('DH1', 'DH2', 'DH3', 'DH4'):
    for dim in (3, 4):
      nodes.append({'t': 'dh', 'name': name, 'dim': dim})
  return [{'node': n, 'batch': FIXED_BATCH, 'involution': True,
           'involution_objonly': True, 'noavoid': sorted(M.KNOWN_AVOID)}
          for n in nodes]


def check_base(case):
  out = check_stack(case)
  out.nontrivial = len(case['batch']) >= 2
  _ctor_statement_by_value(out)
  return out


def _ctor_statement_by_value(out):
  """A problem statement handed to an experimenter's constructor is the
  caller's object: what the caller does to it afterwards must not change what
  the experimenter reports (problem statements are passed by value)."""
  import numpy as np
  from vizier._src.benchmarks.experimenters import numpy_experimenter
  from vizier._src.benchmarks.experimenters.synthetic import bbob
  for cls_name in ('NumpyExperimenter', 'MultiObjectiveNumpyExperimenter'):
    try:
      ps = bbob.DefaultBBOBProblemStatement(2)
      if cls_name == 'NumpyExperimenter':
        exp = numpy_experimenter.NumpyExperimenter(bbob.Sphere, ps)
      else:
        from vizier import pyvizier as vz
        ps.metric_information.append(vz.MetricInformation(
            'second', goal=vz.ObjectiveMetricGoal.MINIMIZE))
        exp = numpy_experimenter.MultiObjectiveNumpyExperimenter(
            lambda x: np.array([float(np.sum(x ** 2)), float(np.sum(x))]), ps)
      before = M.describe_ps(exp.problem_statement())
      M.mutate_ps(ps)
      if M.describe_ps(exp.problem_statement()) != before:
        out.violate('ps/constructor_argument_by_reference/' + cls_name,
                    M._detail(diff=M.diff_desc(  # pylint: disable=protected-access
                        before, M.describe_ps(exp.problem_statement()))))
      out.cls('ctor_statement_mutated_afterwards')
    except Exception as e:  # pylint: disable=broad-except
      out.cls('ctor_statement_probe_raised:' + type(e).__name__)
  # hand-built trials all carry the default id 0: a batch of them is evaluated
  # trial by trial all the same (parameters kept, each its own value)
  try:
    from vizier import pyvizier as vz
    from vizier._src.benchmarks.experimenters import discretizing_experimenter
    from vizier._src.benchmarks.experimenters import experimenter_factory as ef
    base = ef.BBOBExperimenterFactory(name='Sphere', dim=2)()
    exp = discretizing_experimenter.DiscretizingExperimenter.create_with_grid(
        base, {'x0': 5})
    pts = [{'x0': -5.0, 'x1': 1.0}, {'x0': 0.0, 'x1': 2.0},
           {'x0': 5.0, 'x1': -3.0}]
    trials = [vz.Trial(parameters=dict(p)) for p in pts]
    exp.evaluate(trials)
    for p, t in zip(pts, trials):
      got = {k: v.value for k, v in t.parameters.items()}
      want_val = float(p['x0'] ** 2 + p['x1'] ** 2)
      fm = t.final_measurement
      val = None if fm is None else list(fm.metrics.values())[0].value
      if got != p:
        out.violate('input/changed/DiscretizingExperimenter/same_id_batch',
                    'trial built with %r holds %r after evaluate' % (p, got))
      elif val is None or abs(val - want_val) > 1e-9 * (1 + abs(want_val)):
        out.violate('discretize/value/same_id_batch',
                    'point %r evaluated to %r, Sphere gives %r' % (
                        p, val, want_val))
    out.cls('same_id_batch_checked')
  except Exception as e:  # pylint: disable=broad-except
    out.cls('same_id_probe_raised:' + type(e).__name__)


# ---------------------------------------------------------------------------
# factory
# ---------------------------------------------------------------------------
@st.composite
def factory_case(draw):
  dim = draw(st.integers(2, 5))
  idx = list(range(dim))
  dd = draw(st.lists(st.sampled_from(idx), max_size=2, unique=True))
  cd = draw(st.lists(st.sampled_from([i for i in idx if i not in dd] or [None]),
                     max_size=2, unique=True))
  cd = [i for i in cd if i is not None]
  return {
      'fn': draw(st.sampled_from(M.BBOB_FUNCS)), 'dim': dim,
      'rotation_seed': draw(st.integers(0, 3)),
      'shift': draw(st.one_of(st.none(), st.lists(
          FRAC, min_size=dim, max_size=dim))),
      'restrict': draw(st.booleans()),
      'noise': draw(st.one_of(st.none(), st.sampled_from(M.NOISE_TYPES))),
      'noise_lower': draw(st.booleans()),
      'noise_seed': draw(st.one_of(st.none(), st.integers(0, 9))),
      'norm': draw(st.sampled_from([0, 0, 2, 5, 9])),
      'discrete': {str(i): draw(st.integers(1, 5)) for i in dd},
      'categorical': {str(i): draw(st.integers(1, 5)) for i in cd},
      'permute': draw(st.booleans()),
      'permute_seed': draw(st.integers(0, 7)),
      'batch': draw(batch_strategy()),
      'noavoid': draw(st.sampled_from([[], [], [], [], [], [], [], [],
                                       ['bbob_scalar']])),
  }


def factory_strategy():
  return factory_case()


def check_factory(case):
  import numpy as np
  from vizier._src.benchmarks.experimenters import discretizing_experimenter
  from vizier._src.benchmarks.experimenters import experimenter_factory as ef
  from vizier._src.benchmarks.experimenters import noisy_experimenter
  from vizier._src.benchmarks.experimenters import normalizing_experimenter
  from vizier._src.benchmarks.experimenters import permuting_experimenter
  from vizier._src.benchmarks.experimenters import shifting_experimenter
  out = core.Out()
  ctx = M.Ctx(case.get('noavoid'))
  leafnode = {'t': 'bbob', 'fn': case['fn'], 'dim': case['dim'],
              'seed': case['rotation_seed']}
  fn, dim = M.bbob_effective(leafnode, ctx)
  shift = None
  if case['shift'] is not None:
    shift = np.array([10.0 * f for f in case['shift']])
    out.cls('opt:shift')
  noise = case['noise']
  if noise is not None:
    out.cls('opt:noise')
    if case['noise_lower']:
      noise = noise.lower()
  dd = {int(k): v for k, v in case['discrete'].items()}
  cd = {int(k): v for k, v in case['categorical'].items()}
  for name, flag in (('discrete', dd), ('categorical', cd),
                     ('normalize', case['norm']),
                     ('permute', case['permute'])):
    if flag:
      out.cls('opt:' + name)
  options = [c for c in out.classes if c.startswith('opt:')]
  out.nontrivial = bool(options) and len(case['batch']) >= 2

  def make():
    return ef.SingleObjectiveExperimenterFactory(
        ef.BBOBExperimenterFactory(name=fn, dim=dim,
                                   rotation_seed=case['rotation_seed']),
        shift=shift, should_restrict=case['restrict'], noise_type=noise,
        noise_seed=case['noise_seed'],
        num_normalization_samples=case['norm'], discrete_dict=dict(dd),
        categorical_dict=dict(cd), permute_categoricals=case['permute'],
        permute_seed=case['permute_seed'])

  def by_hand():
    e = ef.BBOBExperimenterFactory(name=fn, dim=dim,
                                   rotation_seed=case['rotation_seed'])()
    if shift is not None:
      e = shifting_experimenter.ShiftingExperimenter(
          e, shift=shift, should_restrict=case['restrict'])
    if case['norm']:
      e = normalizing_experimenter.NormalizingExperimenter(
          e, num_normalization_samples=case['norm'])
    names = [p.name for p in e.problem_statement().search_space.parameters]
    cls = discretizing_experimenter.DiscretizingExperimenter
    if dd:
      e = cls.create_with_grid(e, {names[i]: n for i, n in dd.items()},
                               convert_to_str=False)
    if cd:
      e = cls.create_with_grid(e, {names[i]: n for i, n in cd.items()},
                               convert_to_str=True)
    if case['permute']:
      cats = [p.name for p in e.problem_statement().search_space.parameters
              if p.type.name == 'CATEGORICAL']
      e = permuting_experimenter.PermutingExperimenter(
          e, cats, seed=case['permute_seed'])
    if noise is not None:
      e = noisy_experimenter.NoisyExperimenter.from_type(
          e, noise_type=noise.upper(), seed=case['noise_seed'])
    return e

  try:
    # the same factory object called twice (what a repeated benchmark does):
    # the second product starts afresh, like the first
    f1 = make()
    a, b, c = f1(), f1(), by_hand()
  except Exception as e:  # pylint: disable=broad-except
    out.violate('raises/construct/factory/%s@%s' % (
        M.exc_key(e), M.exc_site(e)), traceback.format_exc()[-1200:])
    for k in ctx.classes:
      out.cls(k)
    return out
  ps = a.problem_statement()
  desc = M.describe_ps(ps)
  points = resolve_batch(ps.search_space, case['batch'])
  names = [m['name'] for m in desc['metrics']]
  # documented meaning of the options, on the problem statement
  for i, n in list(dd.items()) + list(cd.items()):
    d = desc['space'].get('x%d' % i)
    want = 'CATEGORICAL' if i in cd else 'DISCRETE'
    if d is None or d['type'] != want or len(d.get('values', ())) != len(
        set(M.grid_reference(0.0, 1.0, None, n))):
      out.violate('factory/discretised_parameter', M._detail(  # pylint: disable=protected-access
          index=i, points=n, got=d, want=want))
  sa = _evaluate(a, points, out, 'evaluate')
  sb = sc = None
  if sa is not None:
    sb = _evaluate(b, points, out, 'evaluate_twin')
    sc = _evaluate(c, points, out, 'evaluate_by_hand')
  if sa is not None:
    for s, p in zip(sa, points):
      if not M.same_params(s['params'], p):
        out.violate('generic/parameters_changed/factory', M._detail(  # pylint: disable=protected-access
            suggested=p, after=s['params']))
      if not s['infeasible'] and (s['metrics'] is None or any(
          n not in s['metrics'] for n in names)):
        out.violate('generic/missing_metric/factory', M._detail(rec=s))  # pylint: disable=protected-access
      if noise is not None and s['metrics'] is not None and any(
          n + '_before_noise' not in s['metrics'] for n in names):
        out.violate('factory/noise_option_ignored', M._detail(rec=s))  # pylint: disable=protected-access
  for other, label in ((sb, 'second_call'), (sc, 'by_hand')):
    if sa is None or other is None:
      continue
    for x, y in zip(sa, other):
      if (not M.same_metrics(x['metrics'], y['metrics'])
          or x['infeasible'] != y['infeasible']):
        out.violate('factory/differs_from_%s' % label, M._detail(  # pylint: disable=protected-access
            factory=x, other=y))
        break
  if M.describe_ps(c.problem_statement()) != desc:
    out.violate('factory/problem_statement_differs_from_by_hand', M._detail(  # pylint: disable=protected-access
        diff=M.diff_desc(desc, M.describe_ps(c.problem_statement()))))
  mutated = a.problem_statement()
  M.mutate_ps(mutated)
  if M.describe_ps(a.problem_statement()) != desc:
    out.violate('ps/by_reference/factory_product', '')
  for k in ctx.classes:
    out.cls(k)
  out.cls('batch_%s' % ('1' if len(case['batch']) == 1 else '2plus'))
  return out


def families(tier):
  return [
      core.Family('bases', check_base, enumerate=enum_bases,
                  shards={'quick': 8, 'thorough': 8},
                  required_classes=('base:bbob', 'base:branin',
                                    'base:hartmann', 'base:simplekd',
                                    'base:dtlz', 'base:zdt', 'base:wfg',
                                    'base:dh', 'base_direct_impl_checked')),
      core.Family('stack', check_stack, strategy=stack_strategy,
                  budget={'quick': 1500, 'thorough': 40000},
                  shards={'quick': 16, 'thorough': 32},
                  required_classes=(
                      'depth_1', 'depth_2', 'depth_3', 'batch_2plus',
                      'w:shift', 'w:signflip', 'w:permute', 'w:discretize',
                      'w:hypercube', 'w:normalize', 'w:noisy', 'w:sparse',
                      'w:switch', 'w:multi', 'w:infeasible_hash',
                      'w:infeasible_region', 'base:bbob', 'base:simplekd',
                      'shift_nonzero', 'permute_moves_value',
                      'permute_swept', 'signflip_sees_auxiliary_metric',
                      'normalize_pair', 'noise_changes_value',
                      'has_infeasible_trial', 'double_signflip_checked',
                      'discretize_categorical', 'hypercube_mixed_inner',
                      'region_verdict_checked', 'sparse_adds_params')),
      core.Family('factory', check_factory, strategy=factory_strategy,
                  budget={'quick': 300, 'thorough': 6000},
                  shards={'quick': 4, 'thorough': 16},
                  required_classes=('opt:shift', 'opt:noise', 'opt:discrete',
                                    'opt:categorical', 'opt:normalize',
                                    'opt:permute', 'batch_2plus')),
  ]
