"""C04 Concurrent clients: every interleaving is equivalent to a serial order.

The harness owns the schedule (harness/sched.py): 2-3 RPCs run in threads of
which exactly one runs at a time; scheduling points are every datastore
method call and every acquire/release of a service lock. For every generated
(prefix, concurrent calls) the check runs
  * all schedules with <= 2 pre-emptions (capped, deterministic stride), and
  * the drawn random schedules,
and compares each outcome (per-call result class + payload, final snapshot,
operations) with the outcomes of the k! serial orders of the same calls on
fresh servicers, up to a bijection on the trial ids created during the run.
"""
import itertools
import json
import os

from harness import core

ID = 'C04'
LEVEL = 'exploration'
EVAL_COUNTER = 'schedules_run'
RULE = ('Hypothesis draws (backend, prefix of 0-6 sequential calls, 2-3 '
        'concurrent calls of the 11 kinds, random schedules); per case all '
        '<=2-pre-emption schedules (cap 150 quick / 400 thorough, stride '
        'sampled beyond) plus the random ones are executed under the '
        'cooperative scheduler. evaluations = schedules executed. A schedule '
        'is non-trivial if it pre-empts a thread between a datastore read and '
        'a later datastore write of that thread; distinct = SHA-1 of (case, '
        'effective thread trace).')
ASSUMPTIONS = [
    'interleavings are explored at the granularity of datastore calls and '
    'service-lock operations (the granularity named by the property); each '
    'datastore call is atomic (it holds the datastore\'s own lock)',
    'oracle = serial executions of the same code (differential), so a defect '
    'present in every serial order is invisible here',
    'pre-emption bound 2 + random schedules: not all schedules',
]

KINDS = ['suggest', 'create_trial', 'complete', 'add_meas', 'stop',
         'delete_trial', 'delete_study', 'update_md', 'set_state',
         'create_study', 'early_stop']


def strategy():
  from hypothesis import strategies as st
  from harness import histories
  owner = st.just('o0')
  sid = st.sampled_from(['s0', 's0', 's0', 's1'])
  tid = st.sampled_from([1, 1, 2, 2, 3, 4])
  worker = st.sampled_from(['w1', 'w2'])
  value = st.sampled_from([1.0, 2.5])
  comp = st.fixed_dictionaries({'final': st.one_of(st.none(), value),
                                'infeasible': st.booleans(),
                                'reason': st.just('')})
  tspec = st.fixed_dictionaries({
      'state': st.sampled_from(['REQUESTED', 'SUCCEEDED']),
      'final': st.just(1.0), 'client_id': st.just(''),
      'k': st.integers(0, 3), 'md': st.just([])})
  item = st.tuples(st.one_of(st.just('study'), tid),
                   st.sampled_from(['', ':a']), st.sampled_from(['k', 'j']),
                   st.sampled_from(['v', 'w'])).map(list)
  call = st.one_of(
      st.tuples(st.just('suggest'), owner, sid, worker, st.integers(1, 2)),
      st.tuples(st.just('suggest'), owner, sid, worker, st.integers(1, 2)),
      st.tuples(st.just('create_trial'), owner, sid, tspec),
      st.tuples(st.just('complete'), owner, sid, tid, comp),
      st.tuples(st.just('add_meas'), owner, sid, tid, value),
      st.tuples(st.just('stop'), owner, sid, tid),
      st.tuples(st.just('delete_trial'), owner, sid, tid),
      st.tuples(st.just('delete_study'), owner, sid),
      st.tuples(st.just('update_md'), owner, sid,
                st.lists(item, min_size=1, max_size=2)),
      st.tuples(st.just('set_state'), owner, sid,
                st.sampled_from(['ACTIVE', 'INACTIVE'])),
      st.tuples(st.just('create_study'), owner, sid),
      st.tuples(st.just('early_stop'), owner, sid, tid),
  ).map(list)
  prefix_op = histories.op_strategy(owners=['o0'], sids=['s0', 's0', 's1'],
                                    max_suggest=2, optimal=False)
  prefix = st.tuples(
      st.sampled_from([
          [], [['create_study', 'o0', 's0']],
          [['create_study', 'o0', 's0'], ['suggest', 'o0', 's0', 'w1', 2]],
          [['create_study', 'o0', 's0'], ['suggest', 'o0', 's0', 'w1', 2],
           ['create_trial', 'o0', 's0',
            {'state': 'REQUESTED', 'final': None, 'client_id': '', 'k': 1,
             'md': []}]],
      ]), st.lists(prefix_op, max_size=4)).map(lambda t: t[0] + t[1])
  return st.fixed_dictionaries({
      'backend': st.sampled_from(['ram', 'sqlmem']),
      'read_trials': st.booleans(),
      'prefix': prefix,
      'calls': st.lists(call, min_size=2, max_size=3),
      'random_schedules': st.lists(
          st.lists(st.integers(0, 2), min_size=4, max_size=40),
          min_size=4, max_size=12),
  })


# ---------------------------------------------------------------- canonical
def _trial_d(t):
  from harness import svc
  return {
      'id': int(t.id) if t.id else 0, 'state': int(t.state),
      'client': t.client_id,
      'params': sorted((p.parameter_id, repr(
          p.value.string_value if p.value.HasField('string_value')
          else p.value.number_value)) for p in t.parameters),
      'final': [(m.metric_id, m.value) for m in t.final_measurement.metrics],
      'has_final': t.HasField('final_measurement'),
      'meas': [[(m.metric_id, m.value) for m in ms.metrics]
               for ms in t.measurements],
      'reason': t.infeasible_reason,
      'md': [(kv.ns, kv.key, kv.value) for kv in t.metadata],
  }


def _study_d(st_):
  return {'name': st_.name, 'state': int(st_.state),
          'md': [(kv.ns, kv.key, kv.value)
                 for kv in st_.study_spec.metadata]}


def _canon_call(op, res):
  from harness import svc
  study_pb2 = svc.study_pb2
  if res[0] == 'err':
    return ['err', res[1]]
  v = res[1]
  if op[0] == 'early_stop':
    return ['ok', None]  # advisory boolean exempt
  if op[0] == 'suggest':
    r = svc.suggest_response(v)
    return ['ok', {'op': v.name, 'done': v.done,
                   'error': v.HasField('error'),
                   'trials': [_trial_d(t) for t in r.trials]}]
  if op[0] == 'update_md':
    # an UpdateMetadataResponse carrying error_details is an error report
    return ['err', 'ERROR_DETAILS'] if v else ['ok', None]
  if op[0] == 'create_trial' and isinstance(v, study_pb2.Trial):
    return ['ok', _trial_d(v)]
  # The statement compares, per call, the success or error class and - for
  # suggest / add-trial - the trials handed out; other response payloads (for
  # example the study echoed by SetStudyState) are not part of it.
  return ['ok', None]


def _snapshot(s):
  """Studies + trials + suggestion operations of the universe."""
  from harness import svc, histories
  vsp = svc.vsp
  snap = {'studies': [], 'ops': []}
  try:
    studies = s.ListStudies(vsp.ListStudiesRequest(parent='owners/o0')).studies
  except Exception:  # pylint: disable=broad-except
    studies = []
  for st_ in studies:
    trials = s.ListTrials(vsp.ListTrialsRequest(parent=st_.name)).trials
    snap['studies'].append({'study': _study_d(st_),
                            'trials': [_trial_d(t) for t in trials]})
  for sid in ('s0', 's1'):
    for w in ('w1', 'w2'):
      for k in (1, 2, 3, 4):
        r = histories.exec_real(s, ['get_op', 'o0', sid, w, k], scribble=False)
        if r[0] == 'ok':
          snap['ops'].append(_canon_call(['suggest'], r))
  return snap


def _relabel(obj, mapping):
  """Replaces trial ids (under key 'id') according to mapping; sorts trial
  lists of snapshots by the new id."""
  if isinstance(obj, dict):
    d = {k: _relabel(v, mapping) for k, v in obj.items()}
    if 'id' in d and isinstance(d['id'], int):
      d['id'] = mapping.get(d['id'], d['id'])
    if 'trials' in d and 'study' in d:
      d['trials'] = sorted(d['trials'], key=lambda t: t['id'])
    return d
  if isinstance(obj, (list, tuple)):
    return [_relabel(v, mapping) for v in obj]
  return obj


def _ids(obj, acc):
  if isinstance(obj, dict):
    if 'id' in obj and isinstance(obj['id'], int) and 'state' in obj:
      acc.add(obj['id'])
    for v in obj.values():
      _ids(v, acc)
  elif isinstance(obj, (list, tuple)):
    for v in obj:
      _ids(v, acc)
  return acc


def _equivalent(c, s_, base_ids):
  """Is outcome c equal to serial outcome s_ up to a bijection of new ids?"""
  nc = sorted(_ids(c, set()) - base_ids)
  ns = sorted(_ids(s_, set()) - base_ids)
  if len(nc) != len(ns):
    return False
  if len(nc) > 6:
    nc_, ns_ = nc, ns
    return json.dumps(_relabel(c, {}), sort_keys=True) == json.dumps(
        _relabel(s_, {}), sort_keys=True)
  target = json.dumps(_relabel(s_, {}), sort_keys=True)
  for perm in itertools.permutations(ns):
    m = dict(zip(nc, perm))
    # two-phase relabel to avoid chains: map to negative temporaries first
    tmp = {a: -(i + 1) for i, a in enumerate(nc)}
    back = {-(i + 1): m[a] for i, a in enumerate(nc)}
    if json.dumps(_relabel(_relabel(c, tmp), back), sort_keys=True) == target:
      return True
  return False


# ----------------------------------------------------------------- execution
def _fresh(case):
  from harness import svc
  plan = svc.Plan(read_trials=case['read_trials'])
  s = svc.make_servicer(case['backend'],
                        policy_factory=svc.HarnessPolicyFactory(plan))
  return s


def _run_prefix(s, case):
  from harness import histories
  for op in case['prefix']:
    histories.exec_real(s, op, scribble=False)


def _base_ids(s):
  ids = set()
  _ids(_snapshot(s), ids)
  return ids


def _serial_outcomes(case):
  from harness import svc, histories
  outs = []
  calls = case['calls']
  base = None
  for order in itertools.permutations(range(len(calls))):
    s = _fresh(case)
    try:
      _run_prefix(s, case)
      if base is None:
        base = _base_ids(s)
      res = [None] * len(calls)
      for i in order:
        res[i] = _canon_call(calls[i], histories.exec_real(
            s, calls[i], scribble=False))
      outs.append({'order': list(order), 'calls': res,
                   'snap': _snapshot(s)})
    finally:
      svc.close_servicer(s)
  return outs, base


def _run_schedule(case, policy):
  from harness import svc, histories, sched
  s = _fresh(case)
  try:
    _run_prefix(s, case)
    sch = sched.Sched(policy, max_steps=3000)
    sched.instrument(s, sch)
    recs = []
    for i, op in enumerate(case['calls']):
      recs.append(sch.spawn(
          (lambda op=op: histories.exec_real(s, op, scribble=False)),
          't%d' % i))
    status = 'ok'
    try:
      sch.run()
    except sched.Deadlock as e:
      return {'status': 'deadlock', 'detail': str(e), 'trace': sch.trace}
    except sched.Livelock as e:
      return {'status': 'livelock', 'detail': str(e), 'trace': sch.trace}
    res = []
    for r, op in zip(recs, case['calls']):
      kind, val = r['result']
      if kind == 'exc':
        res.append(['err', 'CRASH:' + type(val).__name__])
      else:
        res.append(_canon_call(op, val))
    # un-instrument for the snapshot (main thread: points are no-ops anyway)
    return {'status': status, 'calls': res, 'snap': _snapshot(s),
            'trace': sch.trace, 'preemptions': sch.preemptions}
  finally:
    svc.close_servicer(s)


READS = ('ds.get_', 'ds.list_', 'ds.load_', 'ds.max_')
WRITES = ('ds.create_', 'ds.update_', 'ds.delete_')


def _rmw_preempted(trace):
  """True if some thread is switched away from after a ds read and performs a
  ds write later."""
  n = len(trace)
  for i in range(n - 1):
    t, why = trace[i]
    if trace[i + 1][0] == t:
      continue
    # thread t ran the segment that *starts* at point `why`; it was parked at
    # its next point. Did t read before and write later?
    read_before = any(tr[0] == t and tr[1].startswith(READS)
                      for tr in trace[:i + 1])
    write_after = any(tr[0] == t and tr[1].startswith(WRITES)
                      for tr in trace[i + 2:])
    if read_before and write_after:
      return True
  return False


def _bounded_policies(names, steps_hint, cap):
  """All schedules with <=2 pre-emptions over `steps_hint` global steps."""
  from harness import sched
  pols = []
  for order in itertools.permutations(names):
    pols.append(('np', list(order), {}))
  others = lambda: names
  singles = [(k, t) for k in range(1, steps_hint) for t in others()]
  for order in itertools.permutations(names):
    for k, t in singles:
      pols.append(('p1', list(order), {k: t}))
  doubles = []
  for order in itertools.permutations(names):
    for (k1, t1), (k2, t2) in itertools.combinations(singles, 2):
      if k1 < k2:
        doubles.append(('p2', list(order), {k1: t1, k2: t2}))
  if len(pols) + len(doubles) > cap:
    room = max(0, cap - len(pols))
    if len(pols) > cap:
      stride = len(pols) / float(cap)
      pols = [pols[int(i * stride)] for i in range(cap)]
      room = 0
    if room and doubles:
      stride = len(doubles) / float(room)
      doubles = [doubles[int(i * stride)] for i in range(room)]
    else:
      doubles = []
  pols += doubles
  return [(kind, order, pre, sched.policy_bounded(order, pre))
          for kind, order, pre in pols]


# Known finding (known_findings.jsonl, pinned/C04/delete_study_*.json):
# DeleteStudy takes no lock and is not synchronised with in-flight calls on the
# same study. While it is listed, concurrent call sets in which DeleteStudy and
# another call address the same study are excluded by construction (and
# counted), so that the search continues behind it. The pinned replays bypass
# the exclusion.
import os as _os
EXCLUDE_DELETE_STUDY_RACE = not _os.environ.get('VERIF_C04_NO_EXCLUDE')


def _delete_study_race(calls):
  for c in calls:
    if c[0] == 'delete_study':
      if any(d is not c and d[2] == c[2] for d in calls):
        return True
  return False


def check(case, cap=None):
  """Runs the case; a violation seen with 3 concurrent calls is attributed to
  a pair of them when that pair alone shows a violation of the same clause
  (root-cause attribution, so that buckets name the minimal call set)."""
  if (EXCLUDE_DELETE_STUDY_RACE and not case.get('pinned')
      and _delete_study_race(case['calls'])):
    calls = [c if c[0] != 'delete_study' else
             ['delete_study', c[1], 's1' if c[2] == 's0' else 's0']
             for c in case['calls']]
    if _delete_study_race(calls):
      calls = [c for c in calls if c[0] != 'delete_study']
      calls = calls if len(calls) >= 2 else calls + [
          ['suggest', 'o0', 's0', 'w2', 1]]
    case = dict(case, calls=calls)
    excl = True
  else:
    excl = False
  out = _check_calls(case, cap)
  if excl:
    out.cls('excluded_delete_study_race_known_finding')
  if len(case['calls']) < 3 or out.ok:
    return out
  pair_clauses = set()
  pair_viol = []
  for i, j in itertools.combinations(range(len(case['calls'])), 2):
    sub = dict(case, calls=[case['calls'][i], case['calls'][j]])
    o2 = _check_calls(sub, cap)
    for k, v in o2.counters.items():
      out.count(k, v)
    for v in o2.violations:
      pair_clauses.add(v['bucket'].split('/')[0])
      pair_viol.append(v)
  kept = [v for v in out.violations
          if v['bucket'].split('/')[0] not in pair_clauses]
  seen = set()
  for v in pair_viol:
    if v['bucket'] not in seen:
      seen.add(v['bucket'])
      kept.append(v)
  out.violations = kept
  return out


def _check_calls(case, cap=None):
  from harness import sched
  import os
  out = core.Out()
  tier_cap = cap or int(os.environ.get('VERIF_C04_CAP', '150'))
  calls = case['calls']
  kinds = '+'.join(sorted(c[0] for c in calls))
  serial, base = _serial_outcomes(case)
  serial_json = [json.dumps([so['calls'], so['snap']], sort_keys=True)
                 for so in serial]
  serial_classes = [set() for _ in calls]
  for so in serial:
    for i, r in enumerate(so['calls']):
      serial_classes[i].add(r[1] if r[0] == 'err' else 'ok')
  names = ['t%d' % i for i in range(len(calls))]
  # steps hint from one non-pre-emptive run
  probe = _run_schedule(case, sched.policy_bounded(names, {}))
  steps = len(probe.get('trace', [])) or 10
  out.count('schedules_run')
  policies = _bounded_policies(names, min(steps, 40), tier_cap)
  for ch in case['random_schedules']:
    policies.append(('rnd', ch, None, sched.policy_from_choices(ch)))
  cache = {}
  nt_keys = set()
  case_hash = core.case_hash({k: case[k] for k in ('backend', 'prefix',
                                                   'calls', 'read_trials')})
  any_rmw = False
  for kind, a, b, pol in policies:
    res = _run_schedule(case, pol)
    out.count('schedules_run')
    out.count('schedules_' + kind)
    sched_desc = {'kind': kind, 'order_or_choices': a, 'preempts': b}
    if res['status'] != 'ok':
      out.violate('%s/%s' % (res['status'], kinds),
                  'schedule=%r: %s' % (sched_desc, res['detail'][:300]))
      continue
    tr = tuple(res['trace'])
    if _rmw_preempted(res['trace']):
      any_rmw = True
      nt_keys.add(core.case_hash([case_hash, [t for t, _ in tr]]))
    key = json.dumps([res['calls'], res['snap']], sort_keys=True)
    if key in cache:
      continue
    cache[key] = True
    # order-free invariants
    for sd in res['snap']['studies']:
      ids = [t['id'] for t in sd['trials']]
      if len(ids) != len(set(ids)):
        out.violate('duplicate_trial_id/%s' % kinds, 'schedule=%r ids=%r' % (
            sched_desc, ids))
    for o in res['snap']['ops']:
      if not o[1]['done']:
        out.violate('operation_left_undone/%s' % kinds,
                    'schedule=%r op=%s' % (sched_desc, o[1]['op']))
    for i, r in enumerate(res['calls']):
      cls = r[1] if r[0] == 'err' else 'ok'
      if cls not in serial_classes[i]:
        out.violate('result_class_only_from_interleaving/%s/%s:%s' % (
            kinds, calls[i][0], cls),
                    'schedule=%r call %d %r got %s; serial orders give %s; '
                    'trace=%s' % (sched_desc, i, calls[i], cls,
                                  sorted(serial_classes[i]),
                                  [t for t, _ in tr][:60]))
    if key in serial_json:
      continue
    c_obj = [res['calls'], res['snap']]
    if any(_equivalent(c_obj, [so['calls'], so['snap']], base or set())
           for so in serial):
      continue
    out.violate('not_serializable/%s' % kinds,
                'schedule=%r calls=%r -> results=%s trials=%s ; no serial '
                'order gives this (serial results: %s)' % (
                    sched_desc, calls, json.dumps(res['calls'])[:400],
                    json.dumps([[(t['id'], t['state'], t['client'])
                                 for t in sd['trials']]
                                for sd in res['snap']['studies']])[:300],
                    json.dumps([so['calls'] for so in serial])[:500]))
  out.nontrivial = any_rmw
  out.nt_keys = nt_keys
  out.cls(case['backend'], 'calls_%d' % len(calls))
  for c in calls:
    out.cls('kind_' + c[0])
  if any_rmw:
    out.cls('preempted_read_modify_write')
  return out


def check_thorough(case):
  return check(case, cap=400)


def check_matrix_thorough(case):
  out = check(case, cap=400)
  out.cls('matrix_pair')
  return out


# ------------------------------------------------------- systematic pair matrix
MATRIX_PREFIX = [
    ['create_study', 'o0', 's0'],
    ['suggest', 'o0', 's0', 'w1', 2],          # trials 1,2 ACTIVE for w1
    ['add_meas', 'o0', 's0', 1, 1.0],
    ['add_meas', 'o0', 's0', 2, 1.0],
    ['create_trial', 'o0', 's0', {'state': 'REQUESTED', 'final': None,
                                  'client_id': '', 'k': 1, 'md': []}],  # 3
    ['create_trial', 'o0', 's0', {'state': 'SUCCEEDED', 'final': 1.0,
                                  'client_id': '', 'k': 2, 'md': []}],  # 4
    ['create_trial', 'o0', 's0', {'state': 'REQUESTED', 'final': None,
                                  'client_id': '', 'k': 4, 'md': []}],  # 5
    ['update_md', 'o0', 's0', [['study', ':a', 'k', 'v'], [1, ':a', 'k', 'v']]],
    # a sibling study of the same owner, used by the same worker ids
    ['create_study', 'o0', 's1'],
    ['suggest', 'o0', 's1', 'w1', 1],
]


def _matrix_variants(focus):
  comp = {'final': 2.5, 'infeasible': False, 'reason': ''}
  comp_auto = {'final': None, 'infeasible': False, 'reason': ''}
  return [
      ['suggest', 'o0', 's0', 'w2', 1],
      ['suggest', 'o0', 's0', 'w2', 2],
      ['suggest', 'o0', 's0', 'w1', 3],
      ['suggest', 'o0', 's1', 'w2', 1],   # same worker id, sibling study
      ['create_trial', 'o0', 's0', {'state': 'REQUESTED', 'final': None,
                                    'client_id': '', 'k': 3, 'md': []}],
      ['complete', 'o0', 's0', focus, comp],
      ['complete', 'o0', 's0', focus, comp_auto],
      ['add_meas', 'o0', 's0', focus, 2.5],
      ['stop', 'o0', 's0', focus],
      ['delete_trial', 'o0', 's0', focus],
      ['early_stop', 'o0', 's0', focus],
      ['update_md', 'o0', 's0', [[focus, ':a', 'j', 'w'],
                                 ['study', ':a', 'j', 'w']]],
      ['set_state', 'o0', 's0', 'INACTIVE'],
      ['set_state', 'o0', 's0', 'ACTIVE'],
      ['create_study', 'o0', 's1'],
      ['delete_study', 'o0', 's1'],
  ]


def enum_matrix(tier):
  cases = []
  # focus trial: 1 = ACTIVE (own, with a measurement), 3 / 5 = queued REQUESTED,
  # 4 = completed (thorough tier only: those pairs are mostly rejections)
  # 5 = the REQUESTED trial SuggestTrials picks first (a second one, 3, is
  # queued behind it)
  for focus in ((1, 3, 4, 5) if tier == 'thorough' else (1, 5)):
    vs = _matrix_variants(focus)
    for i in range(len(vs)):
      for j in range(i, len(vs)):
        for backend in (('ram', 'sqlmem') if tier == 'thorough' else (
            ['ram', 'sqlmem'][(i + j + focus) % 2],)):
          cases.append({'backend': backend, 'read_trials': True,
                        'prefix': MATRIX_PREFIX, 'calls': [vs[i], vs[j]],
                        'random_schedules': []})
  return cases


def check_matrix(case):
  out = check(case, cap=int(os.environ.get('VERIF_C04_MATRIX_CAP', '120')))
  out.cls('matrix_pair')
  return out


def families(tier):
  from harness import c04_ds, c04_local
  chk = check if tier == 'quick' else check_thorough
  return [
      # the granularity assumption itself: a datastore call is one atomic step
      core.Family('ds_atomic', c04_ds.check if tier == 'quick' else
                  c04_ds.check_thorough, strategy=c04_ds.strategy,
                  budget={'quick': 320, 'thorough': 4000},
                  shards={'quick': 16, 'thorough': 16},
                  required_classes=('sqlmem', 'ram',
                                    'switched_inside_a_datastore_call',
                                    'all_interleavings_enumerated')),
      # in-process clients of the endpoint-less client library, one per thread
      core.Family('local_clients', c04_local.check if tier == 'quick' else
                  c04_local.check_thorough, strategy=c04_local.strategy,
                  budget={'quick': 64, 'thorough': 640},
                  shards={'quick': 16, 'thorough': 16},
                  required_classes=('local_clients',
                                    'preempted_read_modify_write',
                                    'lkind_meas', 'lkind_suggest',
                                    'lkind_create_or_load')),
      core.Family('pair_matrix', check_matrix if tier == 'quick' else
                  check_matrix_thorough, enumerate=enum_matrix,
                  shards={'quick': 16, 'thorough': 16},
                  required_classes=('matrix_pair',
                                    'preempted_read_modify_write')),
      core.Family('interleavings', chk, strategy=strategy,
                  budget={'quick': 64, 'thorough': 1280},
                  shards={'quick': 16, 'thorough': 16},
                  required_classes=('preempted_read_modify_write', 'ram',
                                    'sqlmem', 'calls_2', 'calls_3') + tuple(
                                        'kind_' + k for k in KINDS)),
  ]
