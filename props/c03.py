"""C03 Every suggestion lies inside the search space, for every algorithm.

Entry levels
  (i)   designers used directly        families `designers`, `slow_designers`,
                                        `gp` (entry 'designer')
  (ii)  every algorithm name of DefaultPolicyFactory through
        clients.Study.suggest on a local (RAM) servicer
                                        families `service`, `gp` (entry 'service')
  (iii) get_default_parameters / seed_with_default on flat and conditional
        spaces                          family `defaults`; the GP designers' own
                                        centre + quasi-random seeding on an
                                        empty study: family `gp_seeding`

`designers` also drives random_sample.sample_parameters (flat spaces only: a
helper without a refusal contract).  The expensive `gp` family (GP fitted on
a history; reduced optimiser budgets at designer level, stock settings at
service level) is a fixed-size seeded sample dealt out to the workers.

A case is (space spec, algorithm, options, metrics, pre-history, rounds).  A
round = suggest(count) followed by feedback on the returned suggestions
(completed with ordinary / extreme metric values, infeasible, left active),
user-added trials (duplicates of earlier suggestions, fresh member points)
and late completion of active trials.  Before every suggest the designer is
updated with the newly completed and all active trials, exactly as
DesignerPolicy does.

Oracle: harness/c03_oracle.judge (independent membership oracle, flat and
conditional).  For each algorithm the space generator is restricted to what
the constructor documents / guards (`_supported`).  Outside that the expected
outcome is a raised error; an answer is still judged by the oracle ("refused,
never answered wrongly").  Inside the documented domain an exception is a
refusal too (the statement permits it); it is measured as a class
(`error_in_supported:*`) and the vacuity guard requires `answered:<algo>`.
"""
import traceback

from hypothesis import strategies as st

from harness import c03_oracle as oi
from harness import core
from harness import spaces

ID = 'C03'
LEVEL = 'exploration'
RULE = ('Hypothesis-generated (flat_space x algorithm x constructor options x '
        'batch size 1..5/None x history of completed / extreme-metric / '
        'infeasible / duplicate / active trials) at three entry levels '
        '(designer objects, algorithm names through clients.Study.suggest on a '
        'RAM servicer, default/centre seeding incl. conditional spaces). The '
        'gp family is a seeded sample of 10 (quick) / 66 (thorough) such cases '
        'stratified over the GP entry points (3:2 designer level with mostly '
        'reduced optimiser budgets : service names with stock settings). '
        'non-trivial = at least one suggestion was answered and judged AND the '
        'space has >=2 parameter kinds or a LOG/REVERSE_LOG scale or a '
        'degenerate domain (or is conditional, defaults family) AND, for '
        'history-dependent algorithms (eagle, nsga2, cmaes, bocs, harmonica, '
        'GP), a suggestion was answered after a non-empty history had been fed '
        'back (gp_seeding: the empty-study seeding itself is the subject). '
        'distinct = SHA-1 of the canonical JSON case.')
ASSUMPTIONS = [
    'membership is judged on Trial(Suggestion).parameters[name].value '
    '(numpy scalars are read as the python number they hold); an INTEGER '
    'parameter holding the float 3.0 counts as integral',
    'an exception (at construction, update or suggest) counts as "refused"; '
    'C03 does not demand that supported configurations never raise - the '
    'classes error_in_supported:* measure how often that happens',
    'service level: RANDOM_SEARCH, QUASI_RANDOM_SEARCH, EAGLE_STRATEGY and '
    'SHUFFLED_GRID_SEARCH seed themselves from entropy / wall clock inside '
    'vizier, so a service-level replay re-runs the same configuration but not '
    'necessarily the same random draws',
    'GP designers at entry level (i) run with reduced acquisition / ARD '
    'budgets given through public constructor arguments (quick tier); the '
    'service level uses the stock settings',
    'user-supplied default values outside the domain are not generated',
]

STATELESS = ('random', 'random_sample', 'quasi_random', 'grid', 'grid_shuffle')
CHEAP = ('random', 'random_sample', 'quasi_random', 'grid', 'grid_shuffle',
         'eagle', 'nsga2')
SLOW = ('cmaes', 'bocs', 'harmonica')
GP = ('gp_bandit', 'gp_ucb_pe')

SERVICE_ALGOS = {
    # service name -> designer family used for the support rules
    'RANDOM_SEARCH': 'random', 'QUASI_RANDOM_SEARCH': 'quasi_random',
    'GRID_SEARCH': 'grid', 'SHUFFLED_GRID_SEARCH': 'grid_shuffle',
    'NSGA2': 'nsga2', 'EAGLE_STRATEGY': 'eagle', 'CMA_ES': 'cmaes',
    'BOCS': 'bocs', 'HARMONICA': 'harmonica',
    'DEFAULT': 'gp_ucb_pe', 'ALGORITHM_UNSPECIFIED': 'gp_ucb_pe',
    'GP_UCB_PE': 'gp_ucb_pe', 'GAUSSIAN_PROCESS_BANDIT': 'gp_bandit',
}
SERVICE_CHEAP = ('RANDOM_SEARCH', 'QUASI_RANDOM_SEARCH', 'GRID_SEARCH',
                 'SHUFFLED_GRID_SEARCH', 'NSGA2', 'EAGLE_STRATEGY', 'CMA_ES',
                 'BOCS', 'HARMONICA')
SERVICE_GP = ('DEFAULT', 'ALGORITHM_UNSPECIFIED', 'GP_UCB_PE',
              'GAUSSIAN_PROCESS_BANDIT')
# policies wrapped in DesignerPolicy(use_seeding=True): first trial = default
SEEDED = ('DEFAULT', 'ALGORITHM_UNSPECIFIED', 'GP_UCB_PE',
          'GAUSSIAN_PROCESS_BANDIT', 'BOCS', 'HARMONICA')

METRIC_VALUES = [0.0, 1.0, -1.0, 0.5, 2.5, -7.25, 3.0, 1e-300, 1e30, -1e30,
                 1e300, -1e300]
EXTREME = (1e-300, 1e30, -1e30, 1e300, -1e300)


# ---------------------------------------------------------------------------
# support rules: what each constructor documents / guards
# ---------------------------------------------------------------------------
def _supported(algo, spec, n_metrics, counts):
  """(supported?, reason) from the constructors' docstrings and guards."""
  if oi.is_conditional(spec):
    return False, 'conditional'
  kinds = {p['kind'] for p in spec['params']}
  if any(p['kind'] == 'DOUBLE' and p.get('scale') in ('LOG', 'REVERSE_LOG')
         and p['lo'] <= 0 for p in spec['params']):
    return False, 'log_scale_nonpositive'
  if algo == 'cmaes':
    if kinds != {'DOUBLE'}:
      return False, 'cmaes_non_double'
    if len(spec['params']) < 2:
      return False, 'cmaes_lt2_params'
  if algo in ('bocs', 'harmonica'):
    if kinds != {'BOOL'}:
      return False, 'non_boolean'
    if any((c or 1) > 1 for c in counts):
      return False, 'batched'
  if algo in ('eagle', 'cmaes', 'bocs', 'harmonica') and n_metrics != 1:
    return False, 'multi_objective'
  if algo in ('eagle', 'gp_bandit') and any(c is None for c in counts):
    return False, 'count_none'
  return True, ''


# ---------------------------------------------------------------------------
# strategies
# ---------------------------------------------------------------------------
def _metric_value():
  return st.one_of(st.sampled_from(METRIC_VALUES),
                   st.floats(-100, 100, allow_nan=False).map(
                       lambda v: round(v, 3)))


@st.composite
def _nonpositive_log_space(draw):
  """A flat space one of whose DOUBLE parameters asks for LOG / REVERSE_LOG
  scaling on a range that is not strictly positive: nothing can scale it; the
  documented outcome is a refusal, an answer must at least be complete and
  in-domain."""
  spec = draw(spaces.flat_space(1, 3))
  lo, hi = draw(st.sampled_from([(-3.0, -1.0), (-1.0, 1.0), (-0.5, 8.0),
                                 (0.0, 1.0), (-1e-9, 1e-3)]))
  k = draw(st.integers(0, len(spec['params']) - 1))
  spec['params'][k] = {'name': spec['params'][k]['name'], 'kind': 'DOUBLE',
                       'lo': lo, 'hi': hi,
                       'scale': draw(st.sampled_from(['LOG', 'LOG',
                                                      'REVERSE_LOG']))}
  return spec


def _generic_space():
  return st.one_of(
      spaces.flat_space(1, 5), spaces.flat_space(1, 5),
      _nonpositive_log_space(),
      spaces.flat_space(1, 4, hostile_names=True),
      spaces.flat_space(1, 3, scales=('LOG', 'REVERSE_LOG')),
      spaces.flat_space(1, 3, kinds=('INTEGER', 'DISCRETE')),
      spaces.flat_space(1, 2, kinds=('DOUBLE',)))


def _space_for(algo, want_supported):
  if want_supported:
    if algo == 'cmaes':
      return spaces.flat_space(2, 4, kinds=('DOUBLE',))
    if algo in ('bocs', 'harmonica'):
      return spaces.flat_space(1, 5, kinds=('BOOL',))
    if algo in GP:
      # GP models treat CATEGORICAL/BOOL (index features) and continuified
      # numeric parameters in two separate arrays: make both frequent.
      return st.one_of(
          _generic_space(),
          spaces.flat_space(2, 4, kinds=('CATEGORICAL', 'BOOL', 'DOUBLE')),
          spaces.flat_space(2, 4, kinds=('CATEGORICAL', 'BOOL', 'INTEGER',
                                         'DISCRETE')))
    return _generic_space()
  cond = spaces.conditional_space(max_depth=2)
  if algo == 'cmaes':
    return st.one_of(spaces.flat_space(1, 1, kinds=('DOUBLE',)),
                     spaces.flat_space(2, 3, kinds=('DOUBLE', 'INTEGER',
                                                    'CATEGORICAL')), cond)
  if algo in ('bocs', 'harmonica'):
    # incl. spaces that MIX booleans with other kinds: a guard that only
    # looks for "some boolean" would let them through
    mixed = spaces.flat_space(2, 4, kinds=('BOOL', 'BOOL', 'INTEGER',
                                           'CATEGORICAL', 'DOUBLE')).filter(
        lambda sp: len({p['kind'] for p in sp['params']}) >= 2
        and any(p['kind'] == 'BOOL' for p in sp['params']))
    return st.one_of(spaces.flat_space(1, 3), cond, mixed, mixed,
                     spaces.flat_space(1, 3, kinds=('BOOL',)))
  return cond


def _opts_for(algo):
  if algo == 'quasi_random':
    return st.fixed_dictionaries({'skip_points': st.sampled_from([0, 1, 1000])})
  if algo in ('grid', 'grid_shuffle'):
    return st.fixed_dictionaries(
        {'resolution': st.sampled_from([2, 3, 10, 10])})
  if algo == 'eagle':
    # infeasible_force_factor stays at its default 0: with a positive value
    # and a pool holding only infeasible flies FireflyPool.
    # get_next_moving_fly_copy never terminates (a liveness defect outside
    # C03; a hanging case would only burn the budget).
    return st.fixed_dictionaries({
        'pool': st.sampled_from([None, 2, 3, 5]),
        'perturbation': st.sampled_from([0.1, 0.5])})
  if algo == 'nsga2':
    return st.fixed_dictionaries({
        'population_size': st.sampled_from([2, 3, 5, 50]),
        'first_survival_after': st.sampled_from([1, 2, 4, None])})
  if algo == 'cmaes':
    return st.fixed_dictionaries({'pop_size': st.sampled_from([None, 4, 4])})
  if algo == 'bocs':
    return st.fixed_dictionaries({
        'num_initial_randoms': st.sampled_from([1, 2, 3, 10]),
        'acq': st.sampled_from(['sdp', 'sa'])})
  if algo == 'harmonica':
    return st.fixed_dictionaries({
        'num_init_samples': st.sampled_from([1, 2, 4, 10]),
        'acquisition_samples': st.sampled_from([5, 100])})
  if algo in GP:
    # mostly reduced acquisition / ARD budgets; sometimes the stock settings
    return st.fixed_dictionaries(
        {'stock': st.sampled_from([False] * 7 + [True])})
  return st.just({})


@st.composite
def _metrics(draw, algo, want_supported):
  goal = st.sampled_from(['MAXIMIZE', 'MINIMIZE'])
  n = 1
  if algo == 'nsga2':
    n = draw(st.sampled_from([1, 2, 2, 3]))
  elif algo == 'eagle' and not want_supported:
    n = draw(st.sampled_from([1, 2]))
  return [['m%d' % i if i else 'm', draw(goal)] for i in range(n)]


@st.composite
def _status(draw, n_metrics, rare_inf=False):
  """How a trial is fed back: ['c', [values]] | ['inf'] | ['act']."""
  if rare_inf:
    k = draw(st.sampled_from(['c'] * 16 + ['act'] * 3 + ['inf']))
  else:
    k = draw(st.sampled_from(['c', 'c', 'c', 'c', 'inf', 'act']))
  if k == 'c':
    return ['c', [draw(_metric_value()) for _ in range(n_metrics)]]
  return [k]


@st.composite
def _extra(draw, spec, n_metrics, rare_inf=False):
  """User-added trial: duplicate of an earlier suggestion or a member point."""
  if draw(st.booleans()):
    return ['dup', draw(st.integers(0, 20)), draw(_status(n_metrics, rare_inf))]
  return ['pt', draw(spaces.point_in(spec)), draw(_status(n_metrics, rare_inf))]


@st.composite
def _rounds(draw, spec, n_metrics, algo, max_rounds, max_count, allow_none,
            force_single, rare_inf=False):
  n = draw(st.integers(1, max_rounds))
  rounds = []
  for _ in range(n):
    if force_single:
      count = draw(st.sampled_from([1, 1, 1, None] if allow_none else [1]))
    else:
      opts = list(range(1, max_count + 1)) + ([None] if allow_none else [])
      count = draw(st.sampled_from(opts))
    rounds.append({
        'count': count,
        'fb': [draw(_status(n_metrics, rare_inf)) for _ in range(max_count)],
        'extra': draw(st.lists(_extra(spec, n_metrics, rare_inf), max_size=2)),
        'finish': draw(st.integers(0, 2)),
    })
  return rounds


@st.composite
def _session(draw, algos, entry, seeding=False, always_supported=False):
  algo = draw(st.sampled_from(list(algos)))
  fam = SERVICE_ALGOS.get(algo, algo)
  # random_sample.sample_parameters is a helper without a refusal contract:
  # only the flat spaces its callers use are generated for it.
  want_supported = always_supported or fam == 'random_sample' or draw(
      st.integers(0, 15 if fam in GP else (3 if fam in ('bocs', 'harmonica')
                                           else 7))) != 0
  # NSGA2 is documented to raise on trials without metrics (infeasible), so
  # those are kept rare for it: the session ends at the first refusal.
  rare_inf = fam == 'nsga2'
  spec = draw(_space_for(fam, want_supported))
  if want_supported and fam not in GP and fam not in ('bocs', 'harmonica',
                                                      'cmaes'):
    # INTEGER ranges whose bounds are not exactly representable in float32
    # (the default feature dtype): decoding must still land inside them
    ints = [p for p in spec['params'] if p['kind'] == 'INTEGER'
            and p.get('scale') in (None, 'LINEAR')]
    if ints and draw(st.integers(0, 5)) == 0:
      p = ints[0]
      lo = draw(st.sampled_from([100000000, 2 ** 31 - 9, -(2 ** 31) + 3,
                                 16777217, 2 ** 40 + 1]))
      p.update(lo=lo, hi=lo + draw(st.sampled_from([1, 5, 12])))
      p.pop('default', None)
      p['big_integer'] = True
  metrics = draw(_metrics(fam, want_supported))
  nm = len(metrics)
  opts = draw(_opts_for(fam)) if entry == 'designer' else {}
  force_single = fam in ('bocs', 'harmonica') and draw(st.integers(0, 5)) != 0
  # suggest(None) only where the signature accepts it (by construction)
  allow_none = entry == 'designer' and fam not in ('eagle', 'gp_bandit')
  if fam in GP:
    max_rounds, max_count, max_pre = 2, 3, 4
  else:
    max_rounds, max_count, max_pre = 4, 5, 14
  pre_list = st.lists(st.tuples(spaces.point_in(spec),
                                _status(nm, rare_inf)).map(list),
                      min_size=1 if fam in GP else 0, max_size=max_pre)
  # GP cases are expensive: most of them start with a history (GP fitted)
  pre = draw(st.one_of(pre_list, pre_list, pre_list, st.just([]))
             if fam in GP else st.one_of(st.just([]), pre_list))
  if seeding:  # empty study, one suggest call: centre + quasi-random seeds
    pre, max_rounds, max_count = [], 1, 5
  rounds = draw(_rounds(spec, nm, fam, max_rounds, max_count, allow_none,
                        force_single, rare_inf))
  if fam in ('grid', 'grid_shuffle') and not seeding and draw(st.booleans()):
    # a grid is only fully seen after many suggestions (the last point of an
    # axis comes late): one long final request, cheap for this designer
    rounds.append({'count': draw(st.integers(10, 24)),
                   'fb': [draw(_status(nm, rare_inf)) for _ in range(3)],
                   'extra': [], 'finish': 0})
  if seeding:
    return {'entry': entry, 'algo': algo, 'space': spec, 'metrics': metrics,
            'opts': opts, 'seed': draw(st.integers(0, 2 ** 16)), 'pre': pre,
            'rounds': rounds, 'seeding': True}
  return {'entry': entry, 'algo': algo, 'space': spec, 'metrics': metrics,
          'opts': opts, 'seed': draw(st.integers(0, 2 ** 16)), 'pre': pre,
          'rounds': rounds}


def designers_strategy():
  return _session(CHEAP, 'designer')


def slow_strategy():
  return _session(SLOW, 'designer')


def service_strategy():
  # 'predecessor': the same server process earlier hosted - and deleted - a
  # study of the same name and algorithm with a different search space
  return st.tuples(_session(SERVICE_CHEAP + ('NOT_REGISTERED',), 'service'),
                   st.sampled_from([False, False, True])).map(
                       lambda t: dict(t[0], predecessor=t[1]))


@st.composite
def _unsupported_bool_mix(draw):
  """BOCS / Harmonica on a space that mixes booleans with other kinds, with a
  history long enough to leave their random initial phase: the documented
  outcome is a refusal; an answer must at least be in-domain."""
  algo = draw(st.sampled_from(['harmonica', 'bocs']))
  spec = draw(spaces.flat_space(2, 4, kinds=('BOOL', 'BOOL', 'INTEGER',
                                             'CATEGORICAL', 'DOUBLE'),
                                defaults=False).filter(
      lambda sp: len({p['kind'] for p in sp['params']}) >= 2
      and any(p['kind'] == 'BOOL' for p in sp['params'])))
  if draw(st.booleans()):
    # the near miss: every other parameter is a two-valued CATEGORICAL (an
    # {adam, sgd} choice looks like a flag but is none)
    for k, p in enumerate(spec['params']):
      if p['kind'] != 'BOOL':
        spec['params'][k] = {'name': p['name'], 'kind': 'CATEGORICAL',
                             'values': draw(st.sampled_from(
                                 [['adam', 'sgd'], ['a', 'b'], ['no', 'yes']]))}
  metrics = draw(_metrics(algo, True))
  n_pre = draw(st.integers(3, 13))
  pre = [[draw(spaces.point_in(spec)), draw(_status(len(metrics)))]
         for _ in range(n_pre)]
  opts = draw(_opts_for(algo))
  rounds = draw(_rounds(spec, len(metrics), algo, 3, 1, False, True))
  return {'entry': 'designer', 'algo': algo, 'space': spec,
          'metrics': metrics, 'opts': opts,
          'seed': draw(st.integers(0, 2 ** 16)), 'pre': pre,
          'rounds': rounds, 'unsupported_bool_mix': True}


def bool_mix_strategy():
  return _unsupported_bool_mix()


def gp_seeding_strategy():
  return _session(GP + ('gp_ucb_pe',), 'designer', seeding=True)


# The gp family is stratified by algorithm (designer level with reduced or
# stock optimiser budgets : service level with stock settings = 3 : 2), so
# that every GP entry point is present in every sample.
GP_PLAN = {
    'quick': (('gp_bandit', 'designer', 3), ('gp_ucb_pe', 'designer', 3),
              ('DEFAULT', 'service', 1), ('GAUSSIAN_PROCESS_BANDIT', 'service',
                                          1),
              ('GP_UCB_PE', 'service', 1), ('ALGORITHM_UNSPECIFIED', 'service',
                                            1)),
    'thorough': (('gp_bandit', 'designer', 20), ('gp_ucb_pe', 'designer', 20),
                 ('DEFAULT', 'service', 7), ('GAUSSIAN_PROCESS_BANDIT',
                                             'service', 7),
                 ('GP_UCB_PE', 'service', 6), ('ALGORITHM_UNSPECIFIED',
                                               'service', 6)),
}


def _sample_cases(strategy, n, seed):
  """n cases drawn from `strategy` with a fixed seed (finite, reproducible).

  Hypothesis always starts with its minimal example; with one or two examples
  per worker every worker would run that same trivial case.  The expensive GP
  family therefore draws its whole (small) sample up front, drops the minimal
  example and deals the rest out to the workers (Family.enumerate).
  """
  import hypothesis
  from hypothesis import given, settings, HealthCheck, Phase
  cases = []

  @hypothesis.seed(seed)
  @settings(max_examples=n + 1, database=None, deadline=None,
            phases=[Phase.generate], suppress_health_check=list(HealthCheck))
  @given(strategy)
  def run(case):
    cases.append(case)
  run()
  return cases[1:n + 1]


def gp_cases(tier):
  import os
  cases = []
  for algo, entry, n in GP_PLAN[tier]:
    seed = core.derive_seed(os.environ.get('VERIF_SEED', '1'), ID, 'gp', tier,
                            algo)
    cases.append(_sample_cases(
        _session((algo,), entry, always_supported=True), n, seed))
  # interleave, so that a worker's slice (every k-th case) mixes algorithms
  out = []
  for i in range(max(len(c) for c in cases)):
    out += [c[i] for c in cases if i < len(c)]
  return out


@st.composite
def _defaults_case(draw):
  shape = draw(st.sampled_from(['flat', 'flat', 'cond', 'cond_defaults']))
  if shape == 'flat':
    spec = draw(st.one_of(spaces.flat_space(1, 5),
                          spaces.flat_space(1, 4, hostile_names=True),
                          spaces.flat_space(1, 3,
                                            scales=('LOG', 'REVERSE_LOG'))))
  else:
    spec = draw(spaces.conditional_space(max_depth=3))
    if shape == 'cond_defaults':
      # in-domain defaults on some parameters (children included)
      for p in oi.all_params(spec):
        if draw(st.booleans()):
          v = draw(spaces.value_in(p))
          if p['kind'] == 'BOOL':
            v = (v == 'True')
          p['default'] = v
  twist = draw(st.sampled_from(['none', 'none', 'none', 'extreme_bounds',
                                'bad_default']))
  if twist == 'extreme_bounds' and shape == 'flat':
    # DOUBLE ranges close to the limits of a double (default seeding uses no
    # numpy RNG, so the 1e150 cap of harness/spaces.py is not needed here)
    if not any(p['kind'] == 'DOUBLE' and p.get('scale') in (None, 'LINEAR')
               for p in spec['params']):
      # make sure the twist has something to act on
      spec['params'][0] = {'name': spec['params'][0]['name'],
                           'kind': 'DOUBLE', 'lo': 0.0, 'hi': 1.0,
                           'scale': draw(st.sampled_from([None, 'LINEAR']))}
    for p in spec['params']:
      if p['kind'] == 'DOUBLE' and p.get('scale') in (None, 'LINEAR'):
        lo, hi = draw(st.sampled_from([
            (-1e308, 1e308), (1e308, 1.7e308), (-1.7e308, -1e308),
            (-1.79e308, 1.79e308), (0.0, 1.79e308), (8e307, 9e307)]))
        p.update(lo=lo, hi=hi)
        p.pop('default', None)
  if twist == 'bad_default':
    # a default outside the domain of an INTEGER / DISCRETE / CATEGORICAL
    # parameter: the seeding must refuse it (or repair it), never suggest it
    for p in oi.all_params(spec):
      if p['kind'] == 'INTEGER':
        p['default'] = draw(st.sampled_from([p['lo'] - 1, p['hi'] + 1]))
        break
      if p['kind'] == 'DISCRETE':
        v = max(p['values'])
        near = v * (1 + 4e-13) if v else 4e-13
        # clearly outside, or a float within rounding error of a feasible
        # point (e.g. 0.1 + 0.2 for 0.3): not a member either
        p['default'] = draw(st.sampled_from([v + 1, near]))
        break
      if p['kind'] == 'CATEGORICAL':
        p['default'] = 'not-a-category'
        break
  via = draw(st.sampled_from(['function', 'decorator', 'policy']))
  extreme = twist == 'extreme_bounds'
  # with ranges near DBL_MAX only the seeding itself is exercised: numpy's own
  # rng.uniform raises on them, which is not a vizier property
  return {'space': spec, 'via': via,
          'count': 1 if extreme else draw(st.integers(1, 4)),
          'twist': twist,
          'seed': draw(st.integers(0, 2 ** 16)),
          'prior_trials': 0 if extreme else draw(
              st.sampled_from([0, 0, 0, 1, 3]))}


def defaults_strategy():
  return _defaults_case()


# ---------------------------------------------------------------------------
# judging
# ---------------------------------------------------------------------------
def _scale_tag(p):
  s = p.get('scale') if p else None
  return '' if s in (None, 'LINEAR') else '_' + s


def _judge(out, spec, algo, params, where, vz_space=None):
  """Judges one suggestion's ParameterDict; returns True if it is a member."""
  try:
    assignment = {k: v.value for k, v in params.items()}
  except Exception as e:  # not a ParameterDict of ParameterValues
    out.violate('malformed/%s' % algo, '%s: %r (%r)' % (where, params, e))
    return False
  rs = oi.judge_all(spec, assignment)
  if vz_space is not None:
    try:
      c = bool(vz_space.contains(params))
      if c != (not rs):
        out.cls('oracle_vs_contains_disagree')
        out.notes['contains'] = '%s contains=%r oracle=%r' % (where, c, rs[:1])
    except Exception:  # pylint: disable=broad-except
      out.cls('contains_raised')
  for why, p, text in rs:
    kind = p['kind'] if p else 'NA'
    tag = oi.range_tags(spec, p)
    out.violate('%s/%s/%s%s%s' % (why, algo, kind, _scale_tag(p), tag),
                '%s: %s | suggestion=%r' % (where, text, assignment))
  return not rs


def _exc_site(e):
  """Innermost vizier frame of an exception, for class names / details."""
  tb = traceback.extract_tb(e.__traceback__)
  site = ''
  for fr in tb:
    if '/vizier/' in fr.filename:
      site = '%s:%s' % (fr.filename.split('/vizier/')[-1], fr.name)
  return site


def _hist_classes(out, case):
  st_all = [s for _, s in case['pre']]
  for r in case['rounds']:
    n = r['count'] or 1
    st_all += r['fb'][:n]
    st_all += [e[2] for e in r['extra']]
    if any(e[0] == 'dup' for e in r['extra']):
      out.cls('hist_dup')
    if r['count'] is None:
      out.cls('count_none')
    elif r['count'] > 1:
      out.cls('batch_gt1')
  for s in st_all:
    if s[0] == 'inf':
      out.cls('hist_infeasible')
    elif s[0] == 'act':
      out.cls('hist_active')
    elif any(v in EXTREME for v in s[1]):
      out.cls('hist_extreme_metric')
  if case['pre']:
    out.cls('hist_prefed')


# ---------------------------------------------------------------------------
# level (i): designers
# ---------------------------------------------------------------------------
def _make_designer(algo, problem, opts, seed):
  from vizier import pyvizier as vz  # noqa: F401
  if algo == 'random':
    from vizier._src.algorithms.designers import random as m
    return m.RandomDesigner(problem.search_space, seed=seed)
  if algo == 'random_sample':
    return _RandomSampleDesigner(problem.search_space, seed)
  if algo == 'quasi_random':
    from vizier._src.algorithms.designers import quasi_random as m
    return m.QuasiRandomDesigner(problem.search_space, seed=seed,
                                 skip_points=opts.get('skip_points', 1000))
  if algo in ('grid', 'grid_shuffle'):
    from vizier._src.algorithms.designers import grid as m
    return m.GridSearchDesigner(
        problem.search_space, seed if algo == 'grid_shuffle' else None,
        double_grid_resolution=opts.get('resolution', 10))
  if algo == 'eagle':
    from vizier._src.algorithms.designers.eagle_strategy import eagle_strategy as m
    from vizier._src.algorithms.designers.eagle_strategy import eagle_strategy_utils as u
    cfg = None
    if opts.get('pool') is not None or opts.get('inf_force') or (
        opts.get('perturbation', 0.1) != 0.1):
      kw = {'infeasible_force_factor': opts.get('inf_force', 0.0),
            'perturbation': opts.get('perturbation', 0.1)}
      if opts.get('pool') is not None:
        kw['max_pool_size'] = opts['pool']
      cfg = u.FireflyAlgorithmConfig(**kw)
    return m.EagleStrategyDesigner(problem, config=cfg, seed=seed)
  if algo == 'nsga2':
    from vizier._src.algorithms.evolution import nsga2 as m
    return m.NSGA2Designer(
        problem, population_size=opts.get('population_size', 50),
        first_survival_after=opts.get('first_survival_after'), seed=seed)
  if algo == 'cmaes':
    from vizier._src.algorithms.designers import cmaes as m
    kw = {'seed': seed}
    if opts.get('pop_size'):
      kw['pop_size'] = opts['pop_size']
    return m.CMAESDesigner(problem, **kw)
  if algo == 'bocs':
    from vizier._src.algorithms.designers import bocs as m
    acq = (m.SimulatedAnnealing if opts.get('acq') == 'sa'
           else m.SemiDefiniteProgramming)
    return m.BOCSDesigner(problem, acquisition_optimizer_factory=acq,
                          num_initial_randoms=opts.get('num_initial_randoms',
                                                       10))
  if algo == 'harmonica':
    from vizier._src.algorithms.designers import harmonica as m
    return m.HarmonicaDesigner(
        problem, acquisition_samples=opts.get('acquisition_samples', 100),
        num_init_samples=opts.get('num_init_samples', 10))
  if algo in GP:
    import jax
    from vizier._src.algorithms.optimizers import eagle_strategy as es
    from vizier._src.algorithms.optimizers import vectorized_base as vb
    from vizier.jax import optimizers
    kw = {'rng': jax.random.PRNGKey(seed)}
    if not opts.get('stock'):
      kw['acquisition_optimizer_factory'] = vb.VectorizedOptimizerFactory(
          strategy_factory=es.VectorizedEagleStrategyFactory(),
          max_evaluations=500, suggestion_batch_size=25)
      kw['ard_optimizer'] = optimizers.default_optimizer(maxiter=5)
      kw['ard_random_restarts'] = 1
    if algo == 'gp_bandit':
      from vizier._src.algorithms.designers import gp_bandit as m
      return m.VizierGPBandit(problem, **kw)
    from vizier._src.algorithms.designers import gp_ucb_pe as m
    return m.VizierGPUCBPEBandit(problem, **kw)
  raise ValueError(algo)


class _RandomSampleDesigner:
  """random_sample.sample_parameters driven like a designer."""

  def __init__(self, search_space, seed):
    import numpy as np
    if search_space.is_conditional:
      # sample_parameters documents nothing for conditional spaces; it walks
      # search_space.parameters (top level), so a conditional space is judged
      # by the conditional oracle like any other answer.
      pass
    self._space = search_space
    self._rng = np.random.default_rng(seed)

  def update(self, completed, all_active):
    pass

  def suggest(self, count=None):
    from vizier import pyvizier as vz
    from vizier._src.algorithms.random import random_sample
    return [vz.TrialSuggestion(random_sample.sample_parameters(
        self._rng, self._space)) for _ in range(count or 1)]


def _apply_status(vz, trial, status, metric_names):
  if status[0] == 'c':
    trial.complete(vz.Measurement(
        metrics={n: v for n, v in zip(metric_names, status[1])}))
  elif status[0] == 'inf':
    trial.complete(vz.Measurement(), infeasibility_reason='harness')
  return trial


def _phase_classes(out, algo, opts, n_completed, designer, nparams):
  """Which algorithm phase the next suggest runs in (measurement only)."""
  if algo == 'nsga2':
    fsa = opts.get('first_survival_after') or 2 * opts.get(
        'population_size', 50)
    if n_completed >= fsa:
      out.cls('phase:nsga2_mutating')
  elif algo == 'cmaes':
    import math
    pop = opts.get('pop_size') or 4 + int(math.floor(3 * math.log(nparams)))
    if n_completed >= pop:
      out.cls('phase:cmaes_told')
  elif algo == 'bocs':
    if n_completed >= opts.get('num_initial_randoms', 10):
      out.cls('phase:bocs_model')
  elif algo == 'harmonica':
    if n_completed >= opts.get('num_init_samples', 10):
      out.cls('phase:harmonica_model')
  elif algo == 'eagle':
    pool = getattr(designer, '_firefly_pool', None)
    if pool is not None and pool.size >= pool.capacity:
      out.cls('phase:eagle_pool_full')
  elif algo in GP and n_completed >= 1:
    out.cls('phase:gp_fitted')


def check_designer_session(case):
  from vizier import algorithms as vza
  from vizier import pyvizier as vz
  out = core.Out()
  algo, spec, opts = case['algo'], case['space'], case['opts']
  metric_names = [m[0] for m in case['metrics']]
  counts = [r['count'] for r in case['rounds']]
  supported, why_not = _supported(algo, spec, len(metric_names), counts)
  out.cls('algo:' + algo, *spaces.classes_of(spec))
  out.cls('supported' if supported else 'unsupported:' + why_not)
  _hist_classes(out, case)
  problem = spaces.problem(spec, [tuple(m) for m in case['metrics']])
  vz_space = problem.search_space

  def refused(stage, e):
    if supported:
      out.cls('error_in_supported:%s:%s:%s' % (algo, stage, type(e).__name__))
      if algo in GP:  # few, expensive cases: keep the site in the evidence
        out.cls('error_site:%s:%s' % (algo, _exc_site(e)))
      out.notes['error'] = '%s %r at %s' % (stage, e, _exc_site(e))
    else:
      out.cls('refused_unsupported')

  if algo in ('bocs', 'harmonica'):
    import numpy as np
    np.random.seed(case['seed'])  # both draw from the global numpy RNG
  try:
    designer = _make_designer(algo, problem, opts, case['seed'])
  except Exception as e:  # pylint: disable=broad-except
    refused('init', e)
    return out

  trials = []  # all vz.Trial, ids 1..
  suggested = []  # parameter dicts of every suggestion so far
  newly_completed = []
  answered = 0
  answered_after_history = False
  n_completed = 0

  def new_trial(parameters=None, suggestion=None):
    if suggestion is not None:
      t = suggestion.to_trial(len(trials) + 1)
    else:
      t = vz.Trial(id=len(trials) + 1, parameters=parameters)
    trials.append(t)
    return t

  def settle(t, status):
    nonlocal n_completed
    _apply_status(vz, t, status, metric_names)
    if status[0] in ('c', 'inf'):
      newly_completed.append(t)
      n_completed += 1

  for point, status in case['pre']:
    settle(new_trial(point), status)

  for ri, rnd in enumerate(case['rounds']):
    active = [t for t in trials if t.status == vz.TrialStatus.ACTIVE]
    try:
      designer.update(vza.CompletedTrials(list(newly_completed)),
                      vza.ActiveTrials(active))
    except Exception as e:  # pylint: disable=broad-except
      refused('update', e)
      break
    had_history = n_completed > 0
    newly_completed = []
    _phase_classes(out, algo, opts, n_completed, designer,
                   len(spec['params']))
    try:
      if rnd['count'] is None:
        sugg = designer.suggest()
      else:
        sugg = designer.suggest(rnd['count'])
      sugg = list(sugg)
    except Exception as e:  # pylint: disable=broad-except
      refused('suggest', e)
      break
    if not supported:
      out.cls('unsupported_answered')
    for si, s in enumerate(sugg):
      ok = _judge(out, spec, algo, s.parameters,
                  'round %d suggestion %d' % (ri, si), vz_space)
      answered += 1
      if had_history:
        answered_after_history = True
      if not ok:
        continue
      suggested.append(dict(s.parameters.as_dict()))
      t = new_trial(suggestion=s)
      settle(t, rnd['fb'][si % len(rnd['fb'])])
    if out.violations:
      break
    for ex in rnd['extra']:
      if ex[0] == 'dup':
        if suggested:
          settle(new_trial(suggested[ex[1] % len(suggested)]), ex[2])
      else:
        settle(new_trial(ex[1]), ex[2])
    for t in [t for t in trials
              if t.status == vz.TrialStatus.ACTIVE][:rnd['finish']]:
      settle(t, ['c', [1.5] * len(metric_names)])

  if answered:
    out.cls('answered:' + algo)
  if answered_after_history:
    out.cls('answered_after_history')
  out.nontrivial = bool(answered and oi.interesting(spec) and
                        (algo in STATELESS or answered_after_history or
                         case.get('seeding')))
  return out


# ---------------------------------------------------------------------------
# level (ii): algorithm names through the service
# ---------------------------------------------------------------------------
def check_service_session(case):
  from harness import svc
  from vizier import pyvizier as vz
  from vizier._src.service import clients, vizier_client
  from vizier.service import pyvizier as svz
  import numpy as np
  import random as pyrandom
  out = core.Out()
  name, spec = case['algo'], case['space']
  fam = SERVICE_ALGOS.get(name)
  metric_names = [m[0] for m in case['metrics']]
  counts = [r['count'] for r in case['rounds']]
  if fam is None:
    supported, why_not = False, 'unregistered_name'
  else:
    supported, why_not = _supported(fam, spec, len(metric_names), counts)
  out.cls('algo:' + name, *spaces.classes_of(spec))
  out.cls('supported' if supported else 'unsupported:' + why_not)
  _hist_classes(out, case)
  np.random.seed(case['seed'])
  pyrandom.seed(case['seed'])

  sc = svz.StudyConfig(algorithm=name)
  spaces.build(spec, sc.search_space)
  for mname, goal in case['metrics']:
    sc.metric_information.append(vz.MetricInformation(
        mname, goal=getattr(vz.ObjectiveMetricGoal, goal)))
  vz_space = sc.search_space
  conditional = oi.is_conditional(spec)
  s = svc.make_servicer('ram')
  try:
    if case.get('predecessor'):
      out.cls('predecessor_study_same_name')
      old_sc = svz.StudyConfig(algorithm=name)
      old_sc.search_space.root.add_float_param('zz_old', 100.0, 200.0)
      old_sc.search_space.root.add_categorical_param('cc_old', ['p', 'q'])
      for mname, goal in case['metrics']:
        old_sc.metric_information.append(vz.MetricInformation(
            mname, goal=getattr(vz.ObjectiveMetricGoal, goal)))
      old_pb = svc.create_study(s, 'o', 'c03', config=old_sc)
      try:
        old_user = clients.Study(vizier_client.VizierClient(
            old_pb.name, 'user', s))
        for tc in old_user.suggest(count=2, client_id='old'):
          tc.complete(vz.Measurement(
              metrics={n: 1.0 for n in metric_names}))
        old_user.suggest(count=1, client_id='old')
      except Exception:  # pylint: disable=broad-except
        pass  # what the predecessor does is not judged
      s.DeleteStudy(svc.vsp.DeleteStudyRequest(name=old_pb.name))
    study_pb = svc.create_study(s, 'o', 'c03', config=sc)
    sname = study_pb.name

    user = clients.Study(vizier_client.VizierClient(sname, 'user', s))
    suggested = []
    answered = 0
    answered_after_history = False
    n_completed = 0
    seen_ids = set()

    def settle(tc, status):
      nonlocal n_completed
      if status[0] == 'c':
        tc.complete(vz.Measurement(
            metrics={n: v for n, v in zip(metric_names, status[1])}))
        n_completed += 1
      elif status[0] == 'inf':
        tc.complete(infeasible_reason='harness')
        n_completed += 1

    n_user = [0]

    def add_user_trial(point, status):
      if conditional:  # clients.Study.add_trial refuses conditional spaces
        out.cls('user_trial_skipped_conditional')
        return
      # CreateTrial stores a REQUESTED trial; a worker asking for one
      # suggestion is handed that trial (no algorithm involved) -> ACTIVE.
      tc = user.add_trial(vz.Trial(parameters=point))
      n_user[0] += 1
      got = list(user.suggest(count=1, client_id='u%d' % n_user[0]))
      if [g.id for g in got] != [tc.id]:
        raise RuntimeError('user trial %r was not handed out: %r' % (
            tc.id, [g.id for g in got]))
      seen_ids.add(tc.id)
      settle(got[0], status)

    for point, status in case['pre']:
      add_user_trial(point, status)

    for ri, rnd in enumerate(case['rounds']):
      had_history = n_completed > 0
      if fam in GP and had_history:
        out.cls('phase:gp_fitted')
      try:
        got = list(user.suggest(count=rnd['count'] or 1,
                                client_id='w%d' % ri))
      except Exception as e:  # pylint: disable=broad-except
        if supported:
          out.cls('error_in_supported:%s:suggest:%s' % (name,
                                                         type(e).__name__))
          out.notes['error'] = '%r' % (e,)
        else:
          out.cls('refused_unsupported')
        break  # the operation of this client may be left unfinished
      if not supported:
        out.cls('unsupported_answered')
      fresh = []
      for si, tc in enumerate(got):
        t = tc.materialize()
        if t.id in seen_ids:
          continue
        seen_ids.add(t.id)
        ok = _judge(out, spec, name, t.parameters,
                    'round %d trial %d' % (ri, t.id), vz_space)
        answered += 1
        if ri == 0 and si == 0 and not case['pre'] and name in SEEDED:
          out.cls('seeded_default_trial')
        if had_history:
          answered_after_history = True
        if ok:
          suggested.append(dict(t.parameters.as_dict()))
          fresh.append(tc)
      if out.violations:
        break
      for si, tc in enumerate(fresh):
        settle(tc, rnd['fb'][si % len(rnd['fb'])])
      for ex in rnd['extra']:
        if ex[0] == 'dup':
          if suggested:
            add_user_trial(suggested[ex[1] % len(suggested)], ex[2])
        else:
          add_user_trial(ex[1], ex[2])
      done = 0
      for t in user.trials().get():
        if done >= rnd['finish']:
          break
        if t.status == vz.TrialStatus.ACTIVE:
          settle(user.get_trial(t.id), ['c', [1.5] * len(metric_names)])
          done += 1
    if answered:
      out.cls('answered:' + name)
    if answered_after_history:
      out.cls('answered_after_history')
    out.nontrivial = bool(answered and oi.interesting(spec) and (
        fam in STATELESS or answered_after_history))
  finally:
    svc.close_servicer(s)
  return out


class _CaseTimeout(BaseException):
  pass


def check_session(case):
  """Runs one session under a wall-clock limit (a hang is not a C03 verdict)."""
  import signal
  fam = SERVICE_ALGOS.get(case['algo'], case['algo'])
  limit = 600 if fam in GP else 120

  def on_alarm(signum, frame):
    raise _CaseTimeout()
  old = signal.signal(signal.SIGALRM, on_alarm)
  signal.alarm(limit)
  try:
    if case['entry'] == 'service':
      return check_service_session(case)
    return check_designer_session(case)
  except _CaseTimeout:
    out = core.Out()
    out.inconclusive = True
    out.cls('timeout:' + case['algo'])
    return out
  finally:
    signal.alarm(0)
    signal.signal(signal.SIGALRM, old)


# ---------------------------------------------------------------------------
# level (iii): default / centre seeding
# ---------------------------------------------------------------------------
def check_defaults(case):
  from vizier import pythia
  from vizier import pyvizier as vz
  from vizier._src.algorithms.designers import random as random_designer
  from vizier._src.algorithms.policies import designer_policy as dp
  from vizier._src.pythia import local_policy_supporters as lps
  from vizier._src.pythia import suggest_default
  out = core.Out()
  spec, via = case['space'], case['via']
  cond = oi.is_conditional(spec)
  out.cls('via_' + via, 'conditional' if cond else 'flat',
          *spaces.classes_of(spec))
  if any(p.get('big_integer') for p in spec['params']):
    out.cls('integer_bounds_not_float32_exact')
  if any('default' in p for p in oi.all_params(spec)):
    out.cls('has_default')
  if case.get('twist') == 'extreme_bounds':
    out.cls('extreme_double_bounds')
  if case.get('twist') == 'bad_default':
    out.cls('out_of_domain_default')
  try:
    problem = spaces.problem(spec)
  except ValueError as e:
    if case.get('twist') == 'bad_default':
      out.cls('refused_at_build')  # a builder that validates defaults is fine
      return out
    raise
  space = problem.search_space
  answered = 0

  if via == 'function':
    try:
      params = suggest_default.get_default_parameters(space)
    except Exception as e:  # pylint: disable=broad-except
      out.cls('refused:%s' % type(e).__name__)
      out.notes['error'] = '%r at %s' % (e, _exc_site(e))
      return out
    _judge(out, spec, 'get_default_parameters', params, 'default', space)
    answered = 1
  else:
    supporter = lps.InRamPolicySupporter(problem)
    prior = case['prior_trials']
    if prior:
      # the study is not empty: the wrapped policy answers, not the seed
      import numpy as np
      from vizier._src.algorithms.random import random_sample
      rng = np.random.default_rng(case['seed'])
      if not cond:
        ts = [vz.Trial(parameters=random_sample.sample_parameters(rng, space))
              for _ in range(prior)]
        supporter.AddTrials(ts)
        out.cls('study_not_empty')
      else:
        prior = 0
    factory = lambda p: random_designer.RandomDesigner(  # noqa: E731
        p.search_space, seed=case['seed'])
    if via == 'policy':
      policy = dp.DesignerPolicy(supporter, factory, use_seeding=True)
    else:
      class _P(pythia.Policy):

        @pythia.seed_with_default
        def suggest(self, request):
          d = factory(request.study_config)
          return pythia.SuggestDecision(d.suggest(request.count))

        def early_stop(self, request):
          raise NotImplementedError()
      policy = _P()
    count = case['count']
    try:
      got = supporter.SuggestTrials(policy, count)
    except Exception as e:  # pylint: disable=broad-except
      # count>1 on a conditional space reaches RandomDesigner, which refuses
      if cond and count > 1:
        out.cls('refused_unsupported')
      else:
        out.cls('refused:%s' % type(e).__name__)
        out.notes['error'] = '%r at %s' % (e, _exc_site(e))
      return out
    for i, t in enumerate(got):
      _judge(out, spec, 'seed_with_default' if (i == 0 and not prior)
             else 'seed_with_default_rest', t.parameters,
             'trial %d of %d' % (i, count), space)
      answered += 1
    if not prior and got:
      out.cls('seed_trial_judged')
  if answered:
    out.cls('answered')
  out.nontrivial = bool(answered and (cond or oi.interesting(spec)))
  return out


# ---------------------------------------------------------------------------
def families(tier):
  req_cheap = tuple('answered:' + a for a in CHEAP) + (
      'phase:eagle_pool_full', 'phase:nsga2_mutating', 'hist_infeasible',
      'hist_dup', 'hist_active', 'hist_extreme_metric', 'count_none',
      'batch_gt1', 'refused_unsupported', 'scale_LOG', 'scale_REVERSE_LOG',
      'degenerate', 'integer_gt10', 'discrete_gt10', 'mixed_kinds',
      'answered_after_history')
  req_slow = tuple('answered:' + a for a in SLOW) + (
      'phase:cmaes_told', 'phase:bocs_model', 'phase:harmonica_model',
      'refused_unsupported', 'hist_infeasible')
  # CMA_ES and SHUFFLED_GRID_SEARCH always refuse at service level on the
  # pinned tree (the factory passes seed=None / an unknown kwarg); they are
  # covered at designer level only, see error_in_supported:* shares.
  req_service = tuple(
      'answered:' + a for a in SERVICE_CHEAP
      if a not in ('CMA_ES', 'SHUFFLED_GRID_SEARCH')) + (
          'refused_unsupported', 'seeded_default_trial',
          'answered_after_history', 'scale_LOG', 'degenerate', 'mixed_kinds')
  req_gp = tuple('answered:' + a for a in GP) + ('phase:gp_fitted',)
  return [
      core.Family('designers', check_session, strategy=designers_strategy,
                  budget={'quick': 2100, 'thorough': 32000},
                  shards={'quick': 8, 'thorough': 16},
                  required_classes=req_cheap),
      core.Family('slow_designers', check_session, strategy=slow_strategy,
                  budget={'quick': 150, 'thorough': 2000},
                  shards={'quick': 6, 'thorough': 16},
                  required_classes=req_slow),
      core.Family('bool_mix', check_session, strategy=bool_mix_strategy,
                  budget={'quick': 120, 'thorough': 1500},
                  shards={'quick': 4, 'thorough': 8}),
      core.Family('service', check_session, strategy=service_strategy,
                  budget={'quick': 450, 'thorough': 8000},
                  shards={'quick': 8, 'thorough': 16},
                  required_classes=req_service),
      core.Family('defaults', check_defaults, strategy=defaults_strategy,
                  budget={'quick': 800, 'thorough': 16000},
                  shards={'quick': 4, 'thorough': 8},
                  required_classes=('conditional', 'flat', 'via_function',
                                    'via_decorator', 'via_policy',
                                    'has_default', 'seed_trial_judged',
                                    'extreme_double_bounds',
                                    'out_of_domain_default',
                                    'scale_LOG', 'degenerate')),
      core.Family('gp_seeding', check_session, strategy=gp_seeding_strategy,
                  budget={'quick': 64, 'thorough': 1200},
                  shards={'quick': 4, 'thorough': 16},
                  required_classes=tuple('answered:' + a for a in GP) + (
                      'mixed_kinds', 'scale_LOG', 'batch_gt1')),
      core.Family('gp', check_session, enumerate=gp_cases,
                  shards={'quick': 10, 'thorough': 16},
                  required_classes=req_gp),
  ]
