"""C09 Study configs, trials and measurements survive the wire format unchanged.

Families (one per group of value types named in the quantifier)
  space        SearchSpace / ParameterConfig trees (depth <= 3, every kind, scale
               and external type, defaults incl. 0 / 0.0 / '' / 'False', lo==hi),
               built through the public builders or ParameterConfig.factory.
  metric       MetricInformation (goal, safety threshold / fraction incl. 0.0).
  measurement  Measurement (metric values incl. 0.0, +-inf, NaN, 1e+-300, names
               '' / unicode; elapsed seconds at microsecond granularity; steps).
  trial        Trial in each status (requested / active / stopping / completed /
               infeasible incl. reason '') and TrialSuggestion.
  study        StudyConfig and ProblemStatement.
  delta        MetadataDelta.
  pythia       SuggestRequest / SuggestDecision / EarlyStopRequest /
               EarlyStopDecisions.
  service      end to end: CreateStudy + GetStudy, CreateTrial + GetTrial /
               ListTrials on the RAM and SQL datastores.

Oracle clauses (bucket prefix)
  rt/        canon(from_proto(WIRE(to_proto(x)))) == canon(x), field by field;
             WIRE is a real SerializeToString/FromString round.  canon_* reads
             objects through public accessors (harness/c09_canon.py).
  eq/        vizier's own == on the types where it is total (only judged when
             rt/ is clean: it then shows a field canon does not read).
  idem/      to_proto(from_proto(to_proto(x))) is byte-identical to to_proto(x)
             (only judged when rt/ is clean, otherwise it repeats the rt loss).
  doc/       the message produced by to_proto carries what study.proto documents
             for the fields the case fixes (reference reading of the schema:
             bounds, feasible values, default presence+value, scale/external
             enums, (parent value, child) pairs at every depth, Duration and
             Timestamp normalisation, trial state).
  raise/     a converter raised on a valid value.
"""
import math
import os

from harness import core

ID = 'C09'
LEVEL = 'exploration'

# Known findings on the unchanged tree (see known_findings.d/C09.jsonl).  While
# a flag is True the generators rewrite that trigger out of every generated
# case (class `avoided_<trigger>` counts them) so that the search continues
# behind the defect; the pinned replays still exercise the trigger itself.
KNOWN_FALSY_DEFAULT_LOST = False        # default_value 0 / 0.0 / '' -> None
KNOWN_FRACTIONAL_SECS_LOST = False      # elapsed_secs 1.5 -> 1.0
KNOWN_DEPTH3_CHILDREN_LOST = False     # fixed by e56a6b4 (pinned regression)
KNOWN_INFEASIBLE_COMPLETION_LOST = False  # end_time ignored for INFEASIBLE
KNOWN_NO_PREDICTION_LOST = False        # predicted_final_measurement None -> {}


def avoid_set():
  env = os.environ.get('VERIF_C09_AVOID')
  if env is not None:  # experiments: '' = avoid nothing, or a comma list
    return frozenset(x for x in env.split(',') if x)
  flags = {'falsy_default': KNOWN_FALSY_DEFAULT_LOST,
           'fractional_secs': KNOWN_FRACTIONAL_SECS_LOST,
           'depth3': KNOWN_DEPTH3_CHILDREN_LOST,
           'infeasible_completion': KNOWN_INFEASIBLE_COMPLETION_LOST,
           'no_prediction': KNOWN_NO_PREDICTION_LOST}
  return frozenset(k for k, v in flags.items() if v)


TZ = 'CET-1CEST,M3.5.0,M10.5.0/3'  # POSIX rule, needs no tzdata

RULE = ('Hypothesis strategies per value type (harness/c09_gen.py), every case '
        'a JSON description that the check turns into vizier objects. '
        'non-trivial = the value has a falsy scalar in an optional slot '
        '(default 0/0.0/"", safety threshold or fraction 0.0, infeasibility '
        'reason "", endpoint ""), or a fractional time (elapsed seconds, '
        'creation/completion microseconds), or conditional depth >= 2, or a '
        'non-ASCII / separator character in a name, key or namespace. '
        'distinct = SHA-1 of the canonical JSON case. Triggers of known '
        'findings are rewritten out of generated cases (avoided_* classes).')
ASSUMPTIONS = [
    'values with no wire representation are not generated: ScaleType.'
    'UNIFORM_DISCRETE, FidelityConfig, MetricInformation.min_value/max_value/'
    'safety_std_threshold, CUSTOM parameters, desired_min_safe_trials_fraction '
    'without a safety threshold',
    'proto3 fields without presence make None and the empty value the same '
    'wire value: Trial.description, Trial.assigned_worker, checkpoint_dir '
    '(None == ""), EarlyStopRequest.trial_ids (None == empty), an empty '
    'per-trial Metadata in a MetadataDelta (== absent); a raw proto message '
    'stored as a metadata value equals the Any that packs it',
    'deliberate normalisations applied to both sides: metric collections are '
    'name->info maps (StudyConfig.from_proto sorts them), parameter order is '
    'not compared, pythia_endpoint is carried as a metadata entry, '
    'EarlyStopRequest.trial_ids is a set (order of the repeated field ignored)',
    'trial parameter integers are drawn from +-2**53 (the wire type is a '
    'double), elapsed seconds <= 1e9, datetimes in 1971..2100 (tz-aware)',
    'the trial and service families run with TZ=%s (local time with an '
    'offset and DST transitions)' % TZ,
    'trials are generated status-consistently (is_requested only for '
    'REQUESTED, completion time only for completed/infeasible trials)',
]


def _setup_tz():
  """Trial times go through naive local datetimes inside the converters: run
  the time-carrying families in a zone with an offset and DST transitions."""
  import time
  os.environ['TZ'] = TZ
  time.tzset()


def _site(e):
  """Innermost vizier frame of an exception -> 'file.py:function'."""
  import traceback
  site = 'unknown'
  for fs in traceback.extract_tb(e.__traceback__):
    if '/vizier/' in fs.filename:
      site = '%s:%s' % (os.path.basename(fs.filename), fs.name)
  return '%s@%s' % (type(e).__name__, site)


def _falsy(v):
  return v is not None and not isinstance(v, bool) and v in (0, 0.0, '')


def _trigger(path, kind, a, b, ctx):
  """Names the specific known trigger a difference corresponds to (or '')."""
  leaf = path.rsplit('.', 1)[-1]
  if leaf == 'default' and _falsy(a) and b is None:
    return 'falsy_lost'
  if leaf == 'elapsed' and isinstance(a, float) and isinstance(b, float) and (
      a != math.floor(a) and b == math.floor(a)):
    return 'fraction_dropped'
  if leaf == 'completed_us' and ctx.get('status') == 'INFEASIBLE':
    return 'infeasible_end_time'
  if leaf == 'predicted' and a is None and isinstance(b, dict):
    return 'none_became_measurement'
  return ''


def _scribble(msg, depth=0):
  """Edits every field of a message in place (values changed, unset fields
  set, repeated fields extended): a converted object that still shares state
  with the message it was made from changes with it."""
  from google.protobuf import descriptor as d
  for f in msg.DESCRIPTOR.fields:
    try:
      repeated = getattr(f, 'is_repeated', None)
      if repeated is None:  # older protobuf runtimes
        repeated = f.label == d.FieldDescriptor.LABEL_REPEATED
      if repeated:
        cur = getattr(msg, f.name)
        if f.message_type is not None and f.message_type.GetOptions().map_entry:
          continue
        if f.type == d.FieldDescriptor.TYPE_MESSAGE:
          for sub in list(cur)[:3]:
            if depth < 2:
              _scribble(sub, depth + 1)
          cur.add()
        elif f.type == d.FieldDescriptor.TYPE_STRING:
          cur.append('~scribble')
        elif f.type == d.FieldDescriptor.TYPE_BYTES:
          cur.append(b'~')
        elif f.type == d.FieldDescriptor.TYPE_BOOL:
          cur.append(True)
        elif f.type == d.FieldDescriptor.TYPE_ENUM:
          cur.append(f.enum_type.values[-1].number)
        else:
          cur.append(7)
      elif f.type == d.FieldDescriptor.TYPE_MESSAGE:
        sub = getattr(msg, f.name)
        sub.SetInParent()
        if depth < 2:
          _scribble(sub, depth + 1)
      elif f.type == d.FieldDescriptor.TYPE_STRING:
        setattr(msg, f.name, getattr(msg, f.name) + '~scribble')
      elif f.type == d.FieldDescriptor.TYPE_BYTES:
        setattr(msg, f.name, getattr(msg, f.name) + b'~')
      elif f.type == d.FieldDescriptor.TYPE_BOOL:
        setattr(msg, f.name, not getattr(msg, f.name))
      elif f.type == d.FieldDescriptor.TYPE_ENUM:
        others = [v.number for v in f.enum_type.values
                  if v.number != getattr(msg, f.name)]
        if others:
          setattr(msg, f.name, others[-1])
      elif f.type in (d.FieldDescriptor.TYPE_DOUBLE,
                      d.FieldDescriptor.TYPE_FLOAT):
        setattr(msg, f.name, getattr(msg, f.name) + 1.5)
      else:
        setattr(msg, f.name, getattr(msg, f.name) + 1)
    except Exception:  # pylint: disable=broad-except
      pass  # a field that cannot be edited this way is left alone


class _Judge:
  """Applies the rt/ eq/ idem/ raise/ clauses for one value."""

  def __init__(self, out, tag, ctx=None):
    self.out = out
    self.tag = tag
    self.ctx = ctx or {}

  def run(self, x, to_proto, from_proto, canon, wire, eq=False):
    """Returns (proto, roundtripped object) or (None, None)."""
    from harness import c09_canon as cn
    out, tag = self.out, self.tag
    try:
      p1 = to_proto(x)
    except Exception as e:  # pylint: disable=broad-except
      out.violate('raise/%s/to_proto/%s' % (tag, _site(e)), repr(e))
      return None, None
    try:
      received = wire(p1)
      y = from_proto(received)
    except Exception as e:  # pylint: disable=broad-except
      out.violate('raise/%s/from_proto/%s' % (tag, _site(e)), repr(e))
      return p1, None
    # the receiver goes on using its message (a template it edits and sends
    # again): the converted object must not change with it
    for m in (received if isinstance(received, (list, tuple)) else [received]):
      if hasattr(m, 'DESCRIPTOR'):
        before = m.SerializeToString(deterministic=True)
        _scribble(m)
        if m.DESCRIPTOR.fields and m.SerializeToString(
            deterministic=True) == before:
          raise RuntimeError('harness: scribbling left %s unchanged' %
                             m.DESCRIPTOR.full_name)
    diffs = cn.diff(canon(x), canon(y))
    seen = set()
    for path, kind, detail, a, b in diffs:
      trig = _trigger(path, kind, a, b, self.ctx)
      bucket = 'rt/%s.%s/%s' % (tag, path, kind) + ('/' + trig if trig else '')
      if bucket not in seen:
        seen.add(bucket)
        out.violate(bucket, detail)
    if diffs:
      return p1, y
    if eq and not x == y:
      out.violate('eq/%s' % tag, 'canon equal but %r != %r' % (x, y))
    try:
      p2 = to_proto(y)
    except Exception as e:  # pylint: disable=broad-except
      out.violate('raise/%s/second_to_proto/%s' % (tag, _site(e)), repr(e))
      return p1, y
    a, b = self._norm(p1), self._norm(p2)
    if isinstance(a, list):
      same = len(a) == len(b) and all(
          cn.same_message(m, n) for m, n in zip(a, b))
      where = 'list'
      if not same and len(a) == len(b):
        where = next(cn.proto_diff_path(m, n) for m, n in zip(a, b)
                     if not cn.same_message(m, n))
    else:
      same = cn.same_message(a, b)
      where = None if same else cn.proto_diff_path(a, b)
    if not same:
      out.violate('idem/%s/%s' % (tag, where),
                  'second conversion differs at %s:\n%s\n--- vs ---\n%s' % (
                      where, str(p1)[:500], str(p2)[:500]))
    return p1, y

  def _norm(self, p):
    """StudySpec: from_proto sorts the metrics by name on purpose.

    EarlyStopRequest.trial_ids is a frozenset on the python side: the order of
    the repeated field is the set's iteration order and carries no meaning.
    """
    name = type(p).__name__
    if name == 'StudySpec':
      q = type(p)()
      q.CopyFrom(p)
      ms = sorted(q.metrics, key=lambda m: m.metric_id)
      del q.metrics[:]
      q.metrics.extend(ms)
      return q
    if name == 'EarlyStopRequest':
      q = type(p)()
      q.CopyFrom(p)
      ids = sorted(q.trial_ids)
      del q.trial_ids[:]
      q.trial_ids.extend(ids)
      return q
    return p


# ---------------------------------------------------------------------------
# feature scanning for the non-triviality rule / classes
# ---------------------------------------------------------------------------
def _space_features(spec, feats):
  from harness import c09_gen as gen
  d = gen.space_depth(spec['params'])
  if d >= 2:
    feats.add('depth>=2')
  if d >= 3:
    feats.add('depth3')
  feats.add('via_' + spec.get('via', 'builder'))
  for p, _ in gen.walk_params(spec['params']):
    feats.add('kind_' + p['kind'])
    if gen.hostile_text(p['name']):
      feats.add('hostile_name')
    if 'default' in p:
      feats.add('has_default')
      if gen.is_falsy_default(p['default']):
        feats.add('falsy_default')
      if p['default'] in ('False', False):
        feats.add('default_False')
    if p.get('scale') in ('LOG', 'REVERSE_LOG'):
      feats.add('scale_nonlinear')
    if p.get('ext') not in (None, 'INTERNAL') or p['kind'] == 'BOOL':
      feats.add('external_type')
    if p['kind'] in ('DOUBLE', 'INTEGER') and p['lo'] == p['hi']:
      feats.add('min==max')
    for g in p.get('children', ()):
      if len(g['parent_values']) > 1:
        feats.add('multi_parent_values')


def _metric_features(m, feats):
  from harness import c09_gen as gen
  if gen.hostile_text(m['name']):
    feats.add('hostile_name')
  if m['name'] == '':
    feats.add('empty_metric_name')
  if m['safety'] is not None:
    feats.add('safety_metric')
    if m['safety'] == 0.0:
      feats.add('falsy_safety_threshold')
  if m['fraction'] is not None:
    feats.add('has_fraction')
    if m['fraction'] == 0.0:
      feats.add('falsy_fraction')


def _meas_features(m, feats):
  from harness import c09_gen as gen
  if m is None:
    return
  if m['elapsed'] != math.floor(m['elapsed']):
    feats.add('fractional_secs')
  for name, value, std in m['metrics']:
    if gen.hostile_text(name):
      feats.add('hostile_name')
    if name == '':
      feats.add('empty_metric_name')
    if value == 0.0:
      feats.add('metric_0.0')
    if isinstance(value, float) and not math.isfinite(value):
      feats.add('metric_nonfinite')
    if std is not None:
      feats.add('metric_std')
  if m['ckpt']:
    feats.add('checkpoint_path')


def _md_features(items, feats):
  from harness import c09_gen as gen
  for ns, key, v in items:
    feats.add('md_' + v[0])
    if any(gen.hostile_text(c) or c == '' for c in ns) or gen.hostile_text(key):
      feats.add('hostile_name')
    if v[0] == 's' and v[1] == '':
      feats.add('md_empty_string')


NT = ('falsy_default', 'falsy_safety_threshold', 'falsy_fraction',
      'fractional_secs', 'fractional_time', 'depth>=2', 'hostile_name',
      'infeasible_reason_empty', 'endpoint_empty')


def _finish(out, feats, case):
  for a in case.get('avoided', ()):
    out.cls('avoided_' + a)
  out.cls(*sorted(feats))
  out.nontrivial = any(f in feats for f in NT)
  return out


def _ser(msg):
  from harness import c09_canon as cn
  return cn.wire(msg)


# ---------------------------------------------------------------------------
# doc/ clauses: what study.proto documents for the produced message
# ---------------------------------------------------------------------------
_SCALE = {None: 'SCALE_TYPE_UNSPECIFIED', 'LINEAR': 'UNIT_LINEAR_SCALE',
          'LOG': 'UNIT_LOG_SCALE', 'REVERSE_LOG': 'UNIT_REVERSE_LOG_SCALE'}


def _doc_param(out, p, pc, proto, depth=1):
  """p: spec, pc: the vizier ParameterConfig built from it, proto: its message."""
  from harness.c09_canon import _pkey
  lvl = 'depth%d' % min(depth, 3)

  def bad(what, detail):
    out.violate('doc/param/%s/%s' % (what, lvl), '%s: %s' % (p['name'], detail))
  if proto.parameter_id != p['name']:
    bad('parameter_id', proto.parameter_id)
  k = p['kind']
  which = proto.WhichOneof('parameter_value_spec')
  want = {'DOUBLE': 'double_value_spec', 'INTEGER': 'integer_value_spec',
          'DISCRETE': 'discrete_value_spec', 'CATEGORICAL':
          'categorical_value_spec', 'BOOL': 'categorical_value_spec'}[k]
  if which != want:
    bad('value_spec_kind', '%s for %s' % (which, k))
    return
  vs = getattr(proto, which)
  if k in ('DOUBLE', 'INTEGER'):
    if (vs.min_value, vs.max_value) != (p['lo'], p['hi']):
      bad('bounds', '(%r,%r) for (%r,%r)' % (vs.min_value, vs.max_value,
                                             p['lo'], p['hi']))
  else:
    vals = ['False', 'True'] if k == 'BOOL' else sorted(p['values'])
    if list(vs.values) != vals:
      bad('values', '%r for %r' % (list(vs.values), vals))
  if 'default' in p:
    d = p['default']
    if k == 'BOOL':
      d = 'True' if d else 'False'
    if not vs.HasField('default_value'):
      bad('default_unset', 'default %r not on the wire' % (d,))
    elif vs.default_value.value != d:
      bad('default_value', '%r for %r' % (vs.default_value.value, d))
  elif vs.HasField('default_value'):
    bad('default_spurious', repr(vs.default_value.value))
  sc = pc.scale_type.name if pc.scale_type is not None else None
  if type(proto).ScaleType.Name(proto.scale_type) != _SCALE[sc]:
    bad('scale_type', '%s for %s' % (proto.scale_type, sc))
  ext = pc.external_type.name if pc.external_type is not None else 'INTERNAL'
  if type(proto).ExternalType.Name(proto.external_type) != 'AS_' + ext:
    bad('external_type', '%s for %s' % (proto.external_type, ext))
  # (parent value, child) pairs
  want_pairs = {}
  for g in p.get('children', ()):
    for v in g['parent_values']:
      if k == 'BOOL':
        v = 'True' if v else 'False'
      for c in g['params']:
        want_pairs[(_pkey(v), c['name'])] = (v, c)
  got_pairs = {}
  for cps in proto.conditional_parameter_specs:
    cond = cps.WhichOneof('parent_value_condition')
    want_cond = {'INTEGER': 'parent_int_values', 'DISCRETE':
                 'parent_discrete_values'}.get(k, 'parent_categorical_values')
    if cond != want_cond:
      bad('parent_condition_kind', '%s for %s' % (cond, k))
      continue
    for v in getattr(cps, cond).values:
      got_pairs[(_pkey(v), cps.parameter_spec.parameter_id)] = cps.parameter_spec
  if set(want_pairs) != set(got_pairs):
    out.violate('doc/param/children/depth%d' % min(depth + 1, 3),
                'under %r: want %r got %r' % (p['name'], sorted(want_pairs),
                                              sorted(got_pairs)))
  for key, (v, c) in want_pairs.items():
    if key in got_pairs:
      sub = [q for q in pc.subspace(v).parameters if q.name == c['name']]
      if sub:
        _doc_param(out, c, sub[0], got_pairs[key], depth + 1)


def _doc_duration(out, what, d, secs):
  if not 0 <= d.nanos < 10 ** 9:
    out.violate('doc/%s/nanos_range' % what, str(d.nanos))
  if abs((d.seconds + d.nanos * 1e-9) - secs) >= 0.5e-6:
    out.violate('doc/%s/value' % what, '%r s %r ns for %r' % (
        d.seconds, d.nanos, secs))


def _doc_meas(out, m, proto, what='measurement'):
  _doc_duration(out, what + '.elapsed_duration', proto.elapsed_duration,
                m['elapsed'])
  if proto.step_count != m['steps']:
    out.violate('doc/%s/step_count' % what, '%r for %r' % (proto.step_count,
                                                           m['steps']))
  got = [(x.metric_id, x.value) for x in proto.metrics]
  want = [(n, v) for n, v, _ in m['metrics']]
  if repr(sorted(got)) != repr(sorted(want)):
    out.violate('doc/%s/metrics' % what, '%r for %r' % (got, want))


def _doc_timestamp(out, what, present, ts, us):
  if us is None:
    if present:
      out.violate('doc/%s/spurious' % what, str(ts))
    return
  if not present:
    out.violate('doc/%s/unset' % what, 'want %r us' % us)
    return
  if not 0 <= ts.nanos < 10 ** 9:
    out.violate('doc/%s/nanos_range' % what, str(ts.nanos))
  got_us = ts.seconds * 10 ** 6 + ts.nanos / 1000.0
  if abs(got_us - us) >= 0.5:
    out.violate('doc/%s/value' % what, '%r us for %r us' % (got_us, us))


# ---------------------------------------------------------------------------
# space
# ---------------------------------------------------------------------------
def check_space(case):
  from harness import c09_gen as gen, c09_canon as cn
  from vizier._src.pyvizier.oss import proto_converters as pcv
  from vizier._src.service import study_pb2
  out = core.Out()
  spec = case['v']
  feats = set()
  _space_features(spec, feats)
  space = gen.build_space(spec)
  # whole space through SearchSpaceConverter (the StudySpec.parameters field)
  j = _Judge(out, 'space')
  protos, _ = j.run(
      space,
      lambda s: study_pb2.StudySpec(
          parameters=pcv.SearchSpaceConverter.parameter_protos(s)),
      pcv.SearchSpaceConverter.from_proto, cn.canon_space, _ser, eq=True)
  # every root parameter through ParameterConfigConverter
  for p in spec['params']:
    pc = space.get(p['name'])
    jp = _Judge(out, 'pconfig')
    proto, _ = jp.run(pc, pcv.ParameterConfigConverter.to_proto,
                      pcv.ParameterConfigConverter.from_proto, cn.canon_pc,
                      _ser, eq=True)
    if proto is not None:
      _doc_param(out, p, pc, proto)
  return _finish(out, feats, case)


def space_strategy():
  from harness import c09_gen as gen
  return gen.wrapped(gen.space_spec(), gen.avoid_space, avoid_set())


# ---------------------------------------------------------------------------
# metric
# ---------------------------------------------------------------------------
def check_metric(case):
  from harness import c09_gen as gen, c09_canon as cn
  from vizier._src.pyvizier.oss import proto_converters as pcv
  out = core.Out()
  m = case['v']
  feats = set()
  _metric_features(m, feats)
  mi = gen.build_metric(m)
  proto, _ = _Judge(out, 'metric').run(
      mi, pcv.MetricInformationConverter.to_proto,
      pcv.MetricInformationConverter.from_proto, cn.canon_metric, _ser,
      eq=True)
  if proto is not None:
    if proto.metric_id != m['name']:
      out.violate('doc/metric/metric_id', proto.metric_id)
    if type(proto).GoalType.Name(proto.goal) != m['goal']:
      out.violate('doc/metric/goal', str(proto.goal))
    if proto.HasField('safety_config') != (m['safety'] is not None):
      out.violate('doc/metric/safety_config_presence', str(proto))
    elif m['safety'] is not None:
      sc = proto.safety_config
      if repr(sc.safety_threshold) != repr(float(m['safety'])):
        out.violate('doc/metric/safety_threshold', str(proto))
      if sc.HasField('desired_min_safe_trials_fraction') != (
          m['fraction'] is not None):
        out.violate('doc/metric/fraction_presence', str(proto))
      elif m['fraction'] is not None and (
          sc.desired_min_safe_trials_fraction != m['fraction']):
        out.violate('doc/metric/fraction_value', str(proto))
  return _finish(out, feats, case)


def metric_strategy():
  from harness import c09_gen as gen
  return gen.wrapped(gen.metric_spec(), lambda c, a, d: c, avoid_set())


# ---------------------------------------------------------------------------
# measurement
# ---------------------------------------------------------------------------
def _plain_meas(m):
  return (m['ckpt'] == '' and all(std is None and v == v
                                  for _, v, std in m['metrics']))


def check_measurement(case):
  from harness import c09_gen as gen, c09_canon as cn
  from vizier._src.pyvizier.oss import proto_converters as pcv
  out = core.Out()
  m = case['v']
  feats = set()
  _meas_features(m, feats)
  x = gen.build_meas(m)
  proto, _ = _Judge(out, 'measurement').run(
      x, pcv.MeasurementConverter.to_proto, pcv.MeasurementConverter.from_proto,
      cn.canon_meas, _ser,
      eq=_plain_meas(m) and m['elapsed'] == math.floor(m['elapsed']))
  if proto is not None:
    _doc_meas(out, m, proto)
  return _finish(out, feats, case)


def measurement_strategy():
  from harness import c09_gen as gen
  return gen.wrapped(gen.meas_spec(4), gen.avoid_meas, avoid_set())


# ---------------------------------------------------------------------------
# trial / suggestion
# ---------------------------------------------------------------------------
_STATE = {'REQUESTED': 'REQUESTED', 'ACTIVE': 'ACTIVE', 'STOPPING': 'STOPPING',
          'COMPLETED': 'SUCCEEDED', 'INFEASIBLE': 'INFEASIBLE'}


def _trial_features(t, feats):
  from harness import c09_gen as gen
  feats.add('status_' + t['status'])
  for name, v in t['params']:
    if gen.hostile_text(name):
      feats.add('hostile_name')
    if not isinstance(v, bool) and v in (0, 0.0, ''):
      feats.add('falsy_param_value')
    if isinstance(v, bool):
      feats.add('bool_param_value')
  _md_features(t['md'], feats)
  _meas_features(t['final'], feats)
  for m in t['measurements']:
    _meas_features(m, feats)
  if t['infeasible_reason'] == '':
    feats.add('infeasible_reason_empty')
  for k in ('created_us', 'completed_us'):
    if t[k] is not None and t[k] % 10 ** 6:
      feats.add('fractional_time')
  if t['completed_us'] is not None:
    feats.add('explicit_completion_time')
  if t['created_us'] is None:
    feats.add('no_creation_time')
  if t['links']:
    feats.add('related_links')
  if t['stop_reason'] is not None and t['status'] != 'STOPPING':
    feats.add('stale_stopping_reason')


def check_trial(case):
  from harness import c09_gen as gen, c09_canon as cn
  from vizier._src.pyvizier.oss import proto_converters as pcv
  out = core.Out()
  v = case['v']
  feats = set()
  if v['kind'] == 'suggestion':
    feats.add('suggestion')
    s = v['suggestion']
    _md_features(s['md'], feats)
    for name, val in s['params']:
      if gen.hostile_text(name):
        feats.add('hostile_name')
      if not isinstance(val, bool) and val in (0, 0.0, ''):
        feats.add('falsy_param_value')
    x = gen.build_suggestion(s)
    _Judge(out, 'suggestion').run(
        x, pcv.TrialSuggestionConverter.to_proto,
        pcv.TrialSuggestionConverter.from_proto, cn.canon_suggestion, _ser)
    return _finish(out, feats, case)
  t = v['trial']
  feats.add('trial')
  _trial_features(t, feats)
  x = gen.build_trial(t)
  if x.status.name != ('COMPLETED' if t['status'] == 'INFEASIBLE'
                       else t['status']):
    raise AssertionError('generator: status %s for %s' % (x.status, t['status']))
  proto, _ = _Judge(out, 'trial', ctx={'status': t['status']}).run(
      x, pcv.TrialConverter.to_proto, pcv.TrialConverter.from_proto,
      cn.canon_trial, _ser)
  if proto is not None:
    if proto.id != str(t['id']):
      out.violate('doc/trial/id', proto.id)
    if type(proto).State.Name(proto.state) != _STATE[t['status']]:
      out.violate('doc/trial/state', '%s for %s' % (proto.state, t['status']))
    _doc_timestamp(out, 'trial.start_time', proto.HasField('start_time'),
                   proto.start_time, t['created_us'])
    want_end = gen.to_us(x.completion_time)
    _doc_timestamp(out, 'trial.end_time', proto.HasField('end_time'),
                   proto.end_time, want_end)
    if (t['final'] is not None) != proto.HasField('final_measurement'):
      out.violate('doc/trial/final_measurement_presence', str(proto)[:300])
    elif t['final'] is not None:
      _doc_meas(out, t['final'], proto.final_measurement,
                'trial.final_measurement')
    if len(proto.measurements) != len(t['measurements']):
      out.violate('doc/trial/measurements_len', str(len(proto.measurements)))
    else:
      for m, pm in zip(t['measurements'], proto.measurements):
        _doc_meas(out, m, pm, 'trial.measurements')
    if t['status'] == 'INFEASIBLE' and (
        proto.infeasible_reason != t['infeasible_reason']):
      out.violate('doc/trial/infeasible_reason', proto.infeasible_reason)
    got = {}
    for p in proto.parameters:
      kind = p.value.WhichOneof('kind')
      got[p.parameter_id] = getattr(p.value, kind) if kind else None
    want = {k: val for k, val in t['params']}
    if set(got) != set(want) or any(
        isinstance(want[k], str) != isinstance(got[k], str)
        or want[k] != got[k] for k in want):
      out.violate('doc/trial/parameters', '%r for %r' % (got, want))
  return _finish(out, feats, case)


def trial_strategy():
  from hypothesis import strategies as st
  from harness import c09_gen as gen

  def avoid(v, a, d):
    if v['kind'] == 'trial':
      gen.avoid_trial(v['trial'], a, d)
    return v
  s = st.one_of(
      st.fixed_dictionaries({'kind': st.just('trial'),
                             'trial': gen.trial_spec()}),
      st.fixed_dictionaries({'kind': st.just('trial'),
                             'trial': gen.trial_spec()}),
      st.fixed_dictionaries({'kind': st.just('trial'),
                             'trial': gen.trial_spec()}),
      st.fixed_dictionaries({'kind': st.just('suggestion'),
                             'suggestion': gen.suggestion_spec()}))
  return gen.wrapped(s, avoid, avoid_set())


# ---------------------------------------------------------------------------
# study config / problem statement
# ---------------------------------------------------------------------------
def check_study(case):
  from harness import c09_gen as gen, c09_canon as cn
  from vizier._src.pyvizier.oss import proto_converters as pcv
  from vizier.service import pyvizier as svz
  out = core.Out()
  v = case['v']
  c = v['config']
  feats = set()
  _space_features(c['space'], feats)
  for m in c['metrics']:
    _metric_features(m, feats)
  _md_features(c['md'], feats)
  names = [m['name'] for m in c['metrics']]
  if names != sorted(names):
    feats.add('metrics_unsorted')
  if len(names) >= 2:
    feats.add('multi_metric')
  if v['kind'] == 'problem':
    feats.add('problem_statement')
    x = gen.build_problem(c)
    _Judge(out, 'problem').run(
        x, pcv.ProblemStatementConverter.to_proto,
        pcv.ProblemStatementConverter.from_proto, cn.canon_problem, _ser)
    return _finish(out, feats, case)
  feats.add('study_config')
  if c['endpoint'] is not None:
    feats.add('endpoint')
    if c['endpoint'] == '':
      feats.add('endpoint_empty')
  if c['stopping']:
    feats.add('stopping_config')
  if c['algorithm'] == '':
    feats.add('algorithm_empty')
  x = gen.build_study_config(c)
  proto, back = _Judge(out, 'study_config').run(
      x, lambda s: s.to_proto(), svz.StudyConfig.from_proto,
      cn.canon_study_config, _ser)
  if back is not None and not out.violations:
    # a config that came off the wire is edited and sent again (the client
    # library re-targets the Pythia endpoint, changes the algorithm, ...): the
    # message carries the edited fields
    feats.add('edited_after_from_proto')
    try:
      back.pythia_endpoint = 'changed.example:1'
      back.algorithm = 'RANDOM_SEARCH'
      again = svz.StudyConfig.from_proto(_ser(back.to_proto()))
      if again.pythia_endpoint != 'changed.example:1':
        out.violate('edit/study_config/pythia_endpoint',
                    'set to changed.example:1 after from_proto (was %r); the '
                    'next conversion carries %r' % (c['endpoint'],
                                                    again.pythia_endpoint))
      if again.algorithm != 'RANDOM_SEARCH':
        out.violate('edit/study_config/algorithm', repr(again.algorithm))
    except Exception as e:  # pylint: disable=broad-except
      out.violate('raise/study_config/edit_after_from_proto/%s' % _site(e),
                  repr(e))
  if proto is not None:
    if proto.algorithm != c['algorithm']:
      out.violate('doc/study_config/algorithm', proto.algorithm)
    if type(proto).ObservationNoise.Name(proto.observation_noise) != c['noise']:
      out.violate('doc/study_config/observation_noise', str(proto.observation_noise))
    if proto.HasField('default_stopping_spec') != c['stopping']:
      out.violate('doc/study_config/default_stopping_spec', '')
    if sorted(m.metric_id for m in proto.metrics) != sorted(names):
      out.violate('doc/study_config/metrics', str(proto.metrics))
  return _finish(out, feats, case)


def study_strategy():
  from hypothesis import strategies as st
  from harness import c09_gen as gen

  def avoid(v, a, d):
    gen.avoid_space(v['config']['space'], a, d)
    return v
  s = st.one_of(
      st.fixed_dictionaries({'kind': st.just('study_config'),
                             'config': gen.study_spec()}),
      st.fixed_dictionaries({'kind': st.just('study_config'),
                             'config': gen.study_spec()}),
      st.fixed_dictionaries({'kind': st.just('problem'),
                             'config': gen.problem_spec()}))
  return gen.wrapped(s, avoid, avoid_set())


# ---------------------------------------------------------------------------
# metadata delta
# ---------------------------------------------------------------------------
def check_delta(case):
  from harness import c09_gen as gen, c09_canon as cn
  from vizier._src.pyvizier.oss import proto_converters as pcv
  from vizier._src.service import vizier_service_pb2 as vsp
  out = core.Out()
  d = case['v']
  feats = set()
  _md_features(d['study'], feats)
  if d['study']:
    feats.add('on_study')
  for tid, items in d['trials']:
    _md_features(items, feats)
    feats.add('on_trials' if items else 'empty_trial_entry')
  x = gen.build_delta(d)
  _Judge(out, 'delta').run(
      x, lambda z: vsp.UpdateMetadataRequest(
          name='n', delta=pcv.MetadataDeltaConverter.to_protos(z)),
      lambda p: pcv.MetadataDeltaConverter.from_protos(p.delta),
      cn.canon_delta, _ser)
  return _finish(out, feats, case)


def delta_strategy():
  from harness import c09_gen as gen
  return gen.wrapped(gen.delta_spec(), lambda c, a, d: c, avoid_set())


# ---------------------------------------------------------------------------
# pythia requests and decisions
# ---------------------------------------------------------------------------
def check_pythia(case):
  from harness import c09_gen as gen, c09_canon as cn
  from vizier._src.pyvizier.oss import proto_converters as pcv
  out = core.Out()
  c = case['v']
  k = c['kind']
  feats = {k}
  if 'desc' in c:
    p = c['desc']['problem']
    _space_features(p['space'], feats)
    for m in p['metrics']:
      _metric_features(m, feats)
    _md_features(p['md'], feats)
    if c['checkpoint_dir'] is None:
      feats.add('checkpoint_dir_None')
  if k == 'early_stop_request':
    feats.add('trial_ids_None' if c['trial_ids'] is None else
              'trial_ids_empty' if not c['trial_ids'] else 'trial_ids_set')
  if 'delta' in c:
    _md_features(c['delta']['study'], feats)
    for _, items in c['delta']['trials']:
      _md_features(items, feats)
  if k == 'suggest_decision':
    for s in c['suggestions']:
      _md_features(s['md'], feats)
  if k == 'early_stop_decisions':
    for d in c['decisions']:
      feats.add('with_prediction' if d['predicted'] is not None
                else 'without_prediction')
      _meas_features(d['predicted'], feats)
  x = gen.build_pythia(c)
  conv = {
      'suggest_request': (pcv.SuggestConverter.to_request_proto,
                          pcv.SuggestConverter.from_request_proto),
      'suggest_decision': (pcv.SuggestConverter.to_decision_proto,
                           pcv.SuggestConverter.from_decision_proto),
      'early_stop_request': (pcv.EarlyStopConverter.to_request_proto,
                             pcv.EarlyStopConverter.from_request_proto),
      'early_stop_decisions': (pcv.EarlyStopConverter.to_decisions_proto,
                               pcv.EarlyStopConverter.from_decisions_proto),
  }[k]
  _Judge(out, k).run(x, conv[0], conv[1], lambda o: cn.canon_pythia(k, o),
                     _ser)
  return _finish(out, feats, case)


def pythia_strategy():
  from harness import c09_gen as gen
  return gen.wrapped(gen.pythia_spec(), gen.avoid_pythia, avoid_set())


# ---------------------------------------------------------------------------
# end to end through the local service
# ---------------------------------------------------------------------------
def check_service(case):
  from harness import svc, c09_gen as gen, c09_canon as cn
  from vizier._src.pyvizier.oss import proto_converters as pcv
  from vizier._src.service import study_pb2
  from vizier.service import pyvizier as svz
  vsp = svc.vsp
  out = core.Out()
  v = case['v']
  c = v['config']
  feats = {v['backend']}
  _space_features(c['space'], feats)
  for m in c['metrics']:
    _metric_features(m, feats)
  _md_features(c['md'], feats)
  cfg = gen.build_study_config(c)
  s = svc.make_servicer(v['backend'])
  try:
    try:
      created = s.CreateStudy(vsp.CreateStudyRequest(
          parent='owners/o', study=study_pb2.Study(
              display_name='d', study_spec=cfg.to_proto())))
      got = s.GetStudy(vsp.GetStudyRequest(name=created.name))
      back = svz.StudyConfig.from_proto(got.study_spec)
    except Exception as e:  # pylint: disable=broad-except
      out.violate('raise/service/study/%s' % _site(e), repr(e))
      return _finish(out, feats, case)
    seen = set()
    for path, kind, detail, a, b in cn.diff(cn.canon_study_config(cfg),
                                            cn.canon_study_config(back)):
      trig = _trigger(path, kind, a, b, {})
      bucket = 'rt/service.study_config.%s/%s' % (path, kind) + (
          '/' + trig if trig else '')
      if bucket not in seen:
        seen.add(bucket)
        out.violate(bucket, detail)
    ids = []
    for t in v['trials']:
      _trial_features(t, feats)
      x = gen.build_trial(t)
      try:
        made = s.CreateTrial(vsp.CreateTrialRequest(
            parent=created.name, trial=pcv.TrialConverter.to_proto(x)))
        got_t = s.GetTrial(vsp.GetTrialRequest(name=made.name))
        y = pcv.TrialConverter.from_proto(got_t)
      except Exception as e:  # pylint: disable=broad-except
        out.violate('raise/service/trial/%s' % _site(e), repr(e))
        continue
      ids.append(int(made.id))
      cx, cy = cn.canon_trial(x), cn.canon_trial(y)
      # CreateTrial assigns id, name, state (REQUESTED unless SUCCEEDED),
      # client_id and start_time: only what the service stores untouched
      keep = ['params', 'md', 'measurements', 'final', 'infeasibility_reason']
      if t['status'] == 'COMPLETED' and t['completed_us'] is not None:
        keep.append('completed_us')  # else derived from the assigned start
      if t['status'] == 'INFEASIBLE':
        keep.remove('infeasibility_reason')  # state is rewritten to REQUESTED
      for path, kind, detail, a, b in cn.diff({k: cx[k] for k in keep},
                                              {k: cy[k] for k in keep}):
        trig = _trigger(path, kind, a, b, {'status': t['status']})
        bucket = 'rt/service.trial.%s/%s' % (path, kind) + (
            '/' + trig if trig else '')
        if bucket not in seen:
          seen.add(bucket)
          out.violate(bucket, detail)
    listed = s.ListTrials(vsp.ListTrialsRequest(parent=created.name)).trials
    if sorted(int(t.id) for t in listed) != sorted(ids):
      out.violate('rt/service.list_trials/ids', '%r for %r' % (
          [t.id for t in listed], ids))
  finally:
    svc.close_servicer(s)
  return _finish(out, feats, case)


def service_strategy():
  from hypothesis import strategies as st
  from harness import c09_gen as gen

  def avoid(v, a, d):
    gen.avoid_space(v['config']['space'], a, d)
    for t in v['trials']:
      gen.avoid_trial(t, a, d)
    return v
  s = st.fixed_dictionaries({
      'backend': st.sampled_from(['ram', 'sqlmem']),
      'config': gen.study_spec(),
      'trials': st.lists(gen.trial_spec(), max_size=3)})
  return gen.wrapped(s, avoid, avoid_set())


# ---------------------------------------------------------------------------
def _req(*always, **by_trigger):
  """required classes: the trigger class itself, or its avoided_ counterpart."""
  av = avoid_set()
  req = list(always)
  for trig, cls in by_trigger.items():
    req.append('avoided_' + trig if trig in av else cls)
  return tuple(req)


def families(tier):
  return [
      core.Family('space', check_space, strategy=space_strategy,
                  budget={'quick': 3000, 'thorough': 50000},
                  shards={'quick': 8, 'thorough': 16},
                  required_classes=_req(
                      'depth>=2', 'has_default', 'default_False',
                      'hostile_name', 'external_type', 'scale_nonlinear',
                      'min==max', 'multi_parent_values', 'via_builder',
                      'via_factory', 'kind_DOUBLE', 'kind_INTEGER',
                      'kind_DISCRETE', 'kind_CATEGORICAL', 'kind_BOOL',
                      falsy_default='falsy_default', depth3='depth3')),
      core.Family('metric', check_metric, strategy=metric_strategy,
                  budget={'quick': 3000, 'thorough': 50000},
                  shards={'quick': 4, 'thorough': 16},
                  required_classes=('falsy_safety_threshold', 'falsy_fraction',
                                    'safety_metric', 'hostile_name',
                                    'empty_metric_name')),
      core.Family('measurement', check_measurement,
                  strategy=measurement_strategy,
                  budget={'quick': 3000, 'thorough': 50000},
                  shards={'quick': 4, 'thorough': 16},
                  required_classes=_req(
                      'metric_0.0', 'metric_nonfinite', 'metric_std',
                      'hostile_name', 'empty_metric_name', 'checkpoint_path',
                      fractional_secs='fractional_secs')),
      core.Family('trial', check_trial, strategy=trial_strategy,
                  setup=_setup_tz,
                  budget={'quick': 4000, 'thorough': 65000},
                  shards={'quick': 8, 'thorough': 16},
                  required_classes=_req(
                      'trial', 'suggestion', 'status_REQUESTED',
                      'status_ACTIVE', 'status_STOPPING', 'status_COMPLETED',
                      'status_INFEASIBLE', 'infeasible_reason_empty',
                      'fractional_time', 'explicit_completion_time',
                      'no_creation_time', 'falsy_param_value', 'md_s', 'md_dur',
                      'md_msg', 'md_any', 'hostile_name',
                      fractional_secs='fractional_secs',
                      infeasible_completion='status_INFEASIBLE')),
      core.Family('study', check_study, strategy=study_strategy,
                  budget={'quick': 3000, 'thorough': 50000},
                  shards={'quick': 8, 'thorough': 16},
                  required_classes=_req(
                      'study_config', 'problem_statement', 'endpoint',
                      'endpoint_empty', 'stopping_config', 'metrics_unsorted',
                      'safety_metric', 'depth>=2', 'md_dur', 'hostile_name',
                      falsy_default='falsy_default')),
      core.Family('delta', check_delta, strategy=delta_strategy,
                  budget={'quick': 3000, 'thorough': 50000},
                  shards={'quick': 4, 'thorough': 16},
                  required_classes=('on_study', 'on_trials', 'empty_trial_entry',
                                    'hostile_name', 'md_msg')),
      core.Family('pythia', check_pythia, strategy=pythia_strategy,
                  budget={'quick': 3000, 'thorough': 50000},
                  shards={'quick': 8, 'thorough': 16},
                  required_classes=_req(
                      'suggest_request', 'suggest_decision',
                      'early_stop_request', 'early_stop_decisions',
                      'with_prediction', 'trial_ids_None', 'trial_ids_set',
                      'checkpoint_dir_None', 'depth>=2',
                      no_prediction='without_prediction')),
      core.Family('service', check_service, strategy=service_strategy,
                  setup=_setup_tz,
                  budget={'quick': 400, 'thorough': 6000},
                  shards={'quick': 8, 'thorough': 16},
                  required_classes=('ram', 'sqlmem', 'status_COMPLETED',
                                    'status_INFEASIBLE', 'depth>=2')),
  ]
