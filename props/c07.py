"""C07 RAM and SQL datastores are observationally equivalent behind the service.

Families
  service3   the C01 history generator (more weight on delete+recreate,
             metadata deltas naming missing trials, early stopping, several
             workers) replayed on three servicers: RAM, sqlite:///:memory:,
             sqlite:///<tmpfile>.  After every call the three responses /
             error classes and the three snapshots must be equal; at the end
             (and after every delete/create of a study) every GetOperation name
             in the universe is compared too.
  datastore  sequences of raw DataStore method calls (all 21 methods incl.
             error paths) on the three backends, with a pass-by-value probe
             (arguments and results are scribbled over after each call).
"""
from harness import core

ID = 'C07'
LEVEL = 'exploration'
RULE = ('service3: Hypothesis histories of service calls replayed on 3 '
        'backends, differential oracle (responses, error classes, snapshots, '
        'operations); non-trivial = history deletes and re-creates a study, '
        'or has a metadata update naming a missing trial, or >=2 suggestion '
        'operations of one worker. datastore: Hypothesis sequences of raw '
        'DataStore calls; non-trivial = contains an error path and an update '
        'after a create. distinct = SHA-1 of canonical case JSON.')
ASSUMPTIONS = [
    'no reference model: the oracle is agreement of the three backends '
    '(timestamps blanked); a defect shared by all three is invisible here '
    'and is C01\'s business',
    'raw datastore calls respect the implicit precondition of every caller: '
    'trials and operations are only created under an existing study',
]


def _canon_result(res, op=None):
  from harness import svc
  if res[0] == 'err':
    if op is not None and op[0] == 'bad_name' and not res[1].startswith(
        'CRASH:'):
      # a malformed resource name is rejected by all backends; which class
      # (ValueError from the name parser / NOT_FOUND from a lookup by name) is
      # not part of the documented behaviour and is not compared
      return ('err', 'REJECTED')
    return ('err', res[1])
  v = res[1]

  def c(x):
    if x is None or isinstance(x, (bool, int, float, str)):
      return x
    if isinstance(x, (list, tuple)):
      return [c(y) for y in x]
    if hasattr(x, 'response') and hasattr(x, 'done'):  # Operation
      return svc.norm_op(x)
    return svc.pb_hex(x)
  return ('ok', c(v))


def strategy_service():
  from hypothesis import strategies as st
  from harness import histories
  return st.fixed_dictionaries({
      'recycle': st.sampled_from([0, 86400]),
      'context': st.sampled_from(['none', 'none', 'grpc']),
      'es': st.lists(st.booleans(), min_size=4, max_size=4),
      'ops': histories.history_strategy(min_ops=8, max_ops=40,
                                        bad_names=True),
  })


def _ops_universe():
  from harness import histories
  return [['get_op', o, s, w, k] for o in histories.OWNERS
          for s in histories.SIDS for w in histories.WORKERS
          for k in (1, 2, 3, 4)]


def check_service(case):
  from harness import svc, histories
  out = core.Out()
  tmp = svc.TmpFiles()
  servers = []
  raws = []
  try:
    for b in svc.BACKENDS:
      plan = svc.Plan(es=['ok:%s' % v for v in case['es']] * 20)
      srv = svc.make_servicer(
          b, policy_factory=svc.HarnessPolicyFactory(plan), tmp=tmp,
          recycle_s=case['recycle'])
      raws.append(srv)
      if case.get('context') == 'grpc':
        srv = histories.with_context(srv)
      servers.append((b, srv, plan))
    owners = histories.OWNERS
    deleted = set()
    recreated = False
    missing_md = False
    ops_per_worker = {}
    for step, op in enumerate(case['ops']):
      kind = op[0]
      results = [(_canon_result(histories.exec_real(s, op), op), b)
                 for b, s, _ in servers]
      base, b0 = results[0]
      for r, b in results[1:]:
        if r != base:
          what = 'error_class' if (r[0] == 'err' or base[0] == 'err') else (
              'response')
          out.violate('%s/%s/%s_vs_%s' % (what, kind, b0, b),
                      'step %d op=%r %s=%s %s=%s' % (
                          step, op, b0, str(base)[:300], b, str(r)[:300]))
      if not out.ok:
        break
      if base[0] == 'ok':
        if kind == 'delete_study':
          deleted.add((op[1], op[2]))
        if kind == 'create_study' and (op[1], op[2]) in deleted:
          recreated = True
        if kind == 'update_md' and base[1] is True:
          missing_md = True
        if kind == 'suggest':
          key = (op[1], op[2], op[3])
          ops_per_worker[key] = ops_per_worker.get(key, 0) + 1
      snaps = [(svc.snapshot(s, owners), b) for b, s, _ in servers]
      for sn, b in snaps[1:]:
        if sn != snaps[0][0]:
          out.violate('snapshot/after_%s/%s_vs_%s' % (kind, b0, b),
                      'step %d op=%r: stored studies/trials differ' % (
                          step, op))
      if not out.ok:
        break
      if kind in ('delete_study', 'create_study') or step == len(
          case['ops']) - 1:
        for gop in _ops_universe():
          rs = [_canon_result(histories.exec_real(s, gop))
                for _, s, _ in servers]
          for r, (b, _, _) in zip(rs[1:], servers[1:]):
            if r != rs[0]:
              out.violate('operations/after_%s/%s_vs_%s' % (kind, b0, b),
                          'step %d: %r %s=%s %s=%s' % (
                              step, gop, b0, str(rs[0])[:200], b,
                              str(r)[:200]))
        if not out.ok:
          break
    calls = {p.suggest_calls for _, _, p in servers}
    es_calls = {p.es_calls for _, _, p in servers}
    if out.ok and (len(calls) > 1 or len(es_calls) > 1):
      out.violate('policy_invocations_differ',
                  'suggest calls %r early-stop calls %r' % (
                      [(b, p.suggest_calls, p.es_calls)
                       for b, _, p in servers], es_calls))
    multi = any(v >= 2 for v in ops_per_worker.values())
    out.nontrivial = recreated or missing_md or multi
    if recreated:
      out.cls('delete_then_recreate')
    if missing_md:
      out.cls('failed_metadata_update')
    if multi:
      out.cls('several_ops_one_worker')
    if any(o[0] == 'early_stop' for o in case['ops']):
      out.cls('has_early_stop')
    if any(o[0] == 'bad_name' for o in case['ops']):
      out.cls('malformed_name')
    out.cls('recycle_%s' % case['recycle'])
    if case.get('context') == 'grpc':
      out.cls('with_grpc_context')
  finally:
    for s in raws:
      svc.close_servicer(s)
    tmp.close()
  return out


# ------------------------------------------------------------ raw datastore
def strategy_datastore_op():
  from hypothesis import strategies as st
  owner = st.sampled_from(['o0'] * 6 + ['o1'])
  sid = st.sampled_from(['s0'] * 6 + ['s1'])
  tid = st.integers(1, 3)
  w = st.sampled_from(['w1', 'w2'])
  k = st.integers(1, 3)
  state = st.sampled_from(['ACTIVE', 'SUCCEEDED', 'REQUESTED'])
  kv = st.tuples(st.sampled_from(['', ':a']), st.sampled_from(['k', 'j']),
                 st.sampled_from(['', 'v', 'w'])).map(list)
  tkv = st.tuples(tid, st.sampled_from(['', ':a']), st.sampled_from(['k']),
                  st.sampled_from(['v', 'w'])).map(list)
  ops = st.one_of(
      st.tuples(st.just('create_study'), owner, sid),
      st.tuples(st.just('create_study'), owner, sid),
      st.tuples(st.just('load_study'), owner, sid),
      st.tuples(st.just('update_study'), owner, sid,
                st.sampled_from(['ACTIVE', 'INACTIVE'])),
      st.tuples(st.just('delete_study'), owner, st.sampled_from(
          ['s1', 's1', 's0'])),
      st.tuples(st.just('list_studies'), owner),
      st.tuples(st.just('create_trial'), owner, sid, tid),
      st.tuples(st.just('create_trial'), owner, sid, tid),
      st.tuples(st.just('get_trial'), owner, sid, tid),
      st.tuples(st.just('update_trial'), owner, sid, tid, state),
      st.tuples(st.just('list_trials'), owner, sid),
      st.tuples(st.just('delete_trial'), owner, sid, tid),
      st.tuples(st.just('max_trial_id'), owner, sid),
      st.tuples(st.just('create_sop'), owner, sid, w, k),
      st.tuples(st.just('get_sop'), owner, sid, w, k),
      st.tuples(st.just('update_sop'), owner, sid, w, k, st.booleans()),
      st.tuples(st.just('list_sops'), owner, sid, w,
                st.sampled_from(['all', 'not_done'])),
      st.tuples(st.just('max_sop'), owner, sid, w),
      st.tuples(st.just('create_eop'), owner, sid, tid),
      st.tuples(st.just('get_eop'), owner, sid, tid),
      st.tuples(st.just('update_eop'), owner, sid, tid, st.booleans()),
      st.tuples(st.just('update_md'), owner, sid, st.lists(kv, max_size=2),
                st.lists(tkv, max_size=2)),
  ).map(list)
  return ops


def strategy_datastore():
  from hypothesis import strategies as st
  ops = strategy_datastore_op()
  # second opening: every kind of update, then writes that fail (and roll the
  # connection back), then reads - an update that was acknowledged stays
  after_updates = [
      ['create_study', 'o0', 's0'], ['create_trial', 'o0', 's0', 1],
      ['create_sop', 'o0', 's0', 'w1', 1], ['create_eop', 'o0', 's0', 1],
      # each update is followed at once by a write that fails and rolls back
      ['update_eop', 'o0', 's0', 1, True], ['create_study', 'o0', 's1'],
      ['get_eop', 'o0', 's0', 1],
      ['update_sop', 'o0', 's0', 'w1', 1, True],
      ['create_trial', 'o0', 's0', 1], ['get_sop', 'o0', 's0', 'w1', 1],
      ['update_trial', 'o0', 's0', 1, 'SUCCEEDED'],
      ['create_study', 'o0', 's0'], ['get_trial', 'o0', 's0', 1],
      ['update_study', 'o0', 's0', 'INACTIVE'],
      ['create_trial', 'o0', 's0', 1], ['load_study', 'o0', 's0']]
  return st.fixed_dictionaries({
      'ops': st.tuples(st.sampled_from([[['create_study', 'o0', 's0']],
                                        [['create_study', 'o0', 's0']],
                                        after_updates]),
                       st.lists(ops, min_size=6, max_size=40)).map(
                           lambda t: t[0] + t[1])})


def dense_sop(op, res_set):
  """The service numbers a client's operations densely (max + 1); the backends
  may count differently for sparse numbers, which no service call sequence can
  produce."""
  if op[0] != 'create_sop':
    return op
  n = len([r for r in res_set
           if r[0] == 'sop' and r[1:4] == (op[1], op[2], op[3])])
  return op[:4] + [n + 1]


def precondition_ok(op, existing, res_set):
  """Implicit preconditions of every caller in the service."""
  kind = op[0]
  o, s = op[1], (op[2] if len(op) > 2 else None)
  if kind in ('update_study', 'create_trial', 'create_sop', 'create_eop'):
    if (o, s) not in existing:
      return False
  if kind == 'update_trial' and ('trial', o, s, op[3]) not in res_set:
    return False
  if kind == 'update_sop' and ('sop', o, s, op[3], op[4]) not in res_set:
    return False
  if kind == 'update_eop' and ('eop', o, s, op[3]) not in res_set:
    return False
  return True


def track(op, r0, existing, res_set):
  """Book-keeping of which studies / resources exist after op returned r0."""
  if r0 == 'SKIP' or r0[0] == 'err':
    return
  if op[0] == 'create_study':
    existing.add((op[1], op[2]))
  if op[0] == 'delete_study':
    existing.discard((op[1], op[2]))
    for r in [r for r in res_set if r[1:3] == (op[1], op[2])]:
      res_set.discard(r)
  if op[0] == 'create_trial':
    res_set.add(('trial', op[1], op[2], op[3]))
  if op[0] == 'delete_trial':
    res_set.discard(('trial', op[1], op[2], op[3]))
  if op[0] == 'create_sop':
    res_set.add(('sop', op[1], op[2], op[3], op[4]))
  if op[0] == 'create_eop':
    res_set.add(('eop', op[1], op[2], op[3]))


def _ds_call(ds, op, existing_studies, existing_res=frozenset()):
  """Runs one raw datastore op; returns canonical result, or 'SKIP'.

  Implicit preconditions of every caller in the service (the property is about
  behaviour *behind the service*): create_* only under an existing study;
  update_* only on a resource the caller has just read or created.
  """
  from harness import svc
  from harness import service_model as sm
  from vizier._src.service import custom_errors, key_value_pb2
  from vizier._src.service import vizier_oss_pb2
  from google.longrunning import operations_pb2
  study_pb2 = svc.study_pb2
  kind = op[0]
  o, s = op[1], (op[2] if len(op) > 2 else None)
  name = sm.sname(o, s) if s is not None else None
  exists = (o, s) in existing_studies
  arg = res = None
  if kind in ('update_study',) and not exists:
    return 'SKIP'
  if kind == 'update_trial' and ('trial', o, s, op[3]) not in existing_res:
    return 'SKIP'
  if kind == 'update_sop' and ('sop', o, s, op[3], op[4]) not in existing_res:
    return 'SKIP'
  if kind == 'update_eop' and ('eop', o, s, op[3]) not in existing_res:
    return 'SKIP'
  try:
    if kind == 'create_study':
      arg = study_pb2.Study(name=name, display_name=s)
      res = ds.create_study(arg)
      out = res.name
    elif kind == 'load_study':
      res = ds.load_study(name)
      out = svc.pb_hex(res)
    elif kind == 'update_study':
      arg = study_pb2.Study(name=name, display_name=s,
                            state=getattr(svc.SS, op[3]))
      res = ds.update_study(arg)
      out = res.name
    elif kind == 'delete_study':
      out = ds.delete_study(name)
    elif kind == 'list_studies':
      res = ds.list_studies('owners/' + o)
      out = [svc.pb_hex(x) for x in res]
    elif kind == 'create_trial':
      if not exists:
        return 'SKIP'
      arg = study_pb2.Trial(name=sm.tname(o, s, op[3]), id=str(op[3]),
                            state=svc.TS.ACTIVE)
      res = ds.create_trial(arg)
      out = res.name
    elif kind == 'get_trial':
      res = ds.get_trial(sm.tname(o, s, op[3]))
      out = svc.pb_hex(res)
    elif kind == 'update_trial':
      arg = study_pb2.Trial(name=sm.tname(o, s, op[3]), id=str(op[3]),
                            state=getattr(svc.TS, op[4]))
      res = ds.update_trial(arg)
      out = res.name
    elif kind == 'list_trials':
      res = ds.list_trials(name)
      out = [svc.pb_hex(x) for x in res]
    elif kind == 'delete_trial':
      out = ds.delete_trial(sm.tname(o, s, op[3]))
    elif kind == 'max_trial_id':
      out = ds.max_trial_id(name)
    elif kind == 'create_sop':
      if not exists:
        return 'SKIP'
      arg = operations_pb2.Operation(name=sm.opname(o, s, op[3], op[4]))
      res = ds.create_suggestion_operation(arg)
      out = res.name
    elif kind == 'get_sop':
      res = ds.get_suggestion_operation(sm.opname(o, s, op[3], op[4]))
      out = svc.pb_hex(res)
    elif kind == 'update_sop':
      arg = operations_pb2.Operation(name=sm.opname(o, s, op[3], op[4]),
                                     done=op[5])
      res = ds.update_suggestion_operation(arg)
      out = res.name
    elif kind == 'list_sops':
      fn = None if op[4] == 'all' else (lambda x: not x.done)
      res = ds.list_suggestion_operations(name, op[3], fn)
      out = [svc.pb_hex(x) for x in res]
    elif kind == 'max_sop':
      out = ds.max_suggestion_operation_number(name, op[3])
    elif kind in ('create_eop', 'get_eop', 'update_eop'):
      ename = 'owners/%s/operations/earlystopping/%s/%d' % (o, s, op[3])
      if kind == 'create_eop':
        if not exists:
          return 'SKIP'
        arg = vizier_oss_pb2.EarlyStoppingOperation(name=ename)
        res = ds.create_early_stopping_operation(arg)
        out = res.name
      elif kind == 'get_eop':
        res = ds.get_early_stopping_operation(ename)
        out = svc.pb_hex(res)
      else:
        arg = vizier_oss_pb2.EarlyStoppingOperation(name=ename,
                                                    should_stop=op[4])
        res = ds.update_early_stopping_operation(arg)
        out = res.name
    elif kind == 'update_md':
      skv = [key_value_pb2.KeyValue(ns=a, key=b, value=c) for a, b, c in op[3]]
      tkv = []
      for t, a, b, c in op[4]:
        u = svc.vsp.UnitMetadataUpdate(trial_id=str(t))
        u.metadatum.ns, u.metadatum.key, u.metadatum.value = a, b, c
        tkv.append(u)
      arg = skv + tkv
      out = ds.update_metadata(name, skv, tkv)
    else:
      raise ValueError(op)
  except custom_errors.NotFoundError:
    return ('err', 'NotFoundError')
  except custom_errors.AlreadyExistsError:
    return ('err', 'AlreadyExistsError')
  except ValueError as e:
    if e.args and e.args[0] is op:
      raise
    return ('err', 'other:' + type(e).__name__)
  except Exception as e:  # pylint: disable=broad-except
    return ('err', 'other:' + type(e).__name__)
  finally:
    # pass-by-value probe
    for m in (arg if isinstance(arg, list) else [arg]):
      if m is not None and hasattr(m, 'Clear'):
        m.Clear()
    if isinstance(res, list):
      for m in res:
        m.Clear()
    elif res is not None and hasattr(res, 'Clear'):
      res.Clear()
  return ('ok', out)


def check_datastore(case):
  from harness import svc
  out = core.Out()
  tmp = svc.TmpFiles()
  servers = []
  try:
    for b in svc.BACKENDS:
      servers.append((b, svc.make_servicer(b, tmp=tmp)))
    existing = set()
    res_set = set()
    had_error = False
    update_after_create = False
    created = set()
    skipped = 0
    for step, op in enumerate(case['ops']):
      if op[0] == 'create_sop':
        # the service numbers a client's operations densely (max + 1); the
        # backends may count differently for sparse numbers, which no service
        # call sequence can produce
        n = len([r for r in res_set
                 if r[0] == 'sop' and r[1:4] == (op[1], op[2], op[3])])
        op = op[:4] + [n + 1]
      rs = [(_ds_call(s.datastore, op, existing, res_set), b)
            for b, s in servers]
      if rs[0][0] == 'SKIP':
        skipped += 1
        continue
      for r, b in rs[1:]:
        if r != rs[0][0]:
          what = 'error_class' if 'err' in (r[0], rs[0][0][0]) else 'result'
          out.violate('ds/%s/%s/%s_vs_%s' % (what, op[0], rs[0][1], b),
                      'step %d op=%r %s=%s %s=%s' % (
                          step, op, rs[0][1], str(rs[0][0])[:200], b,
                          str(r)[:200]))
      if not out.ok:
        break
      r0 = rs[0][0]
      if r0[0] == 'err':
        had_error = True
        if r0[1].startswith('other:'):
          out.cls('undocumented_error_' + r0[1][6:])
      else:
        if op[0] == 'create_study':
          existing.add((op[1], op[2]))
        if op[0] == 'delete_study':
          existing.discard((op[1], op[2]))
          res_set = {r for r in res_set if r[1:3] != (op[1], op[2])}
        if op[0] == 'create_trial':
          res_set.add(('trial', op[1], op[2], op[3]))
        if op[0] == 'delete_trial':
          res_set.discard(('trial', op[1], op[2], op[3]))
        if op[0] == 'create_sop':
          res_set.add(('sop', op[1], op[2], op[3], op[4]))
        if op[0] == 'create_eop':
          res_set.add(('eop', op[1], op[2], op[3]))
        if op[0].startswith('create_'):
          created.add(tuple(op[:4]))
        if op[0].startswith('update_'):
          update_after_create = update_after_create or bool(created)
    out.nontrivial = had_error and update_after_create
    if had_error:
      out.cls('error_path')
    if update_after_create:
      out.cls('update_after_create')
    if skipped:
      out.cls('skipped_precondition')
  finally:
    for _, s in servers:
      svc.close_servicer(s)
    tmp.close()
  return out


def families(tier):
  return [
      core.Family('service3', check_service, strategy=strategy_service,
                  budget={'quick': 900, 'thorough': 16000},
                  shards={'quick': 16, 'thorough': 16},
                  required_classes=('delete_then_recreate',
                                    'failed_metadata_update',
                                    'several_ops_one_worker',
                                    'has_early_stop', 'recycle_0',
                                    'recycle_86400')),
      core.Family('datastore', check_datastore, strategy=strategy_datastore,
                  budget={'quick': 800, 'thorough': 16000},
                  shards={'quick': 8, 'thorough': 16},
                  required_classes=('error_path', 'update_after_create')),
  ]
