"""C19 Acquisition optimiser returns in-bounds candidates, the best it evaluated.

One family, `optimize`.  A case fixes a *static configuration* (layout from a
menu of 24 real `TrialToModelInputConverter` layouts, strategy, batch size,
max_evaluations, count, n_parallel, use_fori, number of prior trials) and
carries a list of *sub-cases* (seed, score-function description, prior points).
The optimiser is built through the public factories and called like the
designers call it (`eqx.filter_jit(optimizer)(score_fn, count=..,
prior_features=.., n_parallel=.., seed=..)`); the score function is an
`eqx.Module` whose numbers are traced arrays, so one XLA compile serves every
sub-case of a case.

Oracle per sub-case (statement of C19):
  shape     features (count, n_parallel or 1, padded feature dims), rewards
            (count,)
  bounds    real continuous columns in [0,1] (NaN is out of bounds), real
            categorical columns in [0, size_i)
  padding   padded columns of the result are exactly 0
  reward    rewards[i] equals the harness's own evaluation of the score
            function at features[i] (NaN == NaN, -inf == -inf, float32 slack)
  prior     max(rewards) >= max over the seeded prior points of the score
  determ    same seed + same score => bit-identical result (another seed is
            run in between); in 1 of 4 cases additionally on a freshly built,
            re-traced and re-compiled optimiser
  evaluated every returned (features, reward) row is one the optimiser really
            evaluated (the score function logs its calls through an ordered
            io_callback), and the returned rewards are the top `count` of all
            non-NaN rewards evaluated in the loop (docstring of
            _update_best_results / "best trials found")
  decode    the converter decodes every returned candidate to a member of the
            search space (independent membership oracle of harness/spaces.py)
  trials    vb.best_candidates_to_trials(result, converter): count*n_parallel
            trials, every consecutive block of n_parallel trials is one
            returned candidate set (parameters = the harness's own decoding of
            features[ind, :]) and carries rewards[ind] as acquisition value in
            the final measurement and the devinfo metadata
  any exception from the optimiser call is a violation.

Every score function also carries a *trap*: a point with an out-of-domain real
feature (NaN, outside [0,1], category index < 0 or >= size) scores 1e3, above
every in-domain score, so an optimiser that ever evaluates (or accepts as a
prior) such a point reports it as its best and fails the bounds clause.
In 1 of 5 cases with categorical features the same process first optimises a
*sibling layout* (same parameter names / kinds / padding, category counts +2)
and afterwards another one (counts -1): state shared across studies (caches
keyed on names) shows up as a category index >= size in the main run or in the
small sibling's run (buckets prefixed sibling_large/ sibling_small/).
"""
import math
import os

from hypothesis import strategies as st

from harness import core

ID = 'C19'
LEVEL = 'exploration'
EVAL_COUNTER = 'optimizer_runs'
RULE = ('Hypothesis draws a static configuration (one of 24 layouts: 0-4 '
        'continuous features, 0-3 categorical features of size 1-5, padding '
        'none / POWERS_OF_2 / MULTIPLES_OF_10, three layouts with '
        'LOG/INTEGER/DISCRETE/BOOL parameters; strategy eagle|random; batch '
        '1|5|25; max_evaluations 1..40*batch (1..40 loop steps); count 1..min(8, '
        'evaluations); n_parallel None|1|2; use_fori; 0..12 prior trials) and '
        '2-4 (quick) / 2-8 (thorough) sub-cases (seed, score function from the grammar: weighted '
        'negative squared distance to an interior/corner target + weighted '
        'categorical indicators, optional floor-plateaus, optional NaN / -inf '
        '/ +inf region (half space, one category, or exactly the target '
        'point), optional optimum placed on a prior point, out-of-domain '
        'trap). 1 case in 6 is steered to trial-padded priors with '
        'n_parallel=2 and an odd prior count; 1 in 5 categorical cases runs '
        'sibling layouts (other category counts) before and after. evaluations = '
        'optimiser runs (3 per sub-case: seed, other seed, seed again; +1 on '
        'a rebuilt optimiser in 1 of 4 cases). 5 of 6 prior cases and 7 of 8 '
        'random-strategy cases on padded layouts are steered away from the '
        'triggers of the known findings; the cases that stay inside are '
        'counted in class known_trigger:*. '
        'non-trivial sub-case = layout has both feature kinds or zero of one '
        'kind, and (count>1 or priors present). distinct = SHA-1 of (static '
        'configuration, sub-case).')
ASSUMPTIONS = [
    'the score function is the harness\'s own pure jax function; the reported '
    'reward is compared with the harness\'s evaluation of it on arrays the '
    'harness builds from the returned features (float32: |diff| <= 1e-5 * '
    '(1 + score scale); a mismatch within 1e-4 of a floor-plateau edge is '
    'tolerated and counted)',
    'with n_parallel=2 the seeded prior "points" are the consecutive pairs of '
    'the prior trials in creation order (the only grouping the API offers)',
    'prior trials are built from harness-mapped parameter values and converted '
    'with the real converter (vb.trials_to_sorted_array); padded feature '
    'dimensions are computed from the PaddingType docs',
    'all converters of one padding kind share one PaddingSchedule object '
    '(the from_problem default for no padding), as in a process configured '
    'once; the score trap value 1e3 exceeds every in-domain score of the '
    'grammar (< 30) except a +inf region',
    'equinox.filter_jit / XLA CPU compile the optimiser faithfully; the '
    'ordered io_callback in the score function is executed exactly once per '
    'score call of the optimiser (it returns the logged value itself)',
    'count <= ceil(max_evaluations / batch) * batch by construction; when the '
    'log shows fewer evaluations than count the sub-case is inconclusive',
]

# Known findings on the unchanged tree (see known_findings.d/C19.jsonl).  When
# a flag is True the generator keeps only a small share of cases that trigger
# the finding (class `known_trigger:*`), so the rest of the search is not blind.
# VERIF_C19_ASSUME_FIXED=1 (e.g. on a tree with proposals/C19/*.diff applied)
# switches the avoidance off: every trigger is generated at its natural rate.
_AVOID = False  # all C19 findings fixed (2929286, 3a6d70e, 4b6a275, 8d9221f)
KNOWN_RANDOM_PADDING = _AVOID    # random strategy ignores feature padding
KNOWN_PRIOR_NOT_MERGED = _AVOID  # priors never merged into the best results


# ------------------------------------------------------------------ generator
def _score_desc():
  coord = st.one_of(st.sampled_from([0.0, 1.0]),
                    st.floats(0.0, 1.0, allow_nan=False, width=32))
  weight = st.one_of(st.sampled_from([0.0, 1.0]),
                     st.floats(0.125, 3.0, allow_nan=False, width=32))
  bad = st.one_of(
      st.none(),
      st.fixed_dictionaries({
          'kind': st.sampled_from([1, 2, 3, 3, 4]),
          'dim': st.integers(0, 3),
          'thr': st.one_of(st.floats(0.0, 1.0, allow_nan=False, width=32),
                           st.integers(0, 4).map(float)),
          'val': st.sampled_from(['nan', '-inf', '+inf', '+inf'])}))
  return st.fixed_dictionaries({
      't': st.lists(coord, min_size=4, max_size=4),
      'wd': st.one_of(st.sampled_from([0.0, 1.0, 1.0]),
                      st.floats(0.125, 4.0, allow_nan=False, width=32)),
      'c': st.lists(st.integers(0, 4), min_size=4, max_size=4),
      'wc': st.lists(weight, min_size=4, max_size=4),
      'kp': st.sampled_from([0.0, 0.0, 0.0, 1.0, 2.0, 4.0, 10.0]),
      'bad': bad,
      'red': st.integers(0, 1),
  })


@st.composite
def _case(draw, max_subs=6):
  from harness import c19_lib as lib
  layout = draw(st.integers(0, lib.N_MAIN - 1))
  # 1 case in 6: priors that are padded in the trial dimension, n_parallel=2
  # and an odd number of priors (the last parallel batch would mix a real
  # prior with a padding row)
  partial = draw(st.integers(0, 5)) == 0
  if partial:
    layout = draw(st.sampled_from(
        [i for i in range(lib.N_MAIN)
         if lib.LAYOUTS[i]['pad'] in ('pow2', 'mult10')]))
  info = lib.layout_info(layout)
  padded = (info['n_cont_pad'] != info['n_cont']
            or info['n_cat_pad'] != info['n_cat'])
  strategy = draw(st.sampled_from(['eagle', 'eagle', 'random']))
  if strategy == 'random' and padded and KNOWN_RANDOM_PADDING:
    if draw(st.integers(0, 7)) != 0:
      strategy = 'eagle'
  batch = draw(st.sampled_from([1, 5, 25]))
  use_fori = draw(st.booleans())
  n_prior = draw(st.one_of(st.just(0), st.integers(1, 12)))
  if partial:
    n_prior = draw(st.sampled_from([3, 5, 7, 9, 11]))
  nfeat = info['n_cont'] + info['n_cat']
  pool_steps = lib.eagle_pool_size(nfeat, batch) // batch
  if use_fori:
    steps = draw(st.one_of(
        st.integers(1, 40),
        st.sampled_from([1, max(1, pool_steps - 1), pool_steps,
                         min(40, pool_steps + 1), min(40, pool_steps + 7),
                         40])))
  else:  # the loop is unrolled under jit: keep the trace small
    steps = draw(st.integers(1, 4))
  if (n_prior and KNOWN_PRIOR_NOT_MERGED and draw(st.integers(0, 5)) != 0):
    # keep most prior cases outside the known trigger (random strategy, or
    # eagle with a budget smaller than its pool)
    strategy = 'eagle'
    if steps < pool_steps:
      if use_fori or pool_steps <= 4:
        steps = pool_steps + draw(st.integers(0, 3))
      else:
        use_fori = True
        steps = pool_steps + draw(st.integers(0, 3))
  evaluations = steps * batch
  max_evaluations = evaluations - draw(st.integers(0, batch - 1))
  count = draw(st.one_of(st.integers(1, min(8, evaluations)),
                         st.just(min(8, evaluations))))
  n_parallel = draw(st.sampled_from([None, None, 1, 2]))
  if partial:
    n_parallel = 2
  subs = []
  for _ in range(draw(st.integers(2, max_subs))):
    prior = []
    for _ in range(n_prior):
      prior.append({
          'u': draw(st.lists(st.one_of(
              st.sampled_from([0.0, 1.0]),
              st.floats(0.0, 1.0, allow_nan=False, width=32)),
                             min_size=info['n_cont'], max_size=info['n_cont'])),
          'k': [draw(st.integers(0, s - 1)) for s in info['sizes']]})
    subs.append({
        'seed': draw(st.integers(0, 2**31 - 1)),
        'score': draw(_score_desc()),
        'prior': prior,
        'opt_prior': (draw(st.one_of(st.none(), st.integers(0, n_prior - 1)))
                      if n_prior else None),
    })
  rebuild = draw(st.integers(0, 3)) == 0
  sibling = lib.has_sibling(layout) and draw(st.integers(0, 4)) == 0
  return {'rebuild': rebuild, 'sibling': sibling, 'layout': layout,
          'strategy': strategy,
          'batch': batch,
          'max_evaluations': max_evaluations, 'count': count,
          'n_parallel': n_parallel, 'use_fori': use_fori, 'n_prior': n_prior,
          'subs': subs}


def strategy_quick():
  return _case(max_subs=4)


def strategy_thorough():
  return _case(max_subs=8)


# --------------------------------------------------------------------- helpers
def _assignment(spec, u, k):
  """Harness mapping unit-cube / index point -> a member of the space."""
  out = {}
  ui = iter(u)
  ki = iter(k)
  for p in spec['params']:
    kind = p['kind']
    if kind == 'DOUBLE':
      x = next(ui)
      lo, hi = p['lo'], p['hi']
      if p.get('scale') in ('LOG', 'REVERSE_LOG'):
        v = math.exp(math.log(lo) + x * (math.log(hi) - math.log(lo)))
      else:
        v = lo + x * (hi - lo)
      out[p['name']] = min(max(v, lo), hi)
    elif kind == 'INTEGER':
      x = next(ui)
      out[p['name']] = int(p['lo'] + round(x * (p['hi'] - p['lo'])))
    elif kind == 'DISCRETE':
      x = next(ui)
      out[p['name']] = p['values'][int(round(x * (len(p['values']) - 1)))]
    elif kind == 'CATEGORICAL':
      out[p['name']] = p['values'][next(ki)]
    elif kind == 'BOOL':
      out[p['name']] = ['False', 'True'][next(ki)]
  return out


def _vizier_frame(exc):
  import traceback
  site = 'unknown'
  for fr in traceback.extract_tb(exc.__traceback__):
    if '/vizier/' in fr.filename:
      site = '%s:%s' % (fr.filename.split('/vizier/')[-1], fr.name)
  return site


def _same(a, b):
  import numpy as np
  a, b = np.asarray(a), np.asarray(b)
  return a.shape == b.shape and bool(np.array_equal(a, b, equal_nan=(
      a.dtype.kind == 'f')))


def _pv_equal(a, b):
  if set(a) != set(b):
    return False
  for k, x in a.items():
    y = b[k]
    if isinstance(x, str) or isinstance(y, str):
      if x != y:
        return False
    elif not math.isclose(float(x), float(y), rel_tol=1e-9, abs_tol=1e-12):
      return False
  return True


def _members_equal(block, members):
  """Multiset equality of two lists of parameter dicts."""
  left = list(members)
  for a in block:
    for i, b in enumerate(left):
      if _pv_equal(a, b):
        del left[i]
        break
    else:
      return False
  return not left


def _check_trials(out, tag, trials, params, rw, count, par):
  """best_candidates_to_trials: one block of `par` trials per candidate set.

  Every consecutive block of n_parallel trials must be one returned candidate
  set (its members = the harness's own decoding of features[ind, :], in any
  order) and carry that set's reward as acquisition value, both in the final
  measurement and in the devinfo metadata.  The order of the sets is free.
  """
  import json
  import numpy as np
  from harness import spaces
  from vizier.utils import json_utils
  sets = [(float(rw[i]),
           [spaces.param_values_to_py(params[i * par + j])
            for j in range(par)]) for i in range(count)]
  if par >= 2 and count >= 2:
    out.cls('trials_clause_parallel_sets')
    if any(not _members_equal(sets[0][1], m) for _, m in sets[1:]):
      out.cls('trials_clause_distinct_sets')
  unused = list(range(count))
  for b in range(count):
    block = trials[b * par:(b + 1) * par]
    acqs = []
    for tr in block:
      fm = tr.final_measurement
      a = fm.metrics['acquisition'].value if fm is not None and (
          'acquisition' in fm.metrics) else None
      try:
        md = float(np.asarray(json.loads(
            tr.metadata.ns('devinfo')['acquisition_optimization'],
            cls=json_utils.NumpyDecoder)['acquisition']))
      except Exception:  # pylint: disable=broad-except
        md = None
      if a is None or md is None or not math.isclose(
          float(a), float(md), rel_tol=1e-6, abs_tol=1e-9):
        out.violate('decode/trials/acquisition_missing_or_inconsistent',
                    '%s: block %d measurement=%r metadata=%r' % (tag, b, a, md))
        return
      acqs.append(float(a))
    if any(not math.isclose(a, acqs[0], rel_tol=1e-6, abs_tol=1e-9)
           for a in acqs):
      out.violate('decode/trials/acquisition_differs_within_set',
                  '%s: block %d acquisitions %r' % (tag, b, acqs))
      return
    bp = [spaces.param_values_to_py(tr.parameters) for tr in block]
    same_members = [i for i in unused if _members_equal(bp, sets[i][1])]
    hit = [i for i in same_members if math.isclose(
        sets[i][0], acqs[0], rel_tol=1e-6, abs_tol=1e-9)]
    if hit:
      unused.remove(hit[0])
      continue
    if same_members:
      out.violate('decode/trials/acquisition_not_reward_of_set',
                  '%s: block %d acquisition %r, reward of that set %r' % (
                      tag, b, acqs[0], [sets[i][0] for i in same_members]))
    else:
      out.violate('decode/trials/members_not_a_returned_set',
                  '%s: block %d trials %r are no returned candidate set; '
                  'sets=%r' % (tag, b, bp, [m for _, m in sets][:4]))
    return


def _sibling_run(out, case, which):
  """Full oracle on a sibling layout (eagle, 50 evaluations, count 8).

  The score prefers the highest category of every feature, so stale (larger)
  category counts taken from another study surface as indices >= size.
  """
  from harness import c19_lib as lib
  sib = lib.sibling(case['layout'], which)
  info = lib.layout_info(sib)
  sc = {'t': [0.5] * 4, 'wd': 1.0, 'c': [max(0, s - 1) for s in
                                            (info['sizes'] + [1] * 4)[:4]],
        'wc': [1.0] * 4, 'kp': 0.0, 'bad': None, 'red': 0}
  sub_case = {'rebuild': False, 'sibling': False, 'layout': sib,
              'strategy': 'eagle', 'batch': 25, 'max_evaluations': 50,
              'count': 8, 'n_parallel': None, 'use_fori': True, 'n_prior': 0,
              'subs': [{'seed': case['subs'][0]['seed'], 'score': sc,
                        'prior': [], 'opt_prior': None}]}
  res = check(sub_case, _runs=1)
  for v in res.violations:
    out.violate('sibling_%s/%s' % (which, v['bucket']), v['detail'])
  for k, n in res.counters.items():
    out.count(k, n)


# ----------------------------------------------------------------------- check
def check(case, _runs=3):
  import datetime
  import jax
  import numpy as np
  from harness import c19_lib as lib
  from harness import spaces
  from vizier import pyvizier as vz
  from vizier._src.algorithms.optimizers import vectorized_base as vb

  out = core.Out()
  L = case['layout']
  info = lib.layout_info(L)
  conv, spec = lib.converter(L)
  strategy = case['strategy']
  batch = case['batch']
  count = case['count']
  n_parallel = case['n_parallel']
  par = n_parallel or 1
  n_prior = case['n_prior']
  nc, nk = info['n_cont'], info['n_cat']
  ncp, nkp = info['n_cont_pad'], info['n_cat_pad']
  sizes = info['sizes']
  steps = (case['max_evaluations'] - 1) // batch + 1
  assert case['max_evaluations'] >= 1 and count <= steps * batch, case
  ef = conv.to_features([])
  assert ef.continuous.shape[-1] == ncp and ef.categorical.shape[-1] == nkp, (
      'layout bookkeeping', ef.continuous.shape, ef.categorical.shape, info)
  assert len(conv.output_specs.continuous) == nc
  assert len(conv.output_specs.categorical) == nk

  padded = (ncp != nc) or (nkp != nk)
  pool = lib.eagle_pool_size(nc + nk, batch)
  # ---- classes of the static configuration
  out.cls('strategy_' + strategy, 'batch_%d' % batch,
          'n_parallel_%s' % n_parallel, 'use_fori_%s' % case['use_fori'],
          'pad_' + info['pad'])
  out.cls('padded_dims' if padded else 'no_padded_dims')
  out.cls('zero_continuous' if nc == 0 else
          'zero_categorical' if nk == 0 else 'mixed_layout')
  if 1 in sizes:
    out.cls('size1_category')
  if count > 1:
    out.cls('count_gt1')
  if count > batch:
    out.cls('count_gt_batch')
  if count == steps * batch:
    out.cls('count_eq_evaluations')
  if n_prior:
    out.cls('prior')
    if lib.padded_trials(n_prior, info['pad']) != n_prior:
      out.cls('prior_padded_trials')
    if n_prior // par == 0:
      out.cls('prior_fewer_than_n_parallel')
    if n_prior % par:
      out.cls('prior_remainder_dropped')
      if lib.padded_trials(n_prior, info['pad']) != n_prior:
        out.cls('prior_partial_batch_with_padding')
  if strategy == 'eagle':
    out.cls('eagle_budget_lt_pool' if steps * batch < pool
            else 'eagle_mutation_phase' if steps * batch > pool
            else 'eagle_budget_eq_pool')
  trig_random_pad = strategy == 'random' and padded
  trig_prior = bool(n_prior) and (strategy == 'random'
                                  or steps * batch < pool)
  if trig_random_pad:
    out.cls('known_trigger:random_padding')
  if trig_prior:
    out.cls('known_trigger:prior_not_merged')

  if case.get('sibling') and lib.has_sibling(L):
    # another "study" in the same process: same parameter names, kinds and
    # padding, larger category counts, optimised BEFORE the main layout ...
    out.cls('sibling_runs')
    _sibling_run(out, case, 'large')

  try:
    opt, jopt = lib.optimizer(L, strategy, batch, case['max_evaluations'],
                              case['use_fori'])
  except Exception as e:  # pylint: disable=broad-except
    out.violate('exception/build/%s/%s/%s' % (
        strategy, type(e).__name__, _vizier_frame(e)), repr(e))
    return out

  nt_keys = []
  first_box = [None]
  static = {k: v for k, v in case.items() if k != 'subs'}
  for si, sub in enumerate(case['subs']):
    tag = 'sub %d' % si
    # ---- priors through the real converter
    prior_mi = None
    p_cont = p_cat = None
    if n_prior:
      trials = []
      t0 = datetime.datetime(2024, 1, 1)
      for i, p in enumerate(sub['prior']):
        a = _assignment(spec, p['u'], p['k'])
        assert spaces.member(spec, a), (spec, a)
        tr = vz.Trial(parameters=a, id=i + 1)
        tr.creation_time = t0 + datetime.timedelta(seconds=i)
        trials.append(tr)
      prior_mi = vb.trials_to_sorted_array(trials, conv)
      p_cont = np.asarray(prior_mi.continuous.padded_array)[:n_prior]
      p_cat = np.asarray(prior_mi.categorical.padded_array)[:n_prior]
      assert p_cont.shape == (n_prior, ncp) and p_cat.shape == (n_prior, nkp)
      assert np.all((p_cont[:, :nc] >= 0) & (p_cont[:, :nc] <= 1)), p_cont
      assert all(np.all((p_cat[:, j] >= 0) & (p_cat[:, j] < s))
                 for j, s in enumerate(sizes)), p_cat
    t_over = c_over = None
    if sub.get('opt_prior') is not None and n_prior:
      j = sub['opt_prior'] % n_prior
      t_over, c_over = p_cont[j, :nc], p_cat[j, :nk]
      out.cls('optimum_on_prior')
    score = lib.make_score(sub['score'], info, parallel=n_parallel is not None,
                           t_override=t_over, c_override=c_over)
    sd = sub['score']
    scale = float(score.wd) * max(nc, 1) * par + float(
        np.sum(np.abs(np.asarray(score.wc)))) * par
    tol = 1e-5 * (1.0 + scale)
    bad_kind = int(score.bad_kind)
    if bad_kind:
      out.cls({'nan': 'score_nan_region', '-inf': 'score_neginf_region',
               '+inf': 'score_posinf_region'}[sd['bad']['val']])
      if bad_kind == 4:
        out.cls('score_region_is_target_point')
    if float(score.kp) > 0:
      out.cls('score_plateau')
    if nc and float(score.wd) > 0:
      tt = np.asarray(score.t)[:nc]
      out.cls('target_corner' if np.all((tt == 0) | (tt == 1))
              else 'target_interior' if np.all((tt > 0) & (tt < 1))
              else 'target_face')
    if nk and np.any(np.asarray(score.wc) > 0):
      out.cls('score_categorical_term')
      if not (nc and float(score.wd) > 0):
        out.cls('score_categorical_only')
    if float(score.wd) == 0 and not np.any(np.asarray(score.wc) > 0):
      out.cls('score_constant')

    rscore = lib.recording(score)

    def run(seed):
      del lib.LOG[:]
      kw = dict(count=count, n_parallel=n_parallel,
                seed=jax.random.PRNGKey(seed))
      if prior_mi is not None:
        kw['prior_features'] = prior_mi
      res = jopt(rscore, **kw)
      jax.block_until_ready(res)
      if seed == sub['seed'] and first_box[0] is None:
        first_box[0] = (rscore, kw, res)
      return res, list(lib.LOG)

    try:
      res, log = run(sub['seed'])
      if _runs == 1:  # sibling run: bounds / reward / decode clauses only
        res_other = res_again = res
      else:
        res_other, _ = run((sub['seed'] + 1) % (2**31))
        res_again, _ = run(sub['seed'])
      out.count(EVAL_COUNTER, _runs)
    except Exception as e:  # pylint: disable=broad-except
      out.count(EVAL_COUNTER, 1)
      kind = type(e).__name__
      out.violate('exception/call/%s/%s/%s' % (strategy, kind,
                                               _vizier_frame(e)),
                  '%s: %s' % (tag, repr(e)[:600]))
      break  # same static configuration: the other sub-cases fail alike

    nontrivial = count > 1 or bool(n_prior)
    if nontrivial:
      nt_keys.append(core.case_hash({'static': static, 'sub': sub}))

    fc = np.asarray(res.features.continuous)
    fk = np.asarray(res.features.categorical)
    rw = np.asarray(res.rewards)
    # ---- (1) shapes
    want = ((count, par, ncp), (count, par, nkp), (count,))
    got = (fc.shape, fk.shape, rw.shape)
    if got != want:
      out.violate('shape/%s' % ('features' if got[:2] != want[:2]
                                else 'rewards'),
                  '%s: got %r want %r' % (tag, got, want))
      continue
    if fc.dtype.kind != 'f' or fk.dtype.kind not in 'iu':
      out.violate('shape/dtype', '%s: %s %s' % (tag, fc.dtype, fk.dtype))
      continue
    # ---- (2) bounds, padding
    real_c = fc[..., :nc]
    if real_c.size:
      if np.any(np.isnan(real_c)):
        out.violate('bounds/continuous/nan/' + strategy,
                    '%s: %r' % (tag, real_c.tolist()))
      elif np.any(real_c < 0) or np.any(real_c > 1):
        out.violate('bounds/continuous/%s/%s' % (
            'below0' if np.any(real_c < 0) else 'above1', strategy),
                    '%s: min %r max %r' % (tag, float(real_c.min()),
                                           float(real_c.max())))
    for j, s in enumerate(sizes):
      col = fk[..., j]
      if np.any(col < 0) or np.any(col >= s):
        out.violate('bounds/categorical/%s/%s%s' % (
            'negative' if np.any(col < 0) else 'ge_size', strategy,
            '/size1' if s == 1 else ''),
                    '%s: feature %d size %d values %r' % (
                        tag, j, s, sorted(set(col.ravel().tolist()))))
    if ncp > nc:
      pc = fc[..., nc:]
      if np.any(pc != 0) or np.any(np.isnan(pc)):
        out.violate('padding/continuous_nonzero/' + strategy,
                    '%s: padded columns %r' % (tag, pc.reshape(-1, ncp - nc)
                                               [:3].tolist()))
    if nkp > nk:
      pk = fk[..., nk:]
      if np.any(pk != 0):
        out.violate('padding/categorical_nonzero/' + strategy,
                    '%s: padded columns %r' % (tag, pk.reshape(-1, nkp - nk)
                                               [:3].tolist()))
    # loop evaluations logged by the score function (prior scoring comes first)
    plog = log[:1] if prior_mi is not None else []
    llog = log[1:] if prior_mi is not None else log
    loop_r = (np.concatenate([l[2] for l in llog]) if llog
              else np.zeros([0], np.float32))
    # fewer real-valued evaluations than `count` although NaN-scored ones
    # exist: what fills the rest is decided by the ranking of NaN
    if np.any(loop_r == np.inf):
      out.cls('posinf_evaluated')
      if np.any(rw == np.inf):
        out.cls('posinf_returned')
    nan_shortfall = bool(np.sum(~np.isnan(loop_r)) < count
                         and np.any(np.isnan(loop_r)))
    # ---- (3) reported reward == score at the candidate
    if n_parallel is None:
      mine = np.asarray(score(lib.as_model_input(fc[:, 0, :], fk[:, 0, :])))
    else:
      mine = np.asarray(score(lib.as_model_input(fc, fk)))
    assert mine.shape == (count,), mine.shape
    nonfinite_seen = False
    for i in range(count):
      a, b = float(rw[i]), float(mine[i])
      if math.isnan(a) or math.isnan(b) or math.isinf(a) or math.isinf(b):
        nonfinite_seen = nonfinite_seen or math.isnan(a) or math.isinf(a)
        okv = (math.isnan(a) and math.isnan(b)) or a == b
      else:
        okv = abs(a - b) <= tol
      if okv:
        continue
      if not (math.isnan(a) or math.isinf(a) or math.isnan(b)
              or math.isinf(b)) and lib.near_plateau_edge(score, fc[i], fk[i]):
        out.cls('plateau_edge_tolerated')
        continue
      zero = (not np.any(fc[i] != 0)) and (not np.any(fk[i] != 0))
      rk = ('nan' if math.isnan(a) else 'neginf' if a == -math.inf
            else 'posinf' if a == math.inf else 'finite')
      if zero and rk == 'neginf' and nan_shortfall:
        out.violate('best/placeholder_outranks_nan/' + strategy,
                    '%s: candidate %d is the all-zero -inf placeholder, score '
                    'there is %r; loop rewards %r' % (tag, i, b,
                                                      loop_r.tolist()[:12]))
        break
      out.violate('reward/mismatch/reported_%s/%s' % (
          rk, 'all_zero_features' if zero else 'evaluated_features'),
                  '%s: candidate %d features=%r/%r reported=%r score=%r '
                  'rewards=%r' % (tag, i, fc[i].tolist(), fk[i].tolist(), a, b,
                                  rw.tolist()))
      break
    if nonfinite_seen:
      out.cls('nonfinite_reward_returned')
    # ---- (7) returned candidates were evaluated and are the top `count`
    n_evaluated = int(sum(l[2].shape[0] for l in llog))
    if len(llog) != steps:
      out.cls('loop_steps_differ_from_ceil')  # not part of the property
    if n_evaluated < count:
      # placeholders are unavoidable (NOT clause): nothing to judge here
      out.inconclusive = True
      continue
    nan_in_result = bool(np.any(np.isnan(rw)))
    if llog:
      e_c = np.concatenate([l[0].reshape((l[2].shape[0], par, ncp)) for l in llog])
      e_k = np.concatenate([l[1].reshape((l[2].shape[0], par, nkp)) for l in llog])
      e_r = np.concatenate([l[2] for l in llog])
      a_c, a_k, a_r = e_c, e_k, e_r
      if plog and plog[0][2].size:
        a_c = np.concatenate([e_c, plog[0][0].reshape((plog[0][2].shape[0], par, ncp))])
        a_k = np.concatenate([e_k, plog[0][1].reshape((plog[0][2].shape[0], par, nkp))])
        a_r = np.concatenate([e_r, plog[0][2]])
      for i in range(count):
        hit = (np.all(a_c == fc[i], axis=(1, 2))
               & np.all(a_k == fk[i], axis=(1, 2))
               & ((a_r == rw[i]) | (np.isnan(a_r) & np.isnan(rw[i]))))
        if not np.any(hit):
          zero = (not np.any(fc[i] != 0)) and (not np.any(fk[i] != 0))
          if zero and rw[i] == -np.inf and nan_shortfall:
            out.violate('best/placeholder_outranks_nan/' + strategy,
                        '%s: candidate %d is the never evaluated all-zero '
                        '-inf placeholder; loop rewards %r' % (
                            tag, i, loop_r.tolist()[:12]))
            break
          out.violate('evaluated/candidate_never_evaluated/%s' % (
              'all_zero_features' if zero else 'other'),
                      '%s: candidate %d features=%r/%r reward=%r' % (
                          tag, i, fc[i].tolist(), fk[i].tolist(), float(rw[i])))
          break
      valid = np.sort(e_r[~np.isnan(e_r)])[::-1]
      mine_sorted = np.sort(np.where(np.isnan(rw), -np.inf, rw))[::-1]
      if valid.size >= count:
        out.cls('topk_clause_active')
        if np.any(mine_sorted < valid[:count]):
          if nan_in_result:
            out.violate('best/nan_outranks_number/' + strategy,
                        '%s: returned rewards %r, top evaluated %r' % (
                            tag, rw.tolist(), valid[:count].tolist()))
          else:
            out.violate('best/not_top_count/' + strategy,
                        '%s: returned rewards %r, top evaluated %r' % (
                            tag, sorted(rw.tolist(), reverse=True),
                            valid[:count].tolist()))
      else:
        out.cls('fewer_valid_evaluations_than_count')
      if np.unique(e_r[~np.isnan(e_r)]).size < min(count, e_r.size):
        out.cls('tied_rewards')
    # ---- (4) not worse than the best seeded prior
    if n_prior and n_prior // par > 0:
      g = n_prior // par
      if n_parallel is None:
        ps = np.asarray(score(lib.as_model_input(p_cont, p_cat)))
      else:
        ps = np.asarray(score(lib.as_model_input(
            p_cont[:g * par].reshape(g, par, ncp),
            p_cat[:g * par].reshape(g, par, nkp))))
      valid = ps[~np.isnan(ps)]
      if valid.size and valid.max() > -math.inf:
        best_prior = float(valid.max())
        out.cls('prior_clause_active')
        rv = rw[~np.isnan(rw)]
        best = float(rv.max()) if rv.size else float('nan')
        if not best >= best_prior - tol:
          sub_b = (strategy + ('/budget_lt_pool' if steps * batch < pool
                               else '/budget_ge_pool')
                   if strategy == 'eagle' else strategy)
          if nan_in_result:
            sub_b += '/nan_in_result'
          out.violate('prior/worse_than_best_prior/' + sub_b,
                      '%s: best returned %r < best prior %r (prior scores %r)'
                      % (tag, best, best_prior, ps.tolist()))
        elif best <= best_prior + tol:
          out.cls('best_prior_is_the_result')
    # ---- (5) determinism
    if not (_same(res.features.continuous, res_again.features.continuous)
            and _same(res.features.categorical, res_again.features.categorical)
            and _same(res.rewards, res_again.rewards)):
      out.violate('determinism/same_seed_differs/' + strategy, tag)
    if not (_same(res.features.continuous, res_other.features.continuous)
            and _same(res.features.categorical,
                      res_other.features.categorical)):
      out.cls('other_seed_other_result')
    # ---- (6) decode
    params = None
    try:
      params = conv.to_parameters(lib.as_model_input(
          fc.reshape(count * par, ncp)[:, :nc],
          fk.reshape(count * par, nkp)[:, :nk]))
      if len(params) != count * par:
        out.violate('decode/count', '%s: %d' % (tag, len(params)))
      for pd in params:
        why = spaces.member_reason(spec, spaces.param_values_to_py(pd))
        if why:
          out.violate('decode/not_member/to_parameters', '%s: %s' % (tag, why))
          break
    except Exception as e:  # pylint: disable=broad-except
      if not any(v['bucket'].startswith(('bounds/', 'padding/'))
                 for v in out.violations):
        out.violate('decode/exception/to_parameters/%s' % type(e).__name__,
                    '%s: %r' % (tag, e))
    if not np.any(np.isnan(rw)):
      try:
        trials = vb.best_candidates_to_trials(res, conv)
        if len(trials) != count * par:
          out.violate('decode/count/best_candidates_to_trials',
                      '%s: %d' % (tag, len(trials)))
        for tr in trials:
          why = spaces.member_reason(
              spec, spaces.param_values_to_py(tr.parameters))
          if why:
            out.violate('decode/not_member/best_candidates_to_trials',
                        '%s: %s' % (tag, why))
            break
        if params is not None and len(trials) == count * par == len(params):
          _check_trials(out, tag, trials, params, rw, count, par)
      except Exception as e:  # pylint: disable=broad-except
        if not any(v['bucket'].startswith(('bounds/', 'padding/'))
                   for v in out.violations):
          out.violate('decode/exception/best_candidates_to_trials/%s/%s' % (
              type(e).__name__, _vizier_frame(e)), '%s: %r' % (tag, e))

  if case.get('sibling') and lib.has_sibling(L):
    # ... and one with smaller category counts AFTER it
    _sibling_run(out, case, 'small')
  # ---- (5b) same seed on a freshly built (re-traced, re-compiled) optimiser
  first = first_box[0]
  if case.get('rebuild') and first is not None:
    key = (L, strategy, batch, case['max_evaluations'], case['use_fori'])
    lib._OPT.pop(key, None)  # pylint: disable=protected-access
    try:
      _, jopt2 = lib.optimizer(*key)
      del lib.LOG[:]
      res2 = jopt2(first[0], **first[1])
      jax.block_until_ready(res2)
      out.count(EVAL_COUNTER, 1)
      out.cls('rebuilt_optimizer')
      if not (_same(res2.features.continuous, first[2].features.continuous)
              and _same(res2.features.categorical,
                        first[2].features.categorical)
              and _same(res2.rewards, first[2].rewards)):
        out.violate('determinism/fresh_optimizer_differs/' + strategy,
                    'rewards %r vs %r' % (np.asarray(res2.rewards).tolist(),
                                          np.asarray(first[2].rewards).tolist()))
    except Exception as e:  # pylint: disable=broad-except
      out.violate('exception/call/%s/%s/%s' % (
          strategy, type(e).__name__, _vizier_frame(e)), 'rebuild: %r' % e)
  if nt_keys:
    out.nontrivial = True
    out.nt_keys = nt_keys
  return out


# ---------------------------------------------------------------------------
# L-BFGS-B (continuous features only; same result type as the vectorised
# optimiser): count, unit cube, reported reward = score at the candidate,
# padding dimensions are zero, same seed -> same result
# ---------------------------------------------------------------------------
def lbfgsb_strategy():
  from hypothesis import strategies as st
  unit = st.sampled_from([0.0, 1.0, 0.5, 0.2, 0.9, 0.37])
  return st.fixed_dictionaries({
      'n': st.integers(1, 5),
      'pad_extra': st.sampled_from([0, 1, 1, 2, 3, 5]),
      'count': st.integers(1, 3),
      'restarts': st.sampled_from([3, 4, 6]),
      'maxiter': st.sampled_from([3, 10]),
      'seed': st.integers(0, 2 ** 16),
      'centre': st.lists(unit, min_size=5, max_size=5),
      # where the optimum sits: inside, at a corner (outside the cube), or a
      # direction (linear score)
      'shape': st.sampled_from(['bowl', 'bowl', 'outside', 'linear']),
  })


def check_lbfgsb(case):
  from harness import boot
  boot.init()
  import jax
  import jax.numpy as jnp
  import numpy as np
  from vizier._src.algorithms.optimizers import lbfgsb_optimizer as lo
  from vizier._src.jax import types
  out = core.Out()
  n, pad = case['n'], case['n'] + case['pad_extra']
  c = jnp.asarray(case['centre'][:n])
  if case['shape'] == 'outside':
    c = c * 3.0 - 1.0

  def score(x, rng):
    del rng
    a = x.continuous.padded_array[..., :n]
    if case['shape'] == 'linear':
      return jnp.sum(a * (c - 0.45), axis=-1)
    return -jnp.sum((a - c) ** 2, axis=-1)

  def run():
    opt = lo.LBFGSBOptimizer(
        n_feature_dimensions=types.ContinuousAndCategorical(
            jnp.array(n), jnp.array(0)),
        n_feature_dimensions_with_padding=types.ContinuousAndCategorical(
            pad, 0),
        random_restarts=case['restarts'], maxiter=case['maxiter'])
    r = opt(score, count=case['count'],
            seed=jax.random.PRNGKey(case['seed']))
    return (np.asarray(r.features.continuous, dtype=np.float64),
            np.asarray(r.features.categorical), np.asarray(
                r.rewards, dtype=np.float64))
  try:
    f, cat, rew = run()
  except Exception as e:  # pylint: disable=broad-except
    out.violate('lbfgsb/raises/%s' % type(e).__name__, repr(e)[:300])
    return out
  out.cls('lbfgsb', 'lbfgsb_' + case['shape'])
  out.count(EVAL_COUNTER, 2)
  if pad > n:
    out.cls('lbfgsb_padded')
  if f.shape != (case['count'], 1, pad) or rew.shape != (case['count'],):
    out.violate('lbfgsb/count', 'features %r rewards %r for count=%d pad=%d' % (
        f.shape, rew.shape, case['count'], pad))
    return out
  if cat.shape[-1] != 0:
    out.violate('lbfgsb/categorical_not_empty', repr(cat.shape))
  if not np.all(np.isfinite(f)) or f.min() < 0.0 or f.max() > 1.0:
    out.violate('lbfgsb/outside_unit_cube', 'min %r max %r' % (
        f.min(), f.max()))
  if pad > n and np.any(f[..., n:] != 0.0):
    out.violate('lbfgsb/padding_leak', 'padding dimensions %d..%d hold %r' % (
        n, pad - 1, f[..., n:].tolist()))
  for i in range(case['count']):
    a = f[i, 0, :n]
    if case['shape'] == 'linear':
      want = float(np.sum(a * (np.asarray(c, dtype=np.float64) - 0.45)))
    else:
      want = float(-np.sum((a - np.asarray(c, dtype=np.float64)) ** 2))
    if abs(want - rew[i]) > 1e-5 * (1.0 + abs(want)):
      out.violate('lbfgsb/reward_mismatch', 'candidate %d %r: reported %r, '
                  'score there %r' % (i, a.tolist(), rew[i], want))
  try:
    f2, _, rew2 = run()
    if not (np.array_equal(f, f2) and np.array_equal(rew, rew2)):
      out.violate('lbfgsb/not_deterministic', 'same seed, different result')
  except Exception as e:  # pylint: disable=broad-except
    out.violate('lbfgsb/raises_second_run/%s' % type(e).__name__, repr(e)[:300])
  out.nontrivial = pad > n
  return out


def families(tier):
  return [
      core.Family('lbfgsb', check_lbfgsb, strategy=lbfgsb_strategy,
                  budget={'quick': 32, 'thorough': 600},
                  shards={'quick': 8, 'thorough': 16},
                  required_classes=('lbfgsb_padded', 'lbfgsb_bowl')),
      core.Family(
          'optimize', check,
          strategy=strategy_quick if tier == 'quick' else strategy_thorough,
          budget={'quick': 144, 'thorough': 2400},
          shards={'quick': 16, 'thorough': 32},
          required_classes=(
              'strategy_eagle', 'strategy_random', 'padded_dims',
              'zero_continuous', 'zero_categorical', 'mixed_layout',
              'size1_category', 'count_gt1', 'count_gt_batch', 'prior',
              'prior_padded_trials', 'optimum_on_prior', 'prior_clause_active',
              'score_nan_region', 'score_neginf_region', 'score_plateau',
              'score_posinf_region', 'posinf_evaluated', 'posinf_returned',
              'prior_partial_batch_with_padding', 'sibling_runs',
              'trials_clause_distinct_sets',
              'target_corner', 'target_interior', 'score_categorical_only',
              'n_parallel_None', 'n_parallel_1', 'n_parallel_2',
              'use_fori_True', 'use_fori_False', 'eagle_mutation_phase',
              'batch_1', 'batch_5', 'batch_25'),
          max_shrink_s={'quick': 60, 'thorough': 180}),
  ]
