"""C14 Seeded algorithms and benchmark runs are reproducible.

Oracle: metamorphic relations between *executions* (never a model of an
algorithm).  A "run" is a JSON description (designer + constructor arguments +
seed + problem + the feedback the trials receive); `harness/c14_lib.py`
executes it with a fresh designer inside an execution environment and returns
the observed suggestions (or, for the benchmark path, the trial sequence).

  R1  same seed, same problem, same history  =>  identical suggestion lists.
      Execution pairs:
        fresh_instance     the same run twice in one process (same
                           environment, a new designer instance);
        perturbed_globals  the run again after `np.random.seed`, `random.seed`
                           were set to other values (also between the designer
                           calls), `time.time` patched to another instant and
                           an unrelated study of the same designer class was
                           run first;
        fresh_process      the run in a new interpreter started with a
                           different PYTHONHASHSEED (and other global RNG
                           seeds / clock).
      Parameter dicts are compared by name; floats bit-equal (0.0 != -0.0,
      int != float) inside one process and, across processes, bit-equal for
      the numpy designers and within rtol=1e-12 for the jit-compiled ones
      (cmaes, gp_bandit, gp_ucb_pe) - the tolerance stated in the design.
  R2  the seed is used: K=6 pairwise different seeds in the SAME environment
      with the same problem and feedback give observations that are not all
      identical.  Judged only on streams of >= 8 suggestions on spaces where
      K coinciding streams have probability < 1e-9 by construction (a DOUBLE
      parameter of non-zero width; for the shuffled grid additionally a
      stream of min(G,256) suggestions, which reveals >= 64 equally likely
      orderings).  GP designers: judged on the stream that starts from an
      empty history (seeding phase: quasi-random points drawn from the rng),
      not on the model-based call alone (a clipped optimum on the boundary
      may legitimately coincide for all seeds).
      Shuffled grid only (its docstring: shuffle_seed None = "the given
      ordering", anything else = shuffled): no seeded order - seed 0 included
      - equals the unshuffled order; judged when 256 suggestions reveal the
      whole grid and it has >= 1e12 orderings.
  R3  R1 for `BenchmarkStateFactory(seed)` + `BenchmarkRunner` (trial ids,
      status, parameters, final measurements of all trials) on Branin / BBOB
      (optionally discretised / categorised / shifted / noisy with a noise
      seed) / SimpleKD, and R2 through the benchmark path (seed ->
      InRamDesignerPolicy -> designer factory).  35 % of the protocols contain
      `EvaluateAndAddPriorStudy(seed=...)` steps (before the main loop or in
      every repeat, named or unnamed, same or another designer/benchmark): the
      compared record then includes the trials of every prior study attached
      to the supporter (GetTrials(study_guid=...), insertion order), and R2 is
      also judged for the seed of the first prior study.

Not demanded: equality of suggestion metadata (the GP designers write wall
clock durations there), any relation between different designers, anything
about runs without an integer seed (seed=None means "unseeded"), equality of
private state.  A run whose FIRST execution raises is compared like any other
(the same exception type at the same call is "identical"); it is counted in a
class `first_run_raises:*`.

Families
  gp, gp_xproc     GP designers (tfp/jax stack, tiny budgets, reduced
                   optimiser budgets through public constructor arguments)
  cheap            R1 (fresh_instance + perturbed_globals) for random,
                   quasi-random, shuffled grid, eagle, NSGA-II, CMA-ES
  seeds            R2 for the same designers
  bench            R3 + R2 through the benchmark path
  xproc            R1/R3 fresh_process: a batch of runs per fresh interpreter
"""
import copy

from hypothesis import strategies as st

from harness import c14_lib as lib
from harness import core
from harness import spaces

ID = 'C14'
LEVEL = 'exploration'
RULE = ('Hypothesis-generated seeded runs: designer (random, quasi-random, '
        'shuffled grid, eagle, NSGA-II, CMA-ES; GP bandit and GP-UCB-PE in '
        'their own small families) x entry point (constructor seed/rng '
        'argument, from_problem, BenchmarkStateFactory(seed)) x flat space of '
        'the kinds the designer supports x integer seed (0 over-weighted) x '
        'optional foreign prior history x 1..8 suggest calls of 1..5 with '
        'drawn feedback (ties, infeasible, left active) x execution pair '
        '(fresh instance; perturbed numpy/python global RNG + clock + '
        'unrelated study first; fresh subprocess with another '
        'PYTHONHASHSEED). Non-trivial = the space has a parameter with >=3 '
        'feasible values / non-zero width AND, for model-based designers '
        '(eagle, NSGA-II, CMA-ES, GP), at least one compared suggest call '
        'follows an update with completed trials; R2 cases additionally have '
        'K pairwise different seeds and >=8 suggestions per stream. '
        'distinct = SHA-1 of the canonical JSON case.')
ASSUMPTIONS = [
    'the first execution of a run is the reference; only differences between '
    'two executions of the same description are judged',
    'unittest.mock patches time.time inside designer / runner calls only; '
    'the global numpy / python RNG states are set by the harness at the start '
    'of every execution and before every designer call',
    'the GP designers run with reduced optimiser budgets '
    '(max_evaluations<=500, ARD maxiter<=5, 1 restart) passed through public '
    'constructor arguments',
    'fresh-process observations travel as JSON (python float repr round-trips '
    'exactly)',
    'R2 is probabilistic in principle: K seeded streams coincide by chance '
    'with probability < 1e-9 on the generated spaces',
]

MODEL_BASED = ('eagle', 'nsga2', 'cmaes') + lib.GP
HAS_FROM_PROBLEM = ('random', 'quasi', 'grid', 'gp_bandit')
K_SEEDS = 6
XPROC_TIMEOUT = 1500


# ===========================================================================
# strategies
# ===========================================================================
def _mix(percent):
  """Boolean, True with the given probability (no boundary bias)."""
  return st.integers(0, 2 ** 32 - 1).map(
      lambda x: (((x + 12345) * 2654435761 % 2 ** 32) >> 8) % 100 < percent)


def _not_simplest():
  """Makes Hypothesis' all-simplest first example of a shard invalid.

  Every shard starts with the example in which every draw takes its simplest
  value - the same case in every shard.  Families with 1-2 examples per
  shard (one fresh interpreter or one GP run per example) would spend half
  of their budget on it."""
  return st.integers(0, 7).filter(bool)


def _designer(designers):
  """Even shares (bit-mixed index); CMA-ES gets a smaller share where it is
  mixed with the numpy designers: every new (dimension, pop_size, count)
  combination re-compiles its jitted sampling code (2-4 s)."""
  pool = []
  for d in designers:
    pool += [d] * (1 if d == 'cmaes' and len(designers) > 1 else 2)
  return st.integers(0, 2 ** 32 - 1).map(
      lambda x: pool[(((x + 977) * 2654435761 % 2 ** 32) >> 7) % len(pool)])


def _seed():
  # 0 is the interesting integer seed (`seed or default` defects)
  return st.one_of(st.sampled_from([0, 0, 0, 1, 42, 2 ** 31 - 1]),
                   st.integers(0, 2 ** 31 - 1), st.integers(0, 2 ** 31 - 1))


def _seeds(k):
  """k pairwise different seeds (by construction), 0 often among them."""
  return st.lists(st.one_of(st.sampled_from([0, 1, 2, 42]),
                            st.integers(0, 2 ** 31 - 1)),
                  min_size=k, max_size=k, unique=True)


VALUES = [0.0, 1.0, 1.0, -1.0, 2.5, 7.0, 1e-9, -3e5]


def _value():
  return st.one_of(
      st.sampled_from(VALUES),
      st.floats(min_value=-1e6, max_value=1e6, allow_nan=False,
                allow_infinity=False).map(lambda v: round(v, 3)))


def _feedback(n_values, inf=True, inf0=True, skip=True, eager=False):
  vals = st.lists(_value(), min_size=n_values, max_size=n_values)
  opts = [st.tuples(st.just('ok'), vals).map(list)] * (12 if eager else 6)
  if inf:
    opts.append(st.tuples(st.just('inf'), vals).map(list))
    if inf0:
      opts.append(st.just(['inf0']))
  if skip:
    opts += [st.just(['skip'])] * (1 if eager else 2)
  return st.one_of(*opts)


@st.composite
def _steps(draw, n_values, designer, min_steps=1, max_steps=8, max_count=5):
  inf0 = designer != 'nsga2'  # NSGA-II needs every metric on every trial
  eager = designer in MODEL_BASED
  n = draw(st.integers(min_steps, max_steps))
  if designer == 'cmaes':
    max_count = min(max_count, 3)  # few distinct jit shapes
  out = []
  for _ in range(n):
    count = draw(st.integers(1, max_count))
    fb = draw(st.lists(_feedback(n_values, inf0=inf0, eager=eager),
                       min_size=4 if eager else 0, max_size=8))
    out.append({'count': count, 'fb': fb})
  return out


def _with_double(spec, draw):
  """Guarantees a DOUBLE parameter of non-zero width (R2 precondition)."""
  if any(p['kind'] == 'DOUBLE' and p['lo'] != p['hi'] for p in spec['params']):
    return spec
  spec = copy.deepcopy(spec)
  lo, hi = draw(st.sampled_from([(0.0, 1.0), (-5.0, 5.0), (1e-3, 10.0)]))
  scale = draw(st.sampled_from([None, 'LINEAR', 'LOG'])) if lo > 0 else None
  spec['params'].append({'name': 'dd', 'kind': 'DOUBLE', 'lo': lo, 'hi': hi,
                         'scale': scale})
  return spec


@st.composite
def _space(draw, designer, need_double=False, max_params=4):
  if designer == 'cmaes':
    spec = draw(spaces.flat_space(min_params=2, max_params=min(max_params, 3),
                                  kinds=('DOUBLE',), degenerate=False))
  elif designer in ('nsga2',) + lib.GP:
    spec = draw(spaces.flat_space(min_params=1, max_params=max_params,
                                  kinds=lib.KINDS[designer],
                                  degenerate=False))
  else:
    spec = draw(spaces.flat_space(min_params=1, max_params=max_params,
                                  kinds=lib.KINDS[designer], degenerate=True))
  spec = lib.tame(spec)
  if need_double:
    spec = _with_double(spec, draw)
  return spec


@st.composite
def _opts(draw, designer, r2=False):
  o = {}
  if designer == 'quasi':
    o['skip_points'] = draw(st.sampled_from([1000, 1000, 0, 1, 17]))
  elif designer == 'grid':
    o['double_grid_resolution'] = draw(st.sampled_from(
        [10, 10, 5, 7] if r2 else [10, 10, 2, 3, 5]))
  elif designer == 'eagle':
    cfg = {}
    if draw(st.integers(0, 3)) > 0:
      cfg['max_pool_size'] = draw(st.sampled_from([2, 3, 5]))
    if draw(st.integers(0, 3)) == 0:
      cfg['penalize_factor'] = draw(st.sampled_from([0.05, 0.001]))
    if draw(st.integers(0, 5)) == 0:
      cfg['explore_rate'] = 1.5
    if cfg:
      o['config'] = cfg
  elif designer == 'nsga2':
    o['population_size'] = draw(st.sampled_from([2, 3, 5, 50]))
    o['first_survival_after'] = draw(st.sampled_from([None, 1, 2, 4, 6]))
    o['eviction_limit'] = draw(st.sampled_from([None, None, 1, 3]))
  elif designer == 'cmaes':
    o['pop_size'] = draw(st.sampled_from([4, 4, 6]))
  return o


def _entry(designer):
  if designer in HAS_FROM_PROBLEM:
    return st.sampled_from(['ctor', 'from_problem'])
  return st.just('ctor')


@st.composite
def _metrics(draw, designer):
  if designer == 'nsga2':
    n = draw(st.sampled_from([1, 2, 2, 3]))
  else:
    n = 1
  return [['m%d' % i, draw(st.sampled_from(['MAXIMIZE', 'MINIMIZE']))]
          for i in range(n)]


@st.composite
def _prior(draw, spec, n_values, designer, min_size=0, max_size=6):
  if min_size == 0 and designer not in MODEL_BASED and draw(_mix(70)):
    return []
  inf0 = designer != 'nsga2'
  n = draw(st.integers(min_size, max_size))
  return [[draw(spaces.point_in(spec)),
           draw(_feedback(n_values, inf0=inf0, skip=False, eager=True))]
          for _ in range(n)]


@st.composite
def stream_run(draw, designers=lib.CHEAP, r2=False):
  designer = draw(_designer(designers))
  opts = draw(_opts(designer, r2))
  if r2 and designer == 'grid' and draw(_mix(45)):
    # a grid that 256 suggestions reveal completely and that has >= 1e12
    # orderings: lets the check compare every seeded order with the
    # documented unshuffled one (see check_seeds)
    lo = draw(st.sampled_from([0, 1, -3]))
    params = [{'name': 'gi', 'kind': 'INTEGER', 'lo': lo,
               'hi': lo + draw(st.sampled_from([15, 20, 40])), 'scale': None}]
    if draw(st.booleans()):
      k = draw(st.integers(2, 5))
      params.append({'name': 'gc', 'kind': 'CATEGORICAL',
                     'values': ['a', 'b', 'c', 'dd', 'e'][:k]})
    if draw(st.booleans()):
      params.reverse()
    spec = {'params': params}
  else:
    spec = draw(_space(designer, need_double=r2))
  metrics = draw(_metrics(designer))
  steps = draw(_steps(len(metrics), designer, min_steps=2 if r2 else 1))
  if r2:
    # >= 8 suggestions per stream; the shuffled grid reveals min(G, 256)
    if designer == 'grid':
      steps = [{'count': 256, 'fb': []}] + steps
    elif sum(s['count'] for s in steps) < 8:
      steps = steps + [{'count': 3, 'fb': []}] * 3
  return {
      'designer': designer, 'entry': draw(_entry(designer)), 'opts': opts,
      'space': spec, 'metrics': metrics, 'seed': draw(_seed()),
      'prior': draw(_prior(spec, len(metrics), designer)), 'steps': steps,
  }


@st.composite
def envs(draw, designer=None):
  """Two environments that differ in every component (by construction)."""
  a = {'np': draw(st.integers(0, 2 ** 31 - 1)),
       'py': draw(st.integers(0, 2 ** 31 - 1)),
       'time': draw(st.integers(1_000_000_000, 1_900_000_000))}
  b = {'np': (a['np'] + draw(st.integers(1, 10 ** 6))) % 2 ** 31,
       'py': (a['py'] + draw(st.integers(1, 10 ** 6))) % 2 ** 31,
       'time': a['time'] + draw(st.sampled_from([1, 7, 3600, 86400, 10 ** 7]))}
  if draw(_mix(80)):
    b['unrelated'] = {
        'designer': designer if designer in lib.CHEAP and draw(_mix(75))
                    else draw(st.sampled_from(['random', 'quasi', 'grid',
                                               'eagle', 'nsga2'])),
        'seed': draw(_seed()), 'n': draw(st.integers(1, 3)),
        'rounds': draw(st.integers(1, 2))}
  return {'a': a, 'b': b}


@st.composite
def policy_strategy(draw):
  """A hostable designer behind a per-request policy, its stored state damaged
  before some requests; K_SEEDS seeds for the 'seed is still used' clause."""
  run = draw(stream_run(designers=lib.HOSTABLE))
  run['prior'] = []
  steps = run['steps']
  while len(steps) < 3:
    steps.append({'count': draw(st.integers(1, 4)), 'fb': []})
  k = draw(st.integers(1, len(steps) - 1))
  run['damage'] = sorted({k} | set(draw(st.lists(
      st.integers(1, len(steps) - 1), max_size=2))))
  # >= 8 suggestions after the first damaged request
  while sum(s_['count'] for s_ in steps[k:]) < 8:
    steps.append({'count': 4, 'fb': []})
  # entries stay present but become undecodable (all of them / one of them);
  # *deleting* entries is not generated: a designer cannot tell a deleted
  # entry from one that was never written (eagle reads a missing version
  # entry as "first call"), which is a different question from C14's
  run['damage_style'] = draw(st.sampled_from(
      ['lost_all', 'truncate_all']) | st.tuples(
          st.sampled_from(['lost_one', 'truncate_one']),
          st.integers(0, 7)).map(lambda t: '%s:%d' % t))
  seeds = draw(_seeds(K_SEEDS))
  run['seed'] = seeds[0]
  return {'run': run, 'seeds': seeds, 'envs': draw(envs(run['designer']))}


@st.composite
def cheap_strategy(draw):
  run = draw(stream_run())
  return {'run': run, 'envs': draw(envs(run['designer']))}


@st.composite
def seeds_strategy(draw):
  run = draw(stream_run(r2=True))
  seeds = draw(_seeds(K_SEEDS))
  run['seed'] = seeds[0]
  return {'run': run, 'seeds': seeds,
          'env': draw(envs(run['designer']))['a']}


# ---------------------------------------------------------------- benchmark
# all single-objective BBOB functions of bbob.py
BBOB = ['Sphere', 'Rastrigin', 'BuecheRastrigin', 'LinearSlope',
        'AttractiveSector', 'StepEllipsoidal', 'RosenbrockRotated',
        'Ellipsoidal', 'Discus', 'BentCigar', 'SharpRidge', 'DifferentPowers',
        'Weierstrass', 'SchaffersF7', 'SchaffersF7IllConditioned',
        'GriewankRosenbrock', 'Schwefel', 'Katsuura', 'Lunacek',
        'Gallagher101Me', 'Gallagher21Me', 'NegativeSphere',
        'NegativeMinDifference']
NOISE = ['MODERATE_GAUSSIAN', 'SEVERE_UNIFORM', 'SEVERE_SELDOM_CAUCHY',
         'LIGHT_ADDITIVE_GAUSSIAN', 'SEVERE_ADDITIVE_GAUSSIAN']


@st.composite
def _experimenter(draw, designer):
  doubles_only = designer == 'cmaes'
  kind = draw(st.sampled_from(['branin', 'bbob', 'bbob', 'bbob'] + (
      [] if doubles_only else ['simplekd', 'simplekd'])))
  noise = None
  if draw(_mix(30)):
    noise = [draw(st.sampled_from(NOISE)), draw(st.sampled_from(
        [0, 1, 7, 123456]))]
  if kind == 'branin':
    return {'kind': 'branin', 'noise': noise}
  if kind == 'simplekd':
    return {'kind': 'simplekd', 'best_category': draw(st.sampled_from(
        ['corner', 'center', 'mixed'])), 'n': draw(st.integers(1, 2)),
            'relative': draw(st.booleans()), 'noise': noise}
  dim = draw(st.integers(2, 4))
  ex = {'kind': 'bbob', 'name': draw(st.sampled_from(BBOB)), 'dim': dim,
        'rotation_seed': draw(st.sampled_from([0, 0, 1, 5])), 'noise': noise}
  if not doubles_only and draw(_mix(50)):
    # discretise / categorise some (never all: one DOUBLE stays) dimensions
    idx = draw(st.lists(st.integers(0, dim - 1), min_size=1, max_size=dim - 1,
                        unique=True))
    cut = draw(st.integers(0, len(idx)))
    ex['discrete'] = [[i, draw(st.integers(2, 6))] for i in sorted(idx[:cut])]
    ex['categorical'] = [[i, draw(st.integers(2, 5))]
                         for i in sorted(idx[cut:])]
  if draw(_mix(25)):
    ex['shift'] = [draw(st.sampled_from([0.0, 0.5, -1.25, 2.0]))
                   for _ in range(dim)]
  return ex


@st.composite
def _protocol(draw, max_count=4):
  style = draw(st.sampled_from(['batch', 'split', 'split', 'mixed']))
  if style == 'batch':
    return [['suggest_evaluate', draw(st.integers(1, max_count))]]
  if style == 'split':
    return [['suggest', draw(st.integers(1, max_count))],
            ['evaluate', draw(st.sampled_from([None, None, 1, 2]))]]
  # at least one unconditional suggestion per repeat
  ops = [['suggest', draw(st.integers(1, 3))]]
  for _ in range(draw(st.integers(1, 3))):
    ops.append(draw(st.one_of(
        st.tuples(st.just('suggest'), st.integers(1, 3)),
        st.tuples(st.just('evaluate'), st.sampled_from([None, 1, 2])),
        st.tuples(st.just('suggest_evaluate'), st.integers(1, 3)),
        st.tuples(st.just('fill'), st.integers(1, 4))).map(list)))
  return ops


@st.composite
def _bench_core(draw, designer, experimenter=None):
  """The keys that describe one benchmark (main or prior study)."""
  protocol = draw(_protocol(3 if designer == 'cmaes' else 4))
  # >= 8 suggestions per run (R2 precondition), by construction
  per_repeat = sum(op[1] for op in protocol
                   if op[0] in ('suggest', 'suggest_evaluate'))
  # (shuffled grid: >= 64 suggestions, which reveal >= 64 equally likely
  # orderings whatever the shuffled axis order is)
  need = 64 if designer == 'grid' else 8
  repeats = max(draw(st.integers(2, 6)), -(-need // per_repeat))
  return {
      'designer': designer, 'entry': draw(_entry(designer)),
      'opts': draw(_opts(designer, r2=True)),
      'experimenter': experimenter or draw(_experimenter(designer)),
      'seed': draw(_seed()),
      'via': draw(st.sampled_from(['exptr_factory', 'exptr'])),
      'protocol': protocol,
      'repeats': repeats,
  }


@st.composite
def _prior_study(draw, main, index):
  """An EvaluateAndAddPriorStudy(seed=...) step of the protocol."""
  designer = main['designer']
  if designer != 'cmaes' and draw(_mix(50)):
    designer = draw(_designer([d for d in lib.CHEAP if d != 'cmaes']))
  # usually the prior study is a run of the same benchmark
  same = designer != 'cmaes' or main['designer'] == 'cmaes'
  ex = main['experimenter'] if same and draw(_mix(60)) else None
  ps = draw(_bench_core(designer, ex))
  ps['guid'] = None if draw(_mix(20)) else 'prior%d' % index
  ps['where'] = ('each_repeat' if ps['guid'] and main['repeats'] <= 4
                 and draw(_mix(25)) else 'before')
  return ps


@st.composite
def bench_run(draw, designers=lib.CHEAP, prior_percent=35):
  run = draw(_bench_core(draw(_designer(designers))))
  run['second_state'] = draw(_mix(30))
  if draw(_mix(prior_percent)):
    run['prior_studies'] = [draw(_prior_study(run, i)) for i in range(
        2 if draw(_mix(20)) else 1)]
  return run


@st.composite
def bench_strategy(draw):
  run = draw(bench_run())
  seeds = draw(_seeds(K_SEEDS))
  run['seed'] = seeds[0]
  case = {'run': run, 'seeds': seeds, 'envs': draw(envs(run['designer']))}
  if run.get('prior_studies'):
    case['prior_seeds'] = draw(_seeds(K_SEEDS))
    run['prior_studies'][0]['seed'] = case['prior_seeds'][0]
  return case


@st.composite
def xproc_strategy(draw):
  draw(_not_simplest())
  n = draw(st.integers(4, 9))
  items = []
  for _ in range(n):
    if draw(_mix(30)):
      items.append({'kind': 'bench',
                    'run': draw(bench_run(prior_percent=50))})
    else:
      items.append({'kind': 'stream', 'run': draw(stream_run())})
  return {'hashseed': draw(st.integers(1, 2 ** 32 - 1)), 'items': items,
          'envs': draw(envs())}


# ----------------------------------------------------------------------- GP
@st.composite
def gp_run(draw, max_params=3, designer=None):
  designer = designer or draw(_designer(lib.GP))
  spec = draw(_space(designer, need_double=True, max_params=max_params))
  metrics = [['m0', draw(st.sampled_from(['MAXIMIZE', 'MINIMIZE']))]]
  # one model-based suggest call (every further call with a new number of
  # trials re-compiles the jitted GP code: 5-10 s each)
  # (gp_ucb_pe optimises one acquisition per suggestion: count=2 costs 17 s)
  count = draw(st.integers(1, 3)) if designer == 'gp_bandit' else (
      2 if draw(_mix(25)) else 1)
  opts = {'max_evaluations': draw(st.sampled_from([100, 250, 500])),
          'suggestion_batch_size': draw(st.sampled_from([10, 25])),
          'ard_maxiter': draw(st.sampled_from([2, 5]))}
  return {
      'designer': designer, 'entry': draw(_entry(designer)), 'opts': opts,
      'space': spec, 'metrics': metrics, 'seed': draw(_seed()),
      'prior': draw(_prior(spec, 1, designer, min_size=2, max_size=5)),
      'steps': [{'count': count, 'fb': []}],
  }


@st.composite
def gp_strategy(draw):
  draw(_not_simplest())
  run = draw(gp_run())
  # entries stay present but become undecodable (all of them / one of them);
  # *deleting* entries is not generated: a designer cannot tell a deleted
  # entry from one that was never written (eagle reads a missing version
  # entry as "first call"), which is a different question from C14's
  run['damage_style'] = draw(st.sampled_from(
      ['lost_all', 'truncate_all']) | st.tuples(
          st.sampled_from(['lost_one', 'truncate_one']),
          st.integers(0, 7)).map(lambda t: '%s:%d' % t))
  seeds = draw(_seeds(K_SEEDS))
  run['seed'] = seeds[0]
  return {'run': run, 'seeds': seeds, 'envs': draw(envs(run['designer']))}


@st.composite
def gp_xproc_strategy(draw):
  draw(_not_simplest())
  return {'hashseed': draw(st.integers(1, 2 ** 32 - 1)),
          'items': [{'kind': 'stream',
                     'run': draw(gp_run(max_params=2, designer=d))}
                    for d in lib.GP],
          'envs': draw(envs())}


# ===========================================================================
# classes
# ===========================================================================
def _completed_before_calls(run):
  """Number of completed trials the designer was told about before each
  suggest call (computed from the case alone)."""
  done = len(run.get('prior') or [])
  pending = 0
  out = []
  for s in run['steps']:
    out.append(done)
    pending += s['count']
    k = 0
    for fb in s['fb'][:pending]:
      if fb[0] != 'skip':
        k += 1
    done += k
    pending -= k
  return out


def _stream_classes(out, run):
  d = run['designer']
  out.cls(d, 'entry_' + run.get('entry', 'ctor'))
  out.cls(*spaces.classes_of(run['space']))
  if run['seed'] == 0:
    out.cls('seed_0')
  if run.get('prior'):
    out.cls('foreign_prior_history')
  before = _completed_before_calls(run)
  hist = any(b > 0 for b in before)
  if hist:
    out.cls('history_nonempty')
  if any(fb[0] in ('inf', 'inf0') for s in run['steps'] for fb in s['fb']):
    out.cls('infeasible_feedback')
  opts = run.get('opts') or {}
  if d == 'nsga2':
    fsa = opts.get('first_survival_after') or 2 * opts.get(
        'population_size', 50)
    if any(b >= fsa for b in before):
      out.cls('nsga2_mutation_phase')
    if len(run['metrics']) > 1:
      out.cls('multi_objective')
  if d == 'eagle':
    cap = (opts.get('config') or {}).get('max_pool_size')
    if cap and any(b >= cap for b in before):
      out.cls('eagle_pool_full_expected')
  if d == 'cmaes' and opts.get('pop_size'):
    if any(b >= opts['pop_size'] for b in before):
      out.cls('cmaes_generation_update')
  nondeg = lib.nondegenerate(run['space'])
  if not nondeg:
    out.cls('degenerate_space')
  return nondeg and (d not in MODEL_BASED or hist)


def _bench_classes(out, run):
  d = run['designer']
  ex = run['experimenter']
  out.cls(d, 'entry_' + run.get('entry', 'ctor'), 'exptr_' + ex['kind'],
          'via_' + run.get('via', 'exptr_factory'))
  if ex.get('noise'):
    out.cls('noisy')
  if ex.get('discrete') or ex.get('categorical'):
    out.cls('discretised')
  if run['seed'] == 0:
    out.cls('seed_0')
  for ps in run.get('prior_studies') or []:
    out.cls('prior_study', 'prior_study_' + ps.get('where', 'before'),
            'prior_by_' + ps['designer'])
    if ps.get('guid') is None:
      out.cls('prior_study_unnamed')
    if ps['seed'] == 0:
      out.cls('prior_study_seed_0')
  if len(run.get('prior_studies') or []) > 1:
    out.cls('two_prior_studies')
  # a suggest after an evaluation: the algorithm sees a non-empty history
  ops = run['protocol'] * run.get('repeats', 1)
  seen_eval = False
  hist = False
  for op in ops:
    if op[0] in ('suggest', 'suggest_evaluate', 'fill') and seen_eval:
      hist = True
    if op[0] in ('evaluate', 'suggest_evaluate'):
      seen_eval = True
  if hist:
    out.cls('history_nonempty')
  return d not in MODEL_BASED or hist


def _note_first(out, obs):
  if obs.get('error'):
    out.cls('first_run_raises:%s:%s' % (
        obs['error']['where'].split('#')[0], obs['error']['type']))


# ===========================================================================
# checks
# ===========================================================================
def _pairs(out, clause, item, envs_, pairs=('fresh_instance',
                                            'perturbed_globals')):
  """Runs the item in env a, then the requested pairs; returns first obs."""
  d = item['run']['designer']
  first = lib.execute(dict(item, env=envs_['a']))
  _note_first(out, first)
  for pair in pairs:
    env = envs_['a'] if pair == 'fresh_instance' else envs_['b']
    again = lib.execute(dict(item, env=env))
    out.count('pairs_compared')
    diff = lib.first_diff(first, again)
    if diff is not None:
      out.violate('%s/%s/%s/%s' % (clause, pair, d, diff[0]), diff[1])
  return first


def _r2(out, clause, item, seeds, env, first=None):
  """Seeds are pairwise different: the observations must not all coincide."""
  d = item['run']['designer']
  obs = []
  for i, s in enumerate(seeds):
    if i == 0 and first is not None:
      obs.append(first)
      continue
    run = dict(item['run'], seed=s)
    obs.append(lib.execute(dict(item, run=run, env=env)))
  if lib.flat_len(obs[0]) < 8:
    # (the generators give >= 8 suggestions per stream by construction; a
    # first run that raises early is the only way to get here)
    out.cls('r2_not_judged_short_stream')
    return None
  out.count('seed_streams', len(obs))
  if all(lib.first_diff(obs[0], o) is None for o in obs[1:]):
    out.violate('%s/%s' % (clause, d),
                '%d pairwise different seeds %r gave the same %d '
                'suggestions/trials, e.g. %.300r' % (
                    len(seeds), seeds, lib.flat_len(obs[0]),
                    (obs[0].get('stream') or obs[0].get('trials'))[:1]))
  else:
    out.cls('r2_judged')
  return obs


def check_cheap(case):
  out = core.Out()
  run = case['run']
  item = {'kind': 'stream', 'run': run}
  out.nontrivial = _stream_classes(out, run)
  if case['envs']['b'].get('unrelated'):
    out.cls('unrelated_study_first')
  _pairs(out, 'R1', item, case['envs'])
  return out


def check_policy(case):
  """R1 for the hosted designer (same seed, same history, same damage ->
  same suggestions whatever the clock / global RNGs are) and R2 for the part
  after the restart (the seed still decides the stream)."""
  out = core.Out()
  run = case['run']
  item = {'kind': 'policy', 'run': run}
  _stream_classes(out, run)
  out.cls('hosted_' + run['designer'],
          'damage_' + run.get('damage_style', 'lost_all').split(':')[0])
  first = _pairs(out, 'R1/hosted', item, case['envs'])
  if first.get('error'):
    return out
  out.nontrivial = True
  post = []
  for i, s_ in enumerate(case['seeds']):
    o = first if i == 0 else lib.execute(dict(
        item, run=dict(run, seed=s_), env=case['envs']['a']))
    post.append(o.get('post'))
  # seeds can only be told apart where the space is big enough: a continuous
  # parameter with a proper range (eagle, CMA-ES), >= 1e12 orderings (grid)
  wide = any(p_['kind'] == 'DOUBLE' and p_['lo'] < p_['hi']
             for p_ in run['space']['params'])
  randomised = (run['designer'] in ('eagle', 'nsga2', 'cmaes') and wide) or (
      run['designer'] == 'grid' and _shuffles(run))
  if randomised and sum(len(b) for b in post[0] or []) >= 8:
    if all(p == post[0] for p in post[1:]):
      out.violate('R2/seed_ignored_after_state_loss/%s' % run['designer'],
                  '%d pairwise different seeds %r give the same suggestions '
                  'after the stored designer state became undecodable: %.300r'
                  % (len(post), case['seeds'], post[0][:1]))
    else:
      out.cls('r2_judged_after_state_loss')
  return out


def _shuffles(run):
  """A seeded grid shuffles the values of every axis; seeds are told apart
  reliably only when there are many orderings (>= 1e12, as in
  _grid_unshuffled)."""
  import math
  res = (run.get('opts') or {}).get('double_grid_resolution', 10)
  if run.get('entry') == 'from_problem':
    res = 10
  axes = [lib.grid_axis_len(p, res) for p in run['space']['params']]
  return math.prod(math.factorial(n) for n in axes) >= 1e12


def check_seeds(case):
  out = core.Out()
  run = case['run']
  nt = _stream_classes(out, run)
  if 0 in case['seeds']:
    out.cls('seed_0_among_seeds')
  item = {'kind': 'stream', 'run': run}
  obs = _r2(out, 'R2/seed_ignored', item, case['seeds'], case['env'])
  if run['designer'] == 'grid' and obs:
    _grid_unshuffled(out, item, case, obs)
  out.nontrivial = nt and 'r2_judged' in out.classes
  return out


def _grid_unshuffled(out, item, case, obs):
  """GridSearchDesigner documents `shuffle_seed=None` as "uses the given
  ordering" and any other value as "shuffle": a seeded order (seed 0
  included) that equals the unshuffled one means the seed was treated as
  absent.  Judged only when the 256 first suggestions reveal the whole grid
  and the grid has >= 1e12 orderings (chance coincidence < 1e-11 per seed)."""
  import math
  run = item['run']
  res = (run.get('opts') or {}).get('double_grid_resolution', 10)
  if run.get('entry') == 'from_problem':
    res = 10
  axes = [lib.grid_axis_len(p, res) for p in run['space']['params']]
  g = math.prod(axes)
  orderings = math.prod(math.factorial(n) for n in axes)
  if g > 256 or orderings < 1e12:
    return
  out.cls('grid_unshuffled_reference_judged')
  ref = lib.execute(dict(item, run=dict(run, seed=None), env=case['env']))
  for s, o in zip(case['seeds'], obs):
    if lib.first_diff(ref, o) is None:
      out.violate('R2/seed_treated_as_unshuffled/grid',
                  'seed %r gives the unshuffled grid order (= shuffle_seed='
                  'None): %.300r' % (s, o['stream'][0][:3]))
      break


def check_bench(case):
  out = core.Out()
  run = case['run']
  item = {'kind': 'bench', 'run': run}
  nt = _bench_classes(out, run)
  first = _pairs(out, 'R3', item, case['envs'])
  # (only for the factory that is given an experimenter *factory*: a state
  # factory built around one experimenter object shares it by construction)
  if 'second' in first and not run.get('prior_studies') and (
      run.get('via') != 'exptr'):
    out.cls('second_state_from_same_factory')
    if first['second'] != first['trials']:
      out.violate('R3/second_state_of_same_factory/%s' % run['designer'],
                  'the same seeded state factory gave another trial sequence '
                  'the second time: first %.300r second %.300r' % (
                      first['trials'][:2], first['second'][:2]
                      if isinstance(first['second'], list)
                      else first['second']))
  if len(first['trials']) >= 2:
    out.cls('two_or_more_trials')
  if any(t['status'] == 'ACTIVE' for t in first['trials']):
    out.cls('active_trials_left')
  _r2(out, 'R2/seed_ignored_via_benchmark', item, case['seeds'],
      case['envs']['a'], first=first)
  if run.get('prior_studies'):
    if first['prior'] and all(p['trials'] for p in first['prior']):
      out.cls('prior_trials_compared')
    _r2_prior(out, item, case, first)
  out.nontrivial = nt and len(first['trials']) >= 2
  return out


def _r2_prior(out, item, case, first):
  """The `seed` of EvaluateAndAddPriorStudy is used: K pairwise different
  seeds (everything else equal) do not all give the same prior study."""
  run = item['run']
  # position of the first described prior study among the attached ones:
  # the 'before' steps run (and attach) first, then the 'each_repeat' ones
  order = sorted(range(len(run['prior_studies'])), key=lambda j: (
      run['prior_studies'][j].get('where') == 'each_repeat', j))
  pos = order.index(0)
  priors = []
  for i, s in enumerate(case['prior_seeds']):
    if i == 0:
      o = first
    else:
      ps = [dict(run['prior_studies'][0], seed=s)] + run['prior_studies'][1:]
      o = lib.execute(dict(item, run=dict(run, prior_studies=ps),
                           env=case['envs']['a']))
    priors.append({'trials': o['prior'][pos]['trials']
                             if len(o['prior']) > pos else [],
                   'error': None})
  if len(priors[0]['trials']) < 8:
    out.cls('r2_prior_not_judged_short')
    return
  if all(lib.first_diff(priors[0], o) is None for o in priors[1:]):
    out.violate('R2/prior_study_seed_ignored/%s' % (
        run['prior_studies'][0]['designer']),
                '%d pairwise different EvaluateAndAddPriorStudy seeds %r gave '
                'the same %d prior trials' % (
                    len(priors), case['prior_seeds'],
                    len(priors[0]['trials'])))
  else:
    out.cls('r2_prior_judged')


def _check_xproc(case, timeout):
  out = core.Out()
  envs_ = case['envs']
  items = [dict(it, env=envs_['b']) for it in case['items']]
  # the child starts first and runs while this process computes its side
  child = lib.start_child(items, case['hashseed'])
  try:
    local = [lib.execute(dict(it, env=envs_['a'])) for it in case['items']]
  except BaseException:
    child.kill()
    raise
  remote = lib.finish_child(child, case['hashseed'], timeout)
  nt = False
  for it, a, b in zip(case['items'], local, remote):
    run = it['run']
    d = run['designer']
    out.count('pairs_compared')
    _note_first(out, a)
    if it['kind'] == 'stream':
      nt = _stream_classes(out, run) or nt
      clause = 'R1'
    else:
      nt = (_bench_classes(out, run) and len(a['trials']) >= 2) or nt
      clause = 'R3'
    out.cls('item_' + it['kind'])
    if len(run['space']['params']) >= 2 if it['kind'] == 'stream' else True:
      out.cls('two_or_more_parameter_names')
    rtol = 1e-12 if d in lib.JITTED else 0.0
    diff = lib.first_diff(a, b, rtol)
    if diff is not None:
      out.violate('%s/fresh_process/%s/%s' % (clause, d, diff[0]),
                  'PYTHONHASHSEED 0 vs %s: %s' % (case['hashseed'], diff[1]))
    elif rtol and lib.first_diff(a, b, 0.0) is not None:
      out.cls('equal_within_rtol_only')
  out.nontrivial = nt
  return out


def check_xproc(case):
  return _check_xproc(case, XPROC_TIMEOUT)


def check_gp(case):
  out = core.Out()
  run = case['run']
  item = {'kind': 'stream', 'run': run}
  nt = _stream_classes(out, run)
  first = _pairs(out, 'R1', item, case['envs'])
  if not first.get('error'):
    out.cls('model_based_suggest_answered')
  # R1 + R2 on the stream that starts from scratch: 9 suggestions of the
  # seeding phase (centre + quasi-random points drawn from the rng; no GP
  # fit, cheap).  R2 is NOT judged on the model-based call: with an optimum
  # on the boundary of the space all seeds may legitimately return the same
  # clipped point.
  # Cheap, so done for every entry point of the class and also with seed 0.
  entries = ('ctor', 'from_problem') if run['designer'] in HAS_FROM_PROBLEM \
      else ('ctor',)
  for entry in entries:
    seed_run = dict(run, entry=entry, prior=[],
                    steps=[{'count': 9, 'fb': []}])
    seed_item = {'kind': 'stream', 'run': seed_run}
    sfirst = _pairs(out, 'R1_seed_phase', seed_item, case['envs'])
    _r2(out, 'R2/seed_ignored', seed_item, case['seeds'], case['envs']['a'],
        first=sfirst)
    if run['seed'] != 0:
      _pairs(out, 'R1_seed_phase', {'kind': 'stream',
                                    'run': dict(seed_run, seed=0)},
             case['envs'])
  out.nontrivial = nt and not first.get('error')
  return out


def check_gp_xproc(case):
  return _check_xproc(case, XPROC_TIMEOUT)


def families(tier):
  return [
      # one example per shard in the expensive families: see _not_simplest
      core.Family('gp', check_gp, strategy=gp_strategy,
                  budget={'quick': 8, 'thorough': 40},
                  shards={'quick': 8, 'thorough': 40},
                  required_classes=('gp_bandit', 'gp_ucb_pe',
                                    'model_based_suggest_answered',
                                    'r2_judged'),
                  max_shrink_s={'quick': 120, 'thorough': 300}),
      core.Family('gp_xproc', check_gp_xproc, strategy=gp_xproc_strategy,
                  budget={'quick': 2, 'thorough': 8},
                  shards={'quick': 2, 'thorough': 8},
                  required_classes=('gp_bandit', 'gp_ucb_pe'),
                  max_shrink_s={'quick': 120, 'thorough': 300}),
      core.Family('xproc', check_xproc, strategy=xproc_strategy,
                  budget={'quick': 16, 'thorough': 160},
                  shards={'quick': 16, 'thorough': 16},
                  required_classes=lib.CHEAP + (
                      'item_stream', 'item_bench',
                      'two_or_more_parameter_names', 'prior_study'),
                  max_shrink_s={'quick': 150, 'thorough': 400}),
      core.Family('cheap', check_cheap, strategy=cheap_strategy,
                  budget={'quick': 1200, 'thorough': 16000},
                  shards={'quick': 8, 'thorough': 16},
                  required_classes=lib.CHEAP + (
                      'seed_0', 'history_nonempty', 'foreign_prior_history',
                      'unrelated_study_first', 'entry_from_problem',
                      'nsga2_mutation_phase', 'eagle_pool_full_expected',
                      'cmaes_generation_update')),
      core.Family('policy_host', check_policy, strategy=policy_strategy,
                  budget={'quick': 240, 'thorough': 4000},
                  shards={'quick': 8, 'thorough': 16},
                  required_classes=tuple('hosted_' + d for d in lib.HOSTABLE)
                  + ('r2_judged_after_state_loss',)),
      core.Family('seeds', check_seeds, strategy=seeds_strategy,
                  budget={'quick': 400, 'thorough': 4000},
                  shards={'quick': 8, 'thorough': 16},
                  required_classes=lib.CHEAP + (
                      'r2_judged', 'seed_0_among_seeds',
                      'grid_unshuffled_reference_judged')),
      core.Family('bench', check_bench, strategy=bench_strategy,
                  budget={'quick': 400, 'thorough': 5000},
                  shards={'quick': 4, 'thorough': 16},
                  required_classes=lib.CHEAP + (
                      'exptr_branin', 'exptr_bbob', 'exptr_simplekd',
                      'via_exptr', 'via_exptr_factory', 'noisy',
                      'history_nonempty', 'r2_judged',
                      'two_or_more_trials', 'prior_study',
                      'prior_trials_compared', 'r2_prior_judged',
                      'prior_study_unnamed', 'prior_study_each_repeat')),
  ]
