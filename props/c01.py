"""C01 Trial lifecycle: only legal transitions, completed trials are immutable.

Family `history`: Hypothesis-generated histories of the 16 RPCs (+GetOperation)
against a real VizierServicer (RAM / in-memory SQLite) compared after every
call with the sequential reference model in harness/service_model.py:
response, error class, full snapshot, model-free history invariants, and
"an erroring call changes nothing".
"""
from harness import core

ID = 'C01'
LEVEL = 'exploration'
RULE = ('Hypothesis lists of 4..40 concrete RPC calls over 2 owners x 2 study '
        'ids x trial ids 1..9 x 3 workers, all argument variants (study '
        'states, completion with/without final measurement, infeasible, '
        'create-trial states, metadata on existing/missing trials), both '
        'datastores. non-trivial = the history contains >=1 mutating call '
        'rejected because the trial or study is not active AND >=1 completed '
        'trial that is addressed again by a later call. distinct = SHA-1 of '
        'the canonical op list.')
ASSUMPTIONS = [
    'reference model harness/service_model.py written from the proto comments '
    'and RPC docstrings; where those are silent it follows explicit branches '
    'of the code (listed in DESIGN.md C01)',
    'algorithm = deterministic harness policy injected through the public '
    'policy_factory argument; which REQUESTED trial / which suggestion lands '
    'on which new id is adopted from the implementation after validation',
    'timestamps are blanked before comparison',
]

TOUCH = ('add_meas', 'complete', 'stop', 'delete_trial', 'early_stop',
         'get_trial')


def strategy():
  from hypothesis import strategies as st
  from harness import histories
  return st.fixed_dictionaries({
      'backend': st.sampled_from(['ram', 'sqlmem', 'ram', 'sqlmem',
                                  'sqlfile']),
      # 'grpc' = every RPC gets a ServicerContext stand-in (the branches taken
      # when the servicer is served remotely)
      'context': st.sampled_from(['none', 'none', 'grpc']),
      # positions after which a sqlfile-backed servicer is closed and a new one
      # opened on the same file (clean restart)
      'restarts': st.lists(st.integers(0, 39), max_size=3),
      'ops': histories.history_strategy(min_ops=8, max_ops=40,
                                        bad_names=True),
  })


def check(case):
  from harness import svc, histories
  from harness import service_model as sm
  out = core.Out()
  plan = svc.Plan()
  tmp = svc.TmpFiles()
  raw = svc.make_servicer(case['backend'], tmp=tmp,
                          policy_factory=svc.HarnessPolicyFactory(plan))
  use_ctx = case.get('context') == 'grpc'
  s = histories.with_context(raw) if use_ctx else raw
  restarts = set(case.get('restarts') or ()) if (
      case['backend'] == 'sqlfile') else set()
  try:
    model = sm.Model(svc.std_config().to_proto(), svc.det_params)
    owners = histories.OWNERS
    prev = svc.snapshot(s, owners)
    rejected = False
    touched_completed = False
    completed_seen = set()
    kinds = set()
    for step, op in enumerate(case['ops']):
      kind = op[0]
      kinds.add(kind)
      # bookkeeping for the non-triviality rule, from the model's state
      if kind in TOUCH or kind == 'update_md':
        st_ = model.owners.get(op[1], {}).get(op[2])
        if st_ is not None:
          tids = [op[3]] if kind in TOUCH else [
              x[0] for x in op[3] if x[0] != 'study']
          for tid in tids:
            if not str(tid).isdigit():
              continue  # not a trial id at all
            t = st_.trials.get(int(tid))
            if t is not None and t.state in (sm.TS.SUCCEEDED,
                                             sm.TS.INFEASIBLE):
              touched_completed = True
      calls_before = plan.suggest_calls
      real = histories.exec_real(s, op)
      mres, problems = histories.exec_model(model, op, real, s)
      for p in problems:
        out.violate('suggest_choice_not_allowed/' + p.split(' ')[0], p)
      if mres[0] == 'err' and mres[1] == sm.FAILED_PRECONDITION and (
          kind in histories.MUTATING or kind == 'early_stop'):
        rejected = True
      diff = histories.compare_results(op, real, mres)
      if diff is not None:
        what = 'error_class' if (real[0] == 'err' or mres[0] == 'err') else (
            'response')
        if real[0] == 'err' and real[1].startswith('CRASH:'):
          what = 'crash/' + real[1][6:]
        out.violate('%s/%s' % (what, kind),
                    'step %d op=%r: %s' % (step, op, diff))
        break
      if kind == 'suggest' and mres[0] == 'ok':
        invoked = plan.suggest_calls > calls_before
        if invoked != mres[1][2]:
          out.violate('policy_invocation/suggest',
                      'step %d op=%r: policy invoked=%s model=%s' % (
                          step, op, invoked, mres[1][2]))
          break
      cur = svc.snapshot(s, owners)
      if real[0] == 'err' and cur != prev:
        out.violate('changed_on_error/%s' % kind,
                    'step %d op=%r error=%s but stored data changed' % (
                        step, op, real[1]))
        break
      sd = histories.compare_snapshots(cur, model.snapshot(owners))
      if sd is not None:
        out.violate('snapshot/after_%s' % kind,
                    'step %d op=%r: %s' % (step, op, sd))
        break
      for clause, detail in histories.history_invariants(prev, cur):
        out.violate('invariant/%s/after_%s' % (clause, kind),
                    'step %d op=%r: %s' % (step, op, detail))
      prev = cur
      if step in restarts:
        svc.close_servicer(raw)
        raw = svc.make_servicer('sqlfile', tmp=tmp,
                                policy_factory=svc.HarnessPolicyFactory(plan))
        s = histories.with_context(raw) if use_ctx else raw
        out.cls('clean_restart')
        cur = svc.snapshot(s, owners)
        if cur != prev:
          out.violate('restart/state_changed',
                      'step %d: stored studies/trials differ after closing '
                      'and reopening the SQLite file' % step)
          break
    out.nontrivial = rejected and touched_completed
    if use_ctx:
      out.cls('with_grpc_context')
    out.cls(case['backend'])
    if 'bad_name' in kinds:
      out.cls('malformed_name')
    if rejected:
      out.cls('rejected_mutation')
    if touched_completed:
      out.cls('completed_trial_touched_again')
    for k in ('delete_study', 'update_md', 'early_stop', 'list_optimal',
              'set_state', 'stop'):
      if k in kinds:
        out.cls('has_' + k)
  finally:
    svc.close_servicer(raw)
    tmp.close()
  return out


def families(tier):
  return [
      core.Family('history', check, strategy=strategy,
                  budget={'quick': 1600, 'thorough': 40000},
                  shards={'quick': 16, 'thorough': 16},
                  required_classes=('ram', 'sqlmem', 'sqlfile',
                                    'with_grpc_context', 'clean_restart',
                                    'rejected_mutation',
                                    'completed_trial_touched_again',
                                    'has_delete_study', 'has_update_md',
                                    'has_set_state', 'malformed_name')),
  ]
