"""C13 A restarted stateful algorithm continues exactly like one that never stopped.

Oracle (all families): differential A/B.  Run A keeps one designer instance
alive for the whole generated study; run B is rebuilt (dump -> transport ->
fresh instance created with the same constructor arguments -> load) after the
steps named by the generated restart mask.  Both runs receive identical
update() inputs (copies of the trials built from A's suggestions and the drawn
feedback).  `time.time` is patched to a drawn value that changes at every step
and at every restart, so a designer that re-seeds itself from the clock after a
restart is seen.

Families
  grid, quasi, eagle   deterministic-given-state designers: the suggestion
        lists of A and B must be equal parameter for parameter (and in their
        suggestion metadata) at every step; dump() of A and B must agree
        (eagle: except the wall-clock `dump_timestamp`).
  nsga2   NSGA2Designer with a recording, RNG-free Mutation / an
        adaptation_callable injected through the public constructor
        arguments: equality of the public `population` (all arrays, value /
        shape / dtype), of the phase (does suggest() sample or mutate), of the
        number of trials seen (argument handed to adaptation_callable) and, in
        the mutation phase, of the suggestions.  Suggestions of the sampling
        phase are NOT compared (the sampler RNG is not documented state).
  cmaes   CMAESDesigner: equality of dump() (the evo-jax save_state, which
        contains the PRNG key, hence also determines the suggestions) after
        every update and after every load, and of the suggestions.
  service  the algorithm hosted in the real service on a SQLite file, policy
        re-created at every SuggestTrials (that is what the service does) and
        the servicer re-created at drawn steps: (a) the suggestions returned
        by the service equal those of a live designer that is fed the trials
        the service stores, and the designer state the service saved in the
        study metadata equals dump() of that live designer; (b) for
        (shuffled) grid search the first G
        suggestions are pairwise distinct and cover the grid computed from the
        space description (G = product of the axis sizes).

Not demanded: equality of private attributes; equality of sampling-phase
suggestions of NSGA-II (sampler RNG and its id counter are not persisted by
design of the template - measured as class
`sample_phase_suggestions_diverge`); anything
about run A alone (if A itself raises, the case is counted in a
`A_raises:*` class and is not judged; `A_raises:suggest:Hang` is the watchdog
of harness/c13_lib.clock interrupting a designer call that does not return -
the eagle firefly pool has such a loop when infeasible fireflies are kept).
"""
import copy

from hypothesis import strategies as st

from harness import c13_lib as lib
from harness import core
from harness import spaces

ID = 'C13'
LEVEL = 'exploration'
RULE = ('Hypothesis-generated cases: designer constructor arguments (seed incl. '
        '"None = from the patched clock"), flat search space of the kinds the '
        'designer supports, 3..12 steps of (batch size 1..5, feedback for the '
        'pending trials: value with ties / infeasible / left active), restart '
        'mask with a serialization path per restart (direct Metadata, '
        'StudyConfig proto bytes, real service on a SQLite file with the '
        'servicer re-created). Non-trivial = at least one restart is placed '
        'after >=1 update that carried completed trials and is followed by a '
        'compared suggest (nsga2: the restart comes after '
        'first_survival_after trials were seen; cmaes: after >=1 completed '
        'trial; service: >=1 servicer re-creation after a completed trial, '
        'and for grid algorithms the run asks for >= G suggestions). '
        'distinct = SHA-1 of the canonical JSON case.')
ASSUMPTIONS = [
    'run A (one live instance) is the reference: C13 judges only differences '
    'between A and the restarted run B, never A itself',
    'both runs get deep copies of the same Trial objects; B never sees its '
    'own suggestions (identical update() inputs as the statement requires)',
    'unittest.mock patches time.time inside designer calls only',
    'service family: the live reference designer is built the way '
    'DefaultPolicyFactory builds it at the first SuggestTrials (seed=None, '
    'i.e. from the patched clock)',
]

# --- known findings on the unchanged tree (see known_findings.d/C13.jsonl) --
# While a flag is True the generator keeps the trigger of that defect to a
# small share so that the rest of the domain is still searched; the avoided
# cases are counted in the class named next to the flag.
KNOWN_EAGLE_INFEASIBLE_DUMP = False   # class: eagle 'infeasible_cfg_avoided'
KNOWN_SHUFFLED_FACTORY = False        # class: service 'shuffled_default_avoided'
KNOWN_CMAES_BUFFER = False            # class: cmaes 'aligned_batches'

DET_KINDS = ('DOUBLE', 'INTEGER', 'DISCRETE', 'CATEGORICAL', 'BOOL')


# ===========================================================================
# generic A/B driver for designers whose suggestions are compared
# ===========================================================================
def _exc(e):
  return type(e).__name__


def _ab(case, out, name, make, metric_names, ctx=lambda: '',
        dump_ignore=(), compare_md=True, on_step=None):
  """Runs the A/B differential.  `make()` -> fresh designer."""
  from vizier import algorithms as vza
  problem = case['_problem']
  tr = lib.Transport(problem)
  t = case['t0']
  try:
    with lib.clock(t):
      try:
        a = make()
      except Exception as e:  # pylint: disable=broad-except
        out.cls('A_raises:ctor:' + _exc(e))
        return
      b = make()
    pending = []  # Trial objects (ACTIVE), oldest first
    next_id = 1
    data_updates = 0
    restarts = 0
    nt_restart_pending = False
    paths_used = set()
    for i, step in enumerate(case['steps']):
      t += step['dt']
      with lib.clock(t):
        try:
          sa = list(a.suggest(step['count']))
        except Exception as e:  # pylint: disable=broad-except
          out.cls('A_raises:suggest:' + _exc(e))
          return
        try:
          sb = list(b.suggest(step['count']))
        except Exception as e:  # pylint: disable=broad-except
          out.violate('%s/suggest_raises_in_B/%s%s' % (name, _exc(e), ctx()),
                      'step %d restarts so far %d: %r' % (i, restarts, e))
          return
      diff = lib.compare_suggestions(sa, sb, with_metadata=compare_md)
      if diff is not None:
        out.violate('%s/suggest/%s_differ%s' % (name, diff[0], ctx()),
                    'step %d (restarts so far %d, last path %s): %s' % (
                        i, restarts, sorted(paths_used), diff[1]))
        return
      if nt_restart_pending:
        out.nontrivial = True
        nt_restart_pending = False
      for s in sa:
        pending.append(s.to_trial(next_id))
        next_id += 1
      completed, still = [], []
      fbs = list(step['fb'])
      for tr_ in pending:
        fb = fbs.pop(0) if fbs else ['skip']
        if fb[0] == 'skip':
          still.append(tr_)
        else:
          completed.append(lib.finish(tr_, fb, metric_names))
          if fb[0] != 'ok':
            out.cls('infeasible_trial')
            case['_had_infeasible'] = True
      pending = still
      if completed:
        data_updates += 1
      with lib.clock(t):
        try:
          a.update(vza.CompletedTrials(copy.deepcopy(completed)),
                   vza.ActiveTrials(copy.deepcopy(pending)))
        except Exception as e:  # pylint: disable=broad-except
          out.cls('A_raises:update:' + _exc(e))
          return
        try:
          b.update(vza.CompletedTrials(copy.deepcopy(completed)),
                   vza.ActiveTrials(copy.deepcopy(pending)))
        except Exception as e:  # pylint: disable=broad-except
          out.violate('%s/update_raises_in_B/%s%s' % (name, _exc(e), ctx()),
                      'step %d: %r' % (i, e))
          return
      if on_step:
        on_step(a, b, i)
      # dump() is a public method too: the two instances must agree on it
      with lib.clock(t):
        try:
          da = lib.dump_flat(a.dump(), dump_ignore)
        except Exception as e:  # pylint: disable=broad-except
          da = None
          out.cls('dump_raises_on_A:' + _exc(e))
        try:
          db = lib.dump_flat(b.dump(), dump_ignore) if da is not None else None
        except Exception as e:  # pylint: disable=broad-except
          out.violate('%s/dump_raises_in_B_only/%s%s' % (name, _exc(e), ctx()),
                      'step %d: %r' % (i, e))
          return
      if da is not None and da != db:
        k = lib.first_diff(da, db)
        out.violate('%s/dump_differs/%s%s' % (name, '.'.join(k[0] + (k[1],)),
                                              ctx()),
                    'step %d key %r: A=%.300r B=%.300r' % (
                        i, k, da.get(k), db.get(k)))
        return
      if step['restart']:
        path = step['restart']
        with lib.clock(t):
          try:
            md = b.dump()
          except Exception as e:  # pylint: disable=broad-except
            out.violate('%s/restart/dump_raises/%s%s' % (name, _exc(e), ctx()),
                        'step %d: %r' % (i, e))
            return
        md2 = tr.carry(md, path)
        t += 1
        with lib.clock(t):
          try:
            b = make()
            b.load(md2)
          except Exception as e:  # pylint: disable=broad-except
            out.violate('%s/restart/load_raises/%s/%s%s' % (
                name, path, _exc(e), ctx()), 'step %d: %r' % (i, e))
            return
        restarts += 1
        paths_used.add(path)
        out.cls('path_' + path)
        if data_updates:
          nt_restart_pending = True
          out.cls('restart_after_data')
    out.cls('restarts_%s' % ('0' if restarts == 0 else '1' if restarts == 1
                             else 'many'))
    if restarts == len(case['steps']):
      out.cls('restart_every_step')
  finally:
    tr.close()


# ===========================================================================
# grid / quasi-random / eagle
# ===========================================================================
def _det_space(**kw):
  return spaces.flat_space(min_params=1, max_params=4, kinds=DET_KINDS,
                           degenerate=True, **kw).map(lib.tame)


def grid_strategy():
  return st.fixed_dictionaries({
      'designer': st.just('grid'),
      'space': _det_space(),
      'ctor': st.fixed_dictionaries({
          # Python's random.Random takes any int: negative seeds are legal here
          'shuffle_seed': st.one_of(lib.seed(), lib.seed(),
                                    st.sampled_from([-5, -1, -2 ** 31])),
          'double_grid_resolution': st.sampled_from([10, 10, 2, 3]),
      }),
      't0': lib.t0(),
      'steps': lib.steps(infeasible=True),
  })


def quasi_strategy():
  return st.fixed_dictionaries({
      'designer': st.just('quasi'),
      'space': _det_space(),
      'ctor': st.fixed_dictionaries({
          'skip_points': st.sampled_from([1000, 0, 1, 17]),
          'seed': lib.seed(),
      }),
      't0': lib.t0(),
      'steps': lib.steps(infeasible=True),
  })


@st.composite
def eagle_strategy(draw):
  cfg = {}
  if draw(st.integers(0, 2)) > 0:
    # small pools: the firefly (mutate/perturb) branch is reached quickly
    cfg['max_pool_size'] = draw(st.sampled_from([2, 3, 5]))
  if draw(st.integers(0, 3)) == 0:
    # unsuccessful flies are removed after a couple of failures
    cfg['penalize_factor'] = draw(st.sampled_from([0.05, 0.001]))
  p_inf = 12 if KNOWN_EAGLE_INFEASIBLE_DUMP else 35
  if draw(lib.chance(p_inf)):
    cfg['infeasible_force_factor'] = draw(st.sampled_from([0.1, 1.0]))
  if draw(st.integers(0, 5)) == 0:
    cfg['explore_rate'] = 1.5
  return {
      'designer': 'eagle',
      'space': draw(_det_space()),
      'goal': draw(st.sampled_from(['MAXIMIZE', 'MINIMIZE'])),
      'ctor': {'seed': draw(lib.seed()), 'config': cfg},
      't0': draw(lib.t0()),
      'steps': draw(lib.steps(infeasible=True, min_steps=4, max_steps=12)),
  }


def check_det(case):
  from vizier._src.algorithms.designers import grid
  from vizier._src.algorithms.designers import quasi_random
  out = core.Out()
  case = dict(case)
  kind = case['designer']
  goal = case.get('goal', 'MAXIMIZE')
  problem = lib.make_problem(case['space'], [['m', goal, None]])
  case['_problem'] = problem
  ctor = case['ctor']
  out.cls(*spaces.classes_of(case['space']))
  ctx = lambda: ''
  dump_ignore = ()
  if kind == 'grid':
    make = lambda: grid.GridSearchDesigner(
        problem.search_space, ctor['shuffle_seed'],
        double_grid_resolution=ctor['double_grid_resolution'])
    out.cls('shuffled' if ctor['shuffle_seed'] is not None else 'unshuffled')
    g = lib.grid_size(case['space'], ctor['double_grid_resolution'])
    if sum(s['count'] for s in case['steps']) > g:
      out.cls('wrapped_around')
  elif kind == 'quasi':
    make = lambda: quasi_random.QuasiRandomDesigner(
        problem.search_space, skip_points=ctor['skip_points'],
        seed=ctor['seed'])
    out.cls('seed_from_clock' if ctor['seed'] is None else 'seed_given')
  else:
    from vizier._src.algorithms.designers.eagle_strategy import eagle_strategy as es
    cfgd = ctor['config']
    make = lambda: es.EagleStrategyDesigner(
        problem, config=es.FireflyAlgorithmConfig(**cfgd), seed=ctor['seed'])
    out.cls('seed_from_clock' if ctor['seed'] is None else 'seed_given')
    dump_ignore = ('dump_timestamp',)
    inf_cfg = cfgd.get('infeasible_force_factor', 0.0) > 0
    if inf_cfg:
      out.cls('infeasible_cfg')
    elif KNOWN_EAGLE_INFEASIBLE_DUMP:
      out.cls('infeasible_cfg_avoided')
    if 'max_pool_size' in cfgd:
      out.cls('small_pool')
    # bucket context: the infeasible-firefly code path is only reachable with
    # infeasible_force_factor > 0 and an infeasible trial in the history
    ctx = lambda: ('/infeasible_fly_in_pool' if inf_cfg and case.get(
        '_had_infeasible') else '')

  def on_step(a, b, i):
    if kind != 'eagle':
      return
    # class measurement only (private attribute, never part of the oracle)
    try:
      pool = a._firefly_pool  # pylint: disable=protected-access
      if pool.size >= pool.capacity:
        out.cls('pool_full')
        if case['steps'][i]['restart']:
          out.cls('restart_with_full_pool')
      elif case['steps'][i]['restart'] and pool.size > 0:
        out.cls('restart_with_partial_pool')
    except AttributeError:
      pass

  _ab(case, out, kind, make, ['m'], ctx=ctx, dump_ignore=dump_ignore,
      on_step=on_step)
  return out


# ===========================================================================
# NSGA-II
# ===========================================================================
@st.composite
def nsga2_strategy(draw):
  n_obj = draw(st.sampled_from([1, 2, 2, 3]))
  metrics = [['m%d' % i, draw(st.sampled_from(['MAXIMIZE', 'MINIMIZE'])), None]
             for i in range(n_obj)]
  if draw(st.integers(0, 3)) == 0:
    metrics.append(['safe', 'MAXIMIZE', draw(st.sampled_from([0.0, 0.5]))])
  pop = draw(st.sampled_from([2, 3, 4, 6]))
  fsa = draw(st.one_of(st.none(), st.integers(1, 8)))
  ctor = {
      'population_size': pop,
      'first_survival_after': fsa,
      'eviction_limit': draw(st.sampled_from([None, None, 1, 2, 3])),
      # always an int: seed=None would take OS entropy (np.random.RandomState)
      # and make the case irreproducible; the seed is not saved state anyway
      'seed': draw(lib.seed(none_share=False)),
      'use_callable': draw(st.booleans()),
      'metadata_namespace': draw(st.sampled_from(['nsga2', 'nsga2', 'a:b'])),
  }
  return {
      'designer': 'nsga2',
      'space': lib.tame(draw(spaces.flat_space(min_params=1, max_params=3,
                                               degenerate=False))),
      'metrics': metrics,
      'ctor': ctor,
      't0': draw(lib.t0()),
      # NSGA-II's converter requires every metric on every completed trial:
      # no infeasible trials without a measurement
      'steps': draw(lib.steps(n_values=len(metrics), infeasible=True,
                              inf0=False, min_steps=4, max_steps=12)),
  }


def check_nsga2(case):
  from vizier import algorithms as vza
  from vizier._src.algorithms.evolution import nsga2
  out = core.Out()
  problem = lib.make_problem(case['space'], case['metrics'])
  names = [m[0] for m in case['metrics']]
  ctor = case['ctor']
  fsa = ctor['first_survival_after'] or 2 * ctor['population_size']
  out.cls(*spaces.classes_of(case['space']))
  if len([m for m in case['metrics'] if m[2] is None]) > 1:
    out.cls('multi_objective')
  if any(m[2] is not None for m in case['metrics']):
    out.cls('safety_metric')
  if ctor['eviction_limit']:
    out.cls('eviction')
  out.cls('callable' if ctor['use_callable'] else 'fixed_adaptation')

  def make():
    mut, cb, log = lib.make_recorder()
    kw = dict(population_size=ctor['population_size'],
              first_survival_after=ctor['first_survival_after'],
              eviction_limit=ctor['eviction_limit'], seed=ctor['seed'],
              metadata_namespace=ctor['metadata_namespace'])
    if ctor['use_callable']:
      kw['adaptation_callable'] = cb
    else:
      kw['adaptation'] = mut
    return nsga2.NSGA2Designer(problem, **kw), log

  tr = lib.Transport(problem)
  t = case['t0']
  try:
    with lib.clock(t):
      try:
        a, loga = make()
      except Exception as e:  # pylint: disable=broad-except
        out.cls('A_raises:ctor:' + _exc(e))
        return out
      b, logb = make()
    pending, next_id = [], 1
    seen_total = 0
    seen_since_restart = 0
    restarts = 0
    nt_pending = False
    phase_reported = False
    for i, step in enumerate(case['steps']):
      t += step['dt']
      la, lb = len(loga), len(logb)
      with lib.clock(t):
        try:
          sa = list(a.suggest(step['count']))
        except Exception as e:  # pylint: disable=broad-except
          out.cls('A_raises:suggest:' + _exc(e))
          return out
        try:
          sb = list(b.suggest(step['count']))
        except Exception as e:  # pylint: disable=broad-except
          out.violate('nsga2/suggest_raises_in_B/' + _exc(e),
                      'step %d: %r' % (i, e))
          return out
      ea, eb = loga[la:], logb[lb:]
      pa = 'mutate' if any(e[0] == 'mutate' for e in ea) else 'sample'
      pb = 'mutate' if any(e[0] == 'mutate' for e in eb) else 'sample'
      out.cls('phase_' + pa)
      if nt_pending:
        out.nontrivial = True
        nt_pending = False
      if pa != pb:
        # Which phase would B be in if the restart had reset the counter?
        reset_phase = 'mutate' if seen_since_restart >= fsa else 'sample'
        why = ('reset_by_restart' if restarts and pb == reset_phase
               else 'other')
        if not phase_reported:
          out.violate('nsga2/num_trials_seen/phase_%s' % why,
                      'step %d: trials seen %d (first_survival_after=%d), %d '
                      'since the last restart: live instance is in the %s '
                      'phase, restored instance in the %s phase' % (
                          i, seen_total, fsa, seen_since_restart, pa, pb))
          phase_reported = True
      elif pa == 'mutate':
        sna = [e[1] for e in ea if e[0] == 'seen']
        snb = [e[1] for e in eb if e[0] == 'seen']
        if sna != snb:
          why = ('reset_by_restart'
                 if restarts and snb == [seen_since_restart] else 'other')
          if not phase_reported:
            out.violate('nsga2/num_trials_seen/callable_arg_%s' % why,
                        'step %d: adaptation_callable got %r in A, %r in B' % (
                            i, sna, snb))
            phase_reported = True
        elif [e for e in ea if e[0] == 'mutate'] != [
            e for e in eb if e[0] == 'mutate']:
          out.violate('nsga2/mutate_call_differs',
                      'step %d: A %r B %r' % (i, ea, eb))
          return out
        else:
          diff = lib.compare_suggestions(sa, sb)
          if diff is not None:
            out.violate('nsga2/suggest/%s_differ' % diff[0],
                        'step %d: %s' % (i, diff[1]))
            return out
      else:
        if len(sa) != len(sb):
          out.violate('nsga2/suggest/count_differ', 'step %d: %d vs %d' % (
              i, len(sa), len(sb)))
          return out
        ns = ctor['metadata_namespace']
        if [s.metadata.ns(ns).get('values') for s in sa] != [
            s.metadata.ns(ns).get('values') for s in sb]:
          out.cls('sample_phase_suggestions_diverge')
      for s in sa:
        pending.append(s.to_trial(next_id))
        next_id += 1
      completed, still = [], []
      fbs = list(step['fb'])
      for tr_ in pending:
        fb = fbs.pop(0) if fbs else ['skip']
        if fb[0] == 'skip':
          still.append(tr_)
        else:
          completed.append(lib.finish(tr_, fb, names))
          if fb[0] != 'ok':
            out.cls('infeasible_trial')
      pending = still
      with lib.clock(t):
        try:
          a.update(vza.CompletedTrials(copy.deepcopy(completed)),
                   vza.ActiveTrials(copy.deepcopy(pending)))
        except Exception as e:  # pylint: disable=broad-except
          out.cls('A_raises:update:' + _exc(e))
          return out
        try:
          b.update(vza.CompletedTrials(copy.deepcopy(completed)),
                   vza.ActiveTrials(copy.deepcopy(pending)))
        except Exception as e:  # pylint: disable=broad-except
          out.violate('nsga2/update_raises_in_B/' + _exc(e),
                      'step %d: %r' % (i, e))
          return out
      seen_total += len(completed)
      seen_since_restart += len(completed)
      d = lib.population_diff(a.population, b.population)
      if d is not None:
        out.violate('nsga2/population/after_update/' + d[0],
                    'step %d: %s' % (i, d[1][:800]))
        return out
      # a hosting policy saves the designer state after every request, also
      # when the instance is kept: dump() of a live instance is called many
      # times, and what it returns is what the next restart loads
      with lib.clock(t):
        try:
          a.dump()
          b.dump()
        except Exception:  # pylint: disable=broad-except
          pass  # judged below, where the restart needs the dump
      if step['restart']:
        path = step['restart']
        with lib.clock(t):
          try:
            md = b.dump()
          except Exception as e:  # pylint: disable=broad-except
            out.violate('nsga2/restart/dump_raises/' + _exc(e),
                        'step %d: %r' % (i, e))
            return out
        md2 = tr.carry(md, path)
        t += 1
        with lib.clock(t):
          try:
            b, logb = make()
            b.load(md2)
          except Exception as e:  # pylint: disable=broad-except
            out.violate('nsga2/restart/load_raises/%s/%s' % (path, _exc(e)),
                        'step %d: %r' % (i, e))
            return out
        restarts += 1
        seen_since_restart = 0
        out.cls('path_' + path)
        d = lib.population_diff(a.population, b.population)
        if d is not None:
          out.violate('nsga2/population/after_load/%s/%s' % (path, d[0]),
                      'step %d: %s' % (i, d[1][:800]))
          return out
        if len(a.population):
          out.cls('restart_with_population')
        if seen_total >= fsa:
          out.cls('restart_in_mutation_phase')
          nt_pending = True
        else:
          out.cls('restart_in_sampling_phase')
    out.cls('restarts_%s' % ('0' if restarts == 0 else '1' if restarts == 1
                             else 'many'))
  finally:
    tr.close()
  return out


# ===========================================================================
# CMA-ES
# ===========================================================================
@st.composite
def cmaes_strategy(draw):
  n = draw(st.sampled_from([2, 2, 3]))
  names = ['x', 'y', 'z'][:n]
  params = []
  for nm in names:
    scale = draw(st.sampled_from([None, 'LINEAR', 'LOG']))
    lo, hi = draw(spaces.double_bounds(positive=scale == 'LOG',
                                       allow_degenerate=False))
    params.append({'name': nm, 'kind': 'DOUBLE', 'lo': lo, 'hi': hi,
                   'scale': scale})
  params = lib.tame({'params': params})['params']
  pop = draw(st.sampled_from([None, 4, 5]))
  pop_eff = pop or {2: 6, 3: 7}[n]
  aligned = draw(lib.chance(50 if KNOWN_CMAES_BUFFER else 15))
  steps = draw(lib.steps(infeasible=False, min_steps=3, max_steps=10))
  if aligned:
    # every update completes exactly pop_size trials -> the designer's
    # buffer of a partially evaluated population is empty at every restart
    for s in steps:
      s['count'] = pop_eff
      s['fb'] = [['ok', [draw(lib.value())]] for _ in range(pop_eff)]
  return {
      'designer': 'cmaes',
      'space': {'params': params},
      'goal': draw(st.sampled_from(['MAXIMIZE', 'MINIMIZE'])),
      'ctor': {'pop_size': pop, 'seed': draw(st.integers(0, 2 ** 31 - 1)),
               'init_stdev': draw(st.sampled_from([0.1, 0.3]))},
      'aligned': aligned,
      't0': draw(lib.t0()),
      'steps': steps,
  }


def setup_cmaes():
  # PythiaServicer.__init__ switches jax to float64 ("always use float64 for
  # all policies"); do it before any CMA-ES object exists so that the sql
  # path (which builds a servicer) cannot flip the dtype in mid-case.
  import jax
  jax.config.update('jax_enable_x64', True)


def check_cmaes(case):
  from vizier import algorithms as vza
  from vizier._src.algorithms.designers import cmaes
  setup_cmaes()
  out = core.Out()
  problem = lib.make_problem(case['space'], [['m', case['goal'], None]])
  ctor = case['ctor']
  n = len(case['space']['params'])
  pop_eff = ctor['pop_size'] or {2: 6, 3: 7}[n]
  kw = {'seed': ctor['seed'], 'init_stdev': ctor['init_stdev']}
  if ctor['pop_size']:
    kw['pop_size'] = ctor['pop_size']
  make = lambda: cmaes.CMAESDesigner(problem, **kw)
  out.cls(*spaces.classes_of(case['space']))
  if case.get('aligned'):
    out.cls('aligned_batches')

  def state(d):
    # the whole dump (today only the key 'state'), values canonicalised
    return {k: lib.json_canon(v) for k, v in lib.md_flat(d.dump()).items()}

  def generation(st_):
    import json
    g = json.loads(st_[(('cma',), 'state')])['g']
    return g['value'] if isinstance(g, dict) else g

  tr = lib.Transport(problem)
  t = case['t0']
  try:
    with lib.clock(t, 180.0):  # first calls jit-compile
      try:
        a = make()
      except Exception as e:  # pylint: disable=broad-except
        out.cls('A_raises:ctor:' + _exc(e))
        return out
      b = make()
    pending, next_id = [], 1
    fed = 0  # completed trials handed to update() so far
    restarts = 0
    lost_buffer = False  # a restart happened while trials were buffered
    # Bookkeeping for the bucket only: how many CMA generations a designer
    # that forgets its buffer at every restart would have completed (the
    # documented rule: one generation per pop_size completed trials).
    buf_b = gens_b = 0
    nt_pending = False
    ctx = lambda: ('after_restart_with_buffered_trials' if lost_buffer
                   else 'no_buffered_trials_at_any_restart')
    for i, step in enumerate(case['steps']):
      t += step['dt']
      with lib.clock(t, 180.0):  # first calls jit-compile
        try:
          sa = list(a.suggest(step['count']))
        except Exception as e:  # pylint: disable=broad-except
          out.cls('A_raises:suggest:' + _exc(e))
          return out
        try:
          sb = list(b.suggest(step['count']))
        except Exception as e:  # pylint: disable=broad-except
          out.violate('cmaes/suggest_raises_in_B/%s/%s' % (_exc(e), ctx()),
                      'step %d: %r' % (i, e))
          return out
      diff = lib.compare_suggestions(sa, sb)
      if diff is not None:
        out.violate('cmaes/suggest/%s_differ/%s' % (diff[0], ctx()),
                    'step %d (restarts %d): %s' % (i, restarts, diff[1]))
        return out
      if nt_pending:
        out.nontrivial = True
        nt_pending = False
      for s in sa:
        pending.append(s.to_trial(next_id))
        next_id += 1
      completed, still = [], []
      fbs = list(step['fb'])
      for tr_ in pending:
        fb = fbs.pop(0) if fbs else ['skip']
        if fb[0] == 'skip':
          still.append(tr_)
        else:
          completed.append(lib.finish(tr_, fb, ['m']))
      pending = still
      with lib.clock(t, 180.0):  # first calls jit-compile
        try:
          a.update(vza.CompletedTrials(copy.deepcopy(completed)),
                   vza.ActiveTrials(copy.deepcopy(pending)))
        except Exception as e:  # pylint: disable=broad-except
          out.cls('A_raises:update:' + _exc(e))
          return out
        try:
          b.update(vza.CompletedTrials(copy.deepcopy(completed)),
                   vza.ActiveTrials(copy.deepcopy(pending)))
        except Exception as e:  # pylint: disable=broad-except
          out.violate('cmaes/update_raises_in_B/%s/%s' % (_exc(e), ctx()),
                      'step %d: %r' % (i, e))
          return out
      gens_a_before, gens_b_before = fed // pop_eff, gens_b
      fed += len(completed)
      buf_b += len(completed)
      gens_b += buf_b // pop_eff
      buf_b %= pop_eff
      if fed >= pop_eff:
        out.cls('told_at_least_once')
      sa_, sb_ = state(a), state(b)
      if sa_ != sb_:
        # The states were equal after the previous update.  If a restart
        # dropped buffered trials, the states first differ in the update in
        # which the live instance or the forgetful one completes a population
        # (they are made of different trials), and both generation counters
        # are the ones the forgetful model predicts; anything else is a
        # different defect.
        try:
          ga, gb = generation(sa_), generation(sb_)
        except Exception:  # pylint: disable=broad-except
          ga = gb = None
        told_now = fed // pop_eff > gens_a_before or gens_b > gens_b_before
        if (lost_buffer and told_now and ga == fed // pop_eff
            and gb == gens_b):
          why = 'buffer_lost_at_restart'
        else:
          why = 'other/' + ctx()
        out.violate('cmaes/state_differs/' + why,
                    'step %d after %d completed trials (pop_size %d, %d '
                    'restarts; generation counter A=%s B=%s): A=%.400s '
                    'B=%.400s' % (i, fed, pop_eff, restarts, ga, gb,
                                  sorted(sa_.items()), sorted(sb_.items())))
        return out
      if step['restart']:
        path = step['restart']
        with lib.clock(t, 180.0):  # first calls jit-compile
          try:
            md = b.dump()
          except Exception as e:  # pylint: disable=broad-except
            out.violate('cmaes/restart/dump_raises/' + _exc(e),
                        'step %d: %r' % (i, e))
            return out
        md2 = tr.carry(md, path)
        t += 1
        with lib.clock(t, 180.0):  # first calls jit-compile
          try:
            b = make()
            b.load(md2)
          except Exception as e:  # pylint: disable=broad-except
            out.violate('cmaes/restart/load_raises/%s/%s' % (path, _exc(e)),
                        'step %d: %r' % (i, e))
            return out
        restarts += 1
        out.cls('path_' + path)
        # documented behaviour of the designer: completed trials are
        # buffered until pop_size of them are available
        out.cls('restart_buffer_nonempty' if fed % pop_eff
                else 'restart_buffer_empty')
        if buf_b:
          lost_buffer = True
          buf_b = 0
        if fed:
          nt_pending = True
        sa_, sb_ = state(a), state(b)
        if sa_ != sb_:
          out.violate('cmaes/state_differs_after_load/' + path,
                      'step %d: A=%.500s B=%.500s' % (i, sa_, sb_))
          return out
    out.cls('restarts_%s' % ('0' if restarts == 0 else '1' if restarts == 1
                             else 'many'))
  finally:
    tr.close()
  return out


# ===========================================================================
# hosted in the service
# ===========================================================================
SERVICE_ALGOS = ['GRID_SEARCH', 'GRID_SEARCH', 'SHUFFLED_GRID_SEARCH',
                 'QUASI_RANDOM_SEARCH', 'EAGLE_STRATEGY']


@st.composite
def service_strategy(draw):
  algo = draw(st.sampled_from(SERVICE_ALGOS))
  variant = 'default'
  if algo == 'SHUFFLED_GRID_SEARCH':
    # 'default' = DefaultPolicyFactory as shipped; 'policy_seed' = the same policy
    # wiring with the keyword the designer factory actually accepts
    p_default = 10 if KNOWN_SHUFFLED_FACTORY else 60
    variant = 'default' if draw(lib.chance(p_default)) else 'policy_seed'
  is_grid = 'GRID' in algo
  if is_grid:
    space = draw(lib.small_grid_space())
  else:
    space = lib.tame(draw(spaces.flat_space(min_params=1, max_params=3,
                                            degenerate=False)))
  if algo == 'EAGLE_STRATEGY':
    # the firefly pool (capacity >= 11 with the default config the service
    # uses) has to fill up before the saved pool influences the suggestions
    steps = draw(lib.steps(infeasible=True, min_steps=6, max_steps=12,
                           paths=('recreate',), p_restart=0.6, min_count=2,
                           eager=True))
  else:
    steps = draw(lib.steps(infeasible=False, min_steps=3, max_steps=10,
                           paths=('recreate',), p_restart=0.6))
  if is_grid:
    g = lib.grid_size(space)
    want = g + draw(st.integers(0, 4))
    while sum(s['count'] for s in steps) < want:
      steps.append({'count': draw(st.integers(3, 5)), 'fb': draw(st.lists(
          lib.feedback(1, False), max_size=5)), 'restart': draw(
              st.sampled_from([None, 'recreate'])), 'dt': 1})
  # some of the restarts delete the study and create it again instead
  for k, step in enumerate(steps):
    if k and step['restart'] and draw(lib.chance(15)):
      step['restart'] = 'delete_recreate'
  return {'algo': algo, 'variant': variant, 'space': space,
          'goal': draw(st.sampled_from(['MAXIMIZE', 'MINIMIZE'])),
          't0': draw(lib.t0()), 'steps': steps}


def _policy_seed_factory():
  """SHUFFLED_GRID_SEARCH wiring that reaches the designer.

  DefaultPolicyFactory binds `shuffle_seed=` on `from_problem`, which that
  classmethod does not accept (known finding).  This factory hands the
  clock-derived shuffle seed to the policy (`seed=`), which passes it to
  `from_problem(problem, seed=...)` when the study has no saved state; every
  later policy instance gets a different clock-derived seed and has to recover
  the original one from the saved state.
  """
  import time
  from vizier import pythia
  from vizier._src.algorithms.designers import grid
  from vizier._src.algorithms.policies import designer_policy as dp

  class Factory(pythia.PolicyFactory):

    def __call__(self, problem_statement, algorithm, policy_supporter,
                 study_name):
      del study_name
      assert algorithm == 'SHUFFLED_GRID_SEARCH', algorithm
      return dp.PartiallySerializableDesignerPolicy(
          problem_statement, policy_supporter,
          grid.GridSearchDesigner.from_problem, seed=int(time.time()))

  return Factory()


def check_service(case):
  from harness import svc
  from vizier import algorithms as vza
  from vizier import pyvizier as vz
  from vizier._src.algorithms.designers import grid
  from vizier._src.algorithms.designers import quasi_random
  from vizier.service import pyvizier as svz
  vsp = svc.vsp
  out = core.Out()
  algo, variant = case['algo'], case['variant']
  is_grid = 'GRID' in algo
  name = 'service/%s' % algo + ('' if variant == 'default' else ':' + variant)
  out.cls(algo, *spaces.classes_of(case['space']))
  if algo == 'SHUFFLED_GRID_SEARCH':
    out.cls('shuffled_' + variant)
    if variant != 'default' and KNOWN_SHUFFLED_FACTORY:
      out.cls('shuffled_default_avoided')
  tmp = lib.DbFiles()
  dbpath = tmp.path('vizier.db')
  pf = _policy_seed_factory() if variant == 'policy_seed' else None
  s = svc.make_servicer('sqlfile', policy_factory=pf, dbpath=dbpath)
  try:
    sc = svz.StudyConfig(algorithm=algo)
    spaces.build(case['space'], sc.search_space)
    sc.metric_information.append(vz.MetricInformation(
        'm', goal=getattr(vz.ObjectiveMetricGoal, case['goal'])))
    study = svc.create_study(s, 'o', 's', config=sc)
    sname = study.name
    problem = svz.StudyConfig.from_proto(study.study_spec).to_problem()
    t = case['t0']

    def make_a(now):
      with lib.clock(now, 60.0):
        if algo == 'GRID_SEARCH':
          return grid.GridSearchDesigner.from_problem(problem)
        if algo == 'SHUFFLED_GRID_SEARCH':
          import time
          return grid.GridSearchDesigner.from_problem(problem,
                                                      seed=int(time.time()))
        if algo == 'QUASI_RANDOM_SEARCH':
          return quasi_random.QuasiRandomDesigner.from_problem(problem)
        from vizier._src.algorithms.designers.eagle_strategy import eagle_strategy as es
        return es.EagleStrategyDesigner(problem)
    try:
      a = make_a(t + case['steps'][0]['dt'])
    except Exception as e:  # pylint: disable=broad-except
      out.cls('A_raises:ctor:' + _exc(e))
      return out
    fed = set()  # ids of completed trials already given to A
    pending = []  # trial ids ACTIVE in the service, oldest first
    completed_any = False
    recreations = 0
    nt_pending = False
    seq = []  # all suggested parameter dicts, in order
    for i, step in enumerate(case['steps']):
      t += step['dt']
      if step['restart'] == 'delete_recreate' and i > 0:
        # the study is deleted and created again under the same name by the
        # same server process: a new study, whose algorithm starts afresh
        s.DeleteStudy(vsp.DeleteStudyRequest(name=sname))
        study = svc.create_study(s, 'o', 's', config=sc)
        assert study.name == sname
        try:
          a = make_a(t)
        except Exception as e:  # pylint: disable=broad-except
          out.cls('A_raises:ctor:' + _exc(e))
          return out
        fed, pending, seq = set(), [], []
        completed_any = False
        out.cls('study_deleted_and_recreated')
      elif step['restart']:
        svc.close_servicer(s)
        s = svc.make_servicer('sqlfile', policy_factory=pf, dbpath=dbpath)
        recreations += 1
        out.cls('servicer_recreated')
        if completed_any:
          nt_pending = True
          out.cls('recreated_after_data')
      all_trials = [svz.TrialConverter.from_proto(p) for p in s.ListTrials(
          vsp.ListTrialsRequest(parent=sname)).trials]
      newly = [x for x in all_trials if x.status == vz.TrialStatus.COMPLETED
               and x.id not in fed]
      active = [x for x in all_trials if x.status == vz.TrialStatus.ACTIVE]
      fed.update(x.id for x in newly)
      with lib.clock(t, 60.0):
        try:
          a.update(vza.CompletedTrials(newly), vza.ActiveTrials(active))
          sa = list(a.suggest(step['count']))
        except Exception as e:  # pylint: disable=broad-except
          out.cls('A_raises:suggest:' + _exc(e))
          return out
        try:
          op = s.SuggestTrials(vsp.SuggestTrialsRequest(
              parent=sname, suggestion_count=step['count'],
              client_id='w%d' % i))
        except Exception as e:  # pylint: disable=broad-except
          inner = e.__cause__ or e
          out.violate('%s/suggest_fails/%s/raises:%s' % (
              name, 'first_call' if i == 0 else 'later_call', _exc(inner)),
                      'step %d: %r' % (i, e))
          return out
      if not op.done or op.HasField('error'):
        # (the service reports a failing policy either by raising or, since
        # the "SuggestTrials finishes the operation" fix, in the operation)
        out.violate('%s/suggest_fails/%s/operation_error' % (
            name, 'first_call' if i == 0 else 'later_call'),
                    'step %d: %s' % (i, str(op)[:300]))
        return out
      # SuggestTrials creates the new trials by popping the policy's
      # suggestion list from its end: the response is the designer's batch in
      # reverse order
      tb = [svz.TrialConverter.from_proto(p)
            for p in svc.suggest_response(op).trials][::-1]
      diff = lib.compare_suggestions(sa, tb, with_metadata=True)
      if diff is not None:
        out.violate('%s/suggest/%s_differ' % (name, diff[0]),
                    'step %d (servicer re-created %d times): %s' % (
                        i, recreations, diff[1]))
        return out
      if nt_pending and not is_grid:
        out.nontrivial = True
      # The state the service saved for the next policy instance must be the
      # state of the live instance (dump() is public; eagle stamps the wall
      # clock into it).
      with lib.clock(t, 60.0):
        try:
          da = lib.dump_flat(a.dump(), ('dump_timestamp',))
        except Exception as e:  # pylint: disable=broad-except
          da = None
          out.cls('dump_raises_on_A:' + _exc(e))
      if da is not None:
        saved = svz.StudyConfig.from_proto(s.GetStudy(vsp.GetStudyRequest(
            name=sname)).study_spec).metadata.ns(lib.ROOT_NS).ns(
                lib.DESIGNER_NS)
        db = lib.dump_flat(saved, ('dump_timestamp',))
        if da != db:
          k = lib.first_diff(da, db)
          out.violate('%s/saved_state_differs/%s' % (
              name, '.'.join(k[0] + (k[1],))),
                      'step %d key %r: live=%.300r saved=%.300r' % (
                          i, k, da.get(k), db.get(k)))
          return out
      seq.extend(lib.params_py(x) for x in tb)
      pending.extend(x.id for x in tb)
      still = []
      fbs = list(step['fb'])
      for tid in pending:
        fb = fbs.pop(0) if fbs else ['skip']
        if fb[0] == 'skip':
          still.append(tid)
          continue
        req = vsp.CompleteTrialRequest(name=svc.trial_name('o', 's', tid))
        if fb[0] == 'inf0':
          req.trial_infeasible = True
          req.infeasible_reason = 'harness: infeasible'
        else:
          req.final_measurement.CopyFrom(svc.measurement(float(fb[1][0])))
          if fb[0] == 'inf':
            req.trial_infeasible = True
            req.infeasible_reason = 'harness: infeasible'
        s.CompleteTrial(req)
        completed_any = True
      pending = still
    if is_grid:
      g = lib.grid_size(case['space'])
      if len(seq) >= g:
        out.cls('asked_for_whole_grid')
        if recreations and nt_pending:
          out.nontrivial = True
        _grid_cover(out, name, case['space'], seq[:g])
        if len(seq) > g:
          out.cls('wrapped_around')
    out.cls('recreations_%s' % ('0' if recreations == 0 else '1'
                                if recreations == 1 else 'many'))
  finally:
    svc.close_servicer(s)
    tmp.close()
  return out


# ===========================================================================
# policy_ns: designer policies with a caller-chosen `ns_root`
# ===========================================================================
NS_ROOTS = ['designer_policy_v0', 'custom_root', 'custom_root', 'ns2', 'ns2']


@st.composite
def policy_ns_strategy(draw):
  kind = draw(st.sampled_from(['grid', 'shuffled_grid', 'quasi',
                              'serializable_grid']))
  return {
      'designer': kind,
      'space': draw(_det_space()),
      'ns_root': draw(st.sampled_from(NS_ROOTS)),
      'seed': draw(st.integers(0, 2 ** 31 - 1)),
      't0': draw(lib.t0()),
      'steps': draw(lib.steps(infeasible=True, paths=('direct',))),
  }


def check_policy_ns(case):
  """A = one policy object kept in RAM; B = a new policy object after every
  step marked `restart` (what a service does per request).  Both are built
  through the public constructor with the same non-default `ns_root`; the
  study (an InRamPolicySupporter each) carries the state in between."""
  from vizier._src.algorithms.designers import grid
  from vizier._src.algorithms.designers import quasi_random
  from vizier._src.algorithms.policies import designer_policy as dp
  from vizier._src.pythia import local_policy_supporters as lps
  out = core.Out()
  kind = case['designer']
  problem = lib.make_problem(case['space'], [['m', 'MAXIMIZE', None]])
  out.cls(kind, *spaces.classes_of(case['space']))
  default_ns = case['ns_root'] == 'designer_policy_v0'
  out.cls('ns_default' if default_ns else 'ns_custom')
  if kind == 'quasi':
    factory = quasi_random.QuasiRandomDesigner.from_problem
    seed = case['seed']
  else:
    factory = grid.GridSearchDesigner.from_problem
    seed = case['seed'] if kind == 'shuffled_grid' else None

  if kind == 'serializable_grid':
    # SerializableDesignerPolicy (the other policy class with an `ns_root`
    # argument) hosts a harness designer: a grid that restores itself through
    # the `recover` classmethod.
    from vizier import algorithms as vza

    class SerGrid(vza.SerializableDesigner):

      def __init__(self):
        self._g = grid.GridSearchDesigner.from_problem(problem)

      def update(self, completed, all_active):
        self._g.update(completed, all_active)

      def suggest(self, count=None):
        return self._g.suggest(count)

      def dump(self):
        return self._g.dump()

      @classmethod
      def recover(cls, metadata):
        d = cls()
        d._g.load(metadata)  # raises DecodeError when there is no state
        return d

  def make(sup):
    if kind == 'serializable_grid':
      return dp.SerializableDesignerPolicy(
          sup.study_config, sup, lambda p, **kw: SerGrid(), SerGrid,
          ns_root=case['ns_root'])
    return dp.PartiallySerializableDesignerPolicy(
        sup.study_config, sup, factory, ns_root=case['ns_root'], seed=seed)

  t = case['t0']
  with lib.clock(t):
    sup_a = lps.InRamPolicySupporter(copy.deepcopy(problem))
    sup_b = lps.InRamPolicySupporter(copy.deepcopy(problem))
    try:
      pol_a = make(sup_a)
    except Exception as e:  # pylint: disable=broad-except
      out.cls('A_raises:ctor:' + _exc(e))
      return out
    pol_b = make(sup_b)
  restarts = 0
  pend_a, pend_b = [], []
  nt_pending = False
  for i, step in enumerate(case['steps']):
    t += step['dt']
    with lib.clock(t):
      try:
        ta = list(sup_a.SuggestTrials(pol_a, step['count']))
      except Exception as e:  # pylint: disable=broad-except
        out.cls('A_raises:suggest:' + _exc(e))
        return out
      try:
        tb = list(sup_b.SuggestTrials(pol_b, step['count']))
      except Exception as e:  # pylint: disable=broad-except
        out.violate('policy_ns/%s/suggest_raises_in_B/%s' % (kind, _exc(e)),
                    'step %d restarts so far %d ns_root %r: %r' % (
                        i, restarts, case['ns_root'], e))
        return out
    pa = [x.parameters.as_dict() for x in ta]
    pb = [x.parameters.as_dict() for x in tb]
    if pa != pb:
      out.violate('policy_ns/%s/suggest/parameters_differ/%s' % (
          kind, 'ns_default' if default_ns else 'ns_custom'),
                  'step %d (restarts so far %d, ns_root %r): A=%.300r B=%.300r'
                  % (i, restarts, case['ns_root'], pa, pb))
      return out
    if nt_pending and not default_ns:
      out.nontrivial = True
    nt_pending = False
    pend_a.extend(ta)
    pend_b.extend(tb)
    fbs = list(step['fb'])
    still_a, still_b = [], []
    for xa, xb in zip(pend_a, pend_b):
      fb = fbs.pop(0) if fbs else ['skip']
      if fb[0] == 'skip':
        still_a.append(xa)
        still_b.append(xb)
      else:
        lib.finish(xa, fb, ['m'])
        lib.finish(xb, fb, ['m'])
    pend_a, pend_b = still_a, still_b
    if step['restart']:
      t += 1
      with lib.clock(t):
        try:
          pol_b = make(sup_b)
        except Exception as e:  # pylint: disable=broad-except
          out.violate('policy_ns/%s/restart/ctor_raises/%s' % (kind, _exc(e)),
                      'step %d: %r' % (i, e))
          return out
      restarts += 1
      nt_pending = True
      out.cls('restart_ns_default' if default_ns else 'restart_ns_custom')
  out.cls('restarts_%s' % ('0' if restarts == 0 else '1' if restarts == 1
                           else 'many'))
  return out


def _grid_cover(out, name, spec, first_g):
  """first_g: the first G suggestions; must be the whole grid, each once."""
  names = [p['name'] for p in spec['params']]
  tuples = []
  for d in first_g:
    if set(d) != set(names):
      out.violate(name + '/grid/parameter_names', repr(d))
      return
    tuples.append(tuple(d[n] for n in names))
  if len(set(tuples)) != len(tuples):
    dup = sorted(x for x in set(tuples) if tuples.count(x) > 1)[0]
    out.violate(name + '/grid/point_repeated_before_cover',
                'grid of %d points; %r suggested at positions %r' % (
                    len(tuples), dict(zip(names, dup)),
                    [i for i, x in enumerate(tuples) if x == dup]))
    return
  for j, p in enumerate(spec['params']):
    kind, vals = lib.grid_axis(p)
    got = {x[j] for x in tuples}
    if kind == 'set':
      ok = len(got) == len(vals) and all(
          any(lib.same_value(v, w) or (not isinstance(v, str)
                                       and not isinstance(w, str) and v == w)
              for w in got) for v in vals)
    else:
      ok = len(got) == len(vals) and all(
          isinstance(v, float) and p['lo'] <= v <= p['hi'] for v in got)
    if not ok:
      out.violate(name + '/grid/axis_not_covered',
                  'param %r: expected %r got %r' % (p['name'], vals,
                                                    sorted(got, key=repr)))
      return


# ===========================================================================
def families(tier):
  det_required = ('path_direct', 'path_proto', 'path_sql',
                  'restart_after_data', 'restarts_0', 'restarts_many',
                  'restart_every_step')
  return [
      core.Family('grid', check_det, strategy=grid_strategy,
                  budget={'quick': 240, 'thorough': 4000},
                  shards={'quick': 4, 'thorough': 16},
                  required_classes=det_required + ('shuffled', 'unshuffled',
                                                   'wrapped_around')),
      core.Family('quasi', check_det, strategy=quasi_strategy,
                  budget={'quick': 240, 'thorough': 4000},
                  shards={'quick': 4, 'thorough': 16},
                  required_classes=det_required + ('seed_from_clock',
                                                   'seed_given')),
      core.Family('eagle', check_det, strategy=eagle_strategy,
                  budget={'quick': 320, 'thorough': 5000},
                  shards={'quick': 6, 'thorough': 16},
                  required_classes=det_required + (
                      'seed_from_clock', 'restart_with_full_pool',
                      'restart_with_partial_pool', 'infeasible_trial',
                      'small_pool')),
      core.Family('nsga2', check_nsga2, strategy=nsga2_strategy,
                  budget={'quick': 320, 'thorough': 5000},
                  shards={'quick': 6, 'thorough': 16},
                  required_classes=('path_direct', 'path_proto', 'path_sql',
                                    'restart_in_mutation_phase',
                                    'restart_in_sampling_phase',
                                    'restart_with_population',
                                    'phase_mutate', 'phase_sample',
                                    'multi_objective', 'callable',
                                    'fixed_adaptation')),
      core.Family('cmaes', check_cmaes, strategy=cmaes_strategy,
                  setup=setup_cmaes,
                  budget={'quick': 200, 'thorough': 500},
                  shards={'quick': 8, 'thorough': 16},
                  required_classes=('path_direct', 'path_proto', 'path_sql',
                                    'restart_buffer_empty',
                                    'restart_buffer_nonempty',
                                    'told_at_least_once')),
      core.Family('service', check_service, strategy=service_strategy,
                  budget={'quick': 240, 'thorough': 4000},
                  shards={'quick': 6, 'thorough': 16},
                  required_classes=('GRID_SEARCH', 'SHUFFLED_GRID_SEARCH',
                                    'QUASI_RANDOM_SEARCH', 'EAGLE_STRATEGY',
                                    'recreated_after_data',
                                    'asked_for_whole_grid',
                                    'wrapped_around')),
      core.Family('policy_ns', check_policy_ns, strategy=policy_ns_strategy,
                  budget={'quick': 240, 'thorough': 4000},
                  shards={'quick': 4, 'thorough': 16},
                  required_classes=('grid', 'shuffled_grid', 'quasi',
                                    'serializable_grid', 'ns_default', 'restart_ns_custom',
                                    'restarts_many')),
  ]
