"""C10 Metadata is an exact last-writer-wins key-value store across namespaces.

Families
  ns_enum    exhaustive: every namespace tuple of <=3 components, each component
             a string of <=2 characters over {a : \\ e-acute space}; oracle
             decode(encode(ns)) == ns (which implies injectivity of encode) and
             encode(decode(encode(ns))) == encode(ns).
  ns_random  Hypothesis: tuples of 0..5 arbitrary unicode strings biased to the
             separator characters; same oracle plus pairwise injectivity within
             the drawn batch.
  store      generated histories of metadata updates against a served study
             (RAM and SQL; raw UpdateMetadata RPC or clients.* API; user writes,
             policy writes under its reserved root, trial creation with initial
             metadata, completion) compared after every step with a dict model
             keyed by (scope, namespace tuple, key).
"""
import itertools

from hypothesis import strategies as st

from harness import core

ID = 'C10'
LEVEL = 'exploration'
RULE = ('ns_enum: exhaustive product over the adversarial alphabet; non-trivial'
        ' = namespace has a colon, a backslash or an empty component. '
        'store: Hypothesis-generated op lists (study/trial/batched updates, '
        'policy writes during suggest, trial creation/completion, deltas '
        'naming a missing trial); non-trivial = the history overwrites an '
        'existing (scope,ns,key) AND touches >=2 namespaces one of which '
        'contains a colon, backslash or empty component. distinct = SHA-1 of '
        'the canonical JSON case.')
ASSUMPTIONS = [
    'values are compared at proto level (string value or packed Any bytes)',
    'the harness policy stands for "an algorithm": it writes only under its '
    'reserved root namespace ("harness", ...)',
]

ALPHA = ['a', ':', '\\', 'é', ' ']


def _components():
  comps = ['']
  comps += ALPHA
  comps += [x + y for x in ALPHA for y in ALPHA]
  return comps


def _hostile(ns):
  return any((c == '' or ':' in c or '\\' in c) for c in ns)


# ---------------------------------------------------------------- namespaces
def check_ns(case):
  from vizier import pyvizier as vz
  out = core.Out()
  batch = case['batch']
  seen = {}
  for ns in batch:
    ns = tuple(ns)
    n = vz.Namespace(ns)
    enc = n.encode()
    if not isinstance(enc, str):
      out.violate('ns/encode_type', 'encode(%r) -> %r' % (ns, enc))
      continue
    dec = vz.Namespace.decode(enc)
    if tuple(dec) != ns or dec != n:
      out.violate('ns/roundtrip', 'ns=%r encode=%r decode=%r' % (
          ns, enc, tuple(dec)))
    elif dec.encode() != enc:
      out.violate('ns/reencode', 'ns=%r' % (ns,))
    if enc in seen and seen[enc] != ns:
      out.violate('ns/collision', '%r and %r both encode to %r' % (
          seen[enc], ns, enc))
    seen[enc] = ns
    if len(n) != len(ns):
      out.violate('ns/len', repr(ns))
  out.nontrivial = any(_hostile(ns) for ns in batch)
  out.cls('hostile' if out.nontrivial else 'plain')
  if any(len(ns) == 0 for ns in batch):
    out.cls('empty_tuple')
  return out


def enum_ns(tier):
  comps = _components()
  cases = []
  batch = []
  for k in range(0, 4):
    for tup in itertools.product(comps, repeat=k):
      batch.append(list(tup))
      if len(batch) == 64:
        cases.append({'batch': batch})
        batch = []
  if batch:
    cases.append({'batch': batch})
  return cases


def ns_strategy():
  comp = st.one_of(
      st.text(alphabet=ALPHA + ['b', '\\', ':', '\\'], max_size=6),
      st.text(max_size=5))
  ns = st.lists(comp, max_size=5)
  return st.fixed_dictionaries({'batch': st.lists(ns, min_size=1, max_size=8)})


# --------------------------------------------------------------------- store
# keys that contain the namespace separator: (ns (), key 'a:b'), (ns ('a',),
# key 'b') and friends are different entries whatever string they are joined to
KEYS = ['k', 'k', '', 'a:b', 'é', 'b', 'b:c', 'c']


def _value():
  return st.one_of(
      st.tuples(st.just('s'), st.sampled_from(['', 'v', 'w', 'é:\\', '0'])),
      st.tuples(st.just('s'), st.text(max_size=6)),
      st.tuples(st.just('dur'), st.integers(0, 5)),
      st.tuples(st.just('any'), st.sampled_from(['', 'type.x/Y']),
                st.binary(max_size=4).map(lambda b: b.hex())),
  ).map(list)


def store_strategy():
  comp = st.sampled_from(_components()[:12] + ['ab', 'a:', '\\:', ':\\'])
  ns = st.lists(comp, max_size=3)
  nsidx = st.integers(0, 3)
  key = st.sampled_from(KEYS)
  tref = st.one_of(st.integers(0, 5), st.integers(0, 5), st.integers(0, 5),
                   st.integers(0, 5), st.integers(0, 5), st.integers(0, 5),
                   st.just('missing'), st.just('missing'), st.just('missing'),
                   # not the id of any trial: rejected, nothing changes
                   st.sampled_from(['bad:0', 'bad:-3', 'bad:abc']))
  item = st.one_of(
      st.tuples(st.just('study'), nsidx, key, _value()),
      st.tuples(tref, nsidx, key, _value())).map(list)
  algo_item = st.tuples(st.one_of(st.just('study'), st.integers(0, 5)),
                        nsidx, key, _value()).map(list)
  op = st.one_of(
      st.tuples(st.just('set_study'), nsidx, key, _value()),
      st.tuples(st.just('set_trial'), tref, nsidx, key, _value()),
      st.tuples(st.just('delta'), st.lists(item, min_size=1, max_size=4)),
      # one request whose entries for two trials and the study alternate
      st.tuples(st.just('delta'), st.lists(
          st.tuples(st.sampled_from([0, 1, 0, 1, 'study']), nsidx, key,
                    _value()).map(list), min_size=3, max_size=6)),
      st.tuples(st.just('suggest'), st.sampled_from(['w1', 'w2']),
                st.integers(1, 2), st.lists(algo_item, max_size=3),
                # the algorithm may deliver nothing and still persist state
                st.sampled_from(['exact', 'exact', 'nothing'])),
      st.tuples(st.just('create_trial'),
                st.lists(st.tuples(nsidx, key, _value()).map(list),
                         max_size=2)),
      st.tuples(st.just('complete'), st.integers(0, 5)),
      # the sibling study (if the case has one) gets another trial: its rows
      # are then newer than those of same-numbered trials of the main study
      st.tuples(st.just('sibling_trial')),
      st.tuples(st.just('sibling_trial')),
  ).map(list)
  return st.fixed_dictionaries({
      'backend': st.sampled_from(['ram', 'sqlmem']),
      'via': st.sampled_from(['raw', 'client']),
      # a sibling study of the same owner with trials of the same ids and
      # metadata of its own: it must never be read or written
      'sibling': st.sampled_from([False, True]),
      'namespaces': st.one_of(
          st.lists(ns, min_size=4, max_size=4),
          st.lists(ns, min_size=1, max_size=1).map(
              lambda l: [[], ['a'], ['a', 'b']] + l)),
      'ops': st.lists(op, min_size=3, max_size=24),
  })


def _mk_value(v):
  """-> (python value for Metadata, canonical comparable)."""
  from google.protobuf import any_pb2, duration_pb2
  if v[0] == 's':
    return v[1], ('s', v[1])
  if v[0] == 'dur':
    a = any_pb2.Any()
    a.Pack(duration_pb2.Duration(seconds=v[1]))
    return a, ('p', a.type_url, a.value)
  a = any_pb2.Any(type_url=v[1], value=bytes.fromhex(v[2]))
  return a, ('p', a.type_url, a.value)


def _canon_value(val):
  from google.protobuf import any_pb2
  if isinstance(val, str):
    return ('s', val)
  if isinstance(val, any_pb2.Any):
    return ('p', val.type_url, val.value)
  a = any_pb2.Any()
  a.Pack(val)
  return ('p', a.type_url, a.value)


def _flatten(md):
  return {(tuple(ns), k): _canon_value(v) for ns, k, v in md.all_items()}


def check_store(case):
  from harness import svc
  from vizier import pyvizier as vz
  from vizier._src.service import clients, vizier_client
  from vizier._src.service import key_value_pb2
  vsp = svc.vsp
  out = core.Out()
  nss = [tuple(n) for n in case['namespaces']]
  plan = svc.Plan(write_md=False)
  s = svc.make_servicer(case['backend'],
                        policy_factory=svc.HarnessPolicyFactory(plan))
  try:
    st_ = svc.create_study(s, 'o', 's')
    sname = st_.name
    client = vizier_client.VizierClient(sname, 'w1', s)
    study = clients.Study(client)
    sibling_snapshot = None
    if case.get('sibling'):
      out.cls('sibling_study')
      sib = svc.create_study(s, 'o', 's2')
      for k_ in range(2):
        t_ = svc.params_to_trial_proto(svc.det_params(40 + k_))
        t_.metadata.add(key='sib', value='t%d' % k_)
        s.CreateTrial(vsp.CreateTrialRequest(parent=sib.name, trial=t_))
      req_ = vsp.UpdateMetadataRequest(name=sib.name)
      u_ = req_.delta.add()
      u_.metadatum.key, u_.metadatum.value = 'sib', 'study'
      s.UpdateMetadata(req_)

      def sibling_state():
        return (svc.pb_hex(svc.norm_study(s.GetStudy(vsp.GetStudyRequest(
            name=sib.name)))), [svc.pb_hex(svc.norm_trial(t)) for t in
                                s.ListTrials(vsp.ListTrialsRequest(
                                    parent=sib.name)).trials])
      sibling_snapshot = sibling_state()
    model = {}  # (scope, ns, key) -> canon value ; scope 'study' or int id
    trials = []  # ids in creation order
    touched_ns = set()
    overwrote = False

    def resolve(tref):
      if isinstance(tref, str) and tref.startswith('bad:'):
        out.cls('invalid_trial_id')
        return tref[4:], False
      if tref == 'missing' or not trials:
        return (max(trials) if trials else 0) + 7, False
      return trials[tref % len(trials)], True

    def kv(nsx, key, v):
      pyv, _ = _mk_value(v)
      m = key_value_pb2.KeyValue(ns=vz.Namespace(nss[nsx]).encode(), key=key)
      if isinstance(pyv, str):
        m.value = pyv
      else:
        m.proto.CopyFrom(pyv)
      return m

    def apply_user(items):
      """items: [(scope, nsx, key, v)], scope 'study' or resolved int id.

      Returns error flag (True = the service reported an error)."""
      if case['via'] == 'raw':
        req = vsp.UpdateMetadataRequest(name=sname)
        for scope, nsx, key, v in items:
          u = req.delta.add()
          if scope != 'study':
            u.trial_id = str(scope)
          u.metadatum.CopyFrom(kv(nsx, key, v))
        try:
          resp = s.UpdateMetadata(req)
        except Exception as e:  # an escaping exception also reports an error
          out.cls('error_as_exception:' + type(e).__name__)
          return True
        return bool(resp.error_details)
      delta = vz.MetadataDelta()
      for scope, nsx, key, v in items:
        if len(nss[nsx]) == 1 and (len(key) + nsx) % 2 == 0:
          # the one-namespace convenience API of MetadataDelta
          out.cls('delta_assign_api')
          if scope == 'study':
            delta.assign(nss[nsx][0], key, _mk_value(v)[0])
          else:
            tid_ = int(scope) if str(scope).lstrip('-').isdigit() else scope
            delta.assign(nss[nsx][0], key, _mk_value(v)[0], trial_id=tid_)
          continue
        tgt = delta.on_study if scope == 'study' else delta.on_trials[scope]
        tgt.abs_ns(nss[nsx])[key] = _mk_value(v)[0]
      try:
        client.update_metadata(delta)
        return False
      except RuntimeError:
        return True
      except Exception as e:  # pylint: disable=broad-except
        out.cls('error_as_exception:' + type(e).__name__)
        return True

    def commit(items):
      nonlocal overwrote
      for scope, ns, key, v in items:
        k = (scope, ns, key)
        if k in model:
          overwrote = True
        model[k] = _mk_value(v)[1]
        touched_ns.add(ns)

    def compare(step, op):
      cfg = study.materialize_study_config()
      got = {('study',) + k: v for k, v in _flatten(cfg.metadata).items()}
      for t in study.trials().get():
        for k, v in _flatten(t.metadata).items():
          got[(t.id,) + k] = v
      if got != model:
        missing = sorted((k for k in model if k not in got), key=repr)
        extra = sorted((k for k in got if k not in model), key=repr)
        diff = sorted((k for k in model if k in got and got[k] != model[k]), key=repr)
        kind = ('missing' if missing else 'extra' if extra else 'wrong_value')
        out.violate('store/%s/after_%s' % (kind, op[0]),
                    'step %d op=%r missing=%r extra=%r differ=%r' % (
                        step, op, missing[:3], extra[:3], diff[:3]))
        return False
      return True

    for step, op in enumerate(case['ops']):
      kind = op[0]
      if kind == 'set_study':
        _, nsx, key, v = op
        err = apply_user([('study', nsx, key, v)])
        if err:
          out.violate('store/unexpected_error/set_study', repr(op))
        else:
          commit([('study', nss[nsx], key, v)])
      elif kind == 'set_trial':
        _, tref, nsx, key, v = op
        tid, exists = resolve(tref)
        err = apply_user([(tid, nsx, key, v)])
        if exists and err:
          out.violate('store/unexpected_error/set_trial', repr(op))
        elif not exists and not err:
          out.violate('store/missing_trial_not_reported/set_trial', repr(op))
        elif exists:
          commit([(tid, nss[nsx], key, v)])
        if not exists:
          out.cls('missing_trial_update')
      elif kind == 'delta':
        items = []
        all_exist = True
        for scope, nsx, key, v in op[1]:
          if scope == 'study':
            items.append(('study', nsx, key, v))
          else:
            tid, exists = resolve(scope)
            all_exist = all_exist and exists
            items.append((tid, nsx, key, v))
        err = apply_user(items)
        if all_exist and err:
          out.violate('store/unexpected_error/delta', repr(op))
        elif not all_exist and not err:
          out.violate('store/missing_trial_not_reported/delta', repr(op))
        elif all_exist:
          commit([(sc, nss[nsx], key, v) for sc, nsx, key, v in items])
        if not all_exist:
          out.cls('missing_trial_update')
          if len(items) > 1:
            out.cls('mixed_delta_with_missing_trial')
        scopes = [i[0] for i in items if i[0] != 'study']
        if any(scopes[i] != scopes[i + 1] and scopes[i] in scopes[i + 2:]
               for i in range(len(scopes) - 2)):
          out.cls('interleaved_trials_in_one_delta')
      elif kind == 'suggest':
        _, worker, n, writes = op[:4]
        delivery = op[4] if len(op) > 4 else 'exact'
        idx = plan.suggest_calls
        while len(plan.deliveries) <= idx:
          plan.deliveries.append(0)
        plan.deliveries[idx] = -10 if delivery == 'nothing' else 0
        resolved = []
        for scope, nsx, key, v in writes:
          if scope == 'study':
            resolved.append(('study', nss[nsx], key, v))
          elif trials:
            resolved.append((trials[scope % len(trials)], nss[nsx], key, v))
        plan.md_writes[idx] = [(sc, ns, key, _mk_value(v)[0])
                               for sc, ns, key, v in resolved]
        before = plan.suggest_calls
        o = s.SuggestTrials(vsp.SuggestTrialsRequest(
            parent=sname, suggestion_count=n, client_id=worker))
        if not o.done or o.HasField('error'):
          out.violate('store/suggest_failed', '%r -> %s' % (op, o))
        invoked = plan.suggest_calls > before
        if not invoked:
          plan.md_writes.pop(idx, None)
        else:
          commit([(sc, (svc.HNS,) + ns, key, v)
                  for sc, ns, key, v in resolved])
          if resolved:
            out.cls('algorithm_write')
            if delivery == 'nothing':
              out.cls('algorithm_write_with_zero_suggestions')
        for t in svc.suggest_response(o).trials:
          if int(t.id) not in trials:
            trials.append(int(t.id))
      elif kind == 'create_trial':
        t = svc.params_to_trial_proto(svc.det_params(len(trials)))
        init = {}
        for nsx, key, v in op[1]:
          init[(nss[nsx], key)] = v
        for (ns, key), v in init.items():
          m = t.metadata.add()
          m.CopyFrom(kv(nss.index(ns), key, v))
        t = s.CreateTrial(vsp.CreateTrialRequest(parent=sname, trial=t))
        trials.append(int(t.id))
        commit([(int(t.id), ns, key, v) for (ns, key), v in init.items()])
      elif kind == 'sibling_trial':
        if sibling_snapshot is not None:
          t_ = svc.params_to_trial_proto(svc.det_params(50 + step))
          t_.metadata.add(key='sib', value='later%d' % step)
          s.CreateTrial(vsp.CreateTrialRequest(parent=sib.name, trial=t_))
          sibling_snapshot = sibling_state()
          out.cls('sibling_trial_added_later')
      elif kind == 'complete':
        if trials:
          tid = trials[op[1] % len(trials)]
          try:
            s.CompleteTrial(vsp.CompleteTrialRequest(
                name=svc.trial_name('o', 's', tid),
                final_measurement=svc.measurement(1.0)))
            out.cls('completed_a_trial')
          except Exception:  # illegal state: fine, nothing may change
            pass
      if not compare(step, op):
        break
      if sibling_snapshot is not None and sibling_state() != sibling_snapshot:
        out.violate('store/sibling_study_changed/after_%s' % kind,
                    'step %d op=%r: study s2 of the same owner changed' % (
                        step, op))
        break
    hostile_ns = any(_hostile(ns) for ns in touched_ns)
    out.nontrivial = overwrote and len(touched_ns) >= 2 and hostile_ns
    if overwrote:
      out.cls('overwrite')
    if hostile_ns:
      out.cls('hostile_ns')
    out.cls('via_' + case['via'], case['backend'])
  finally:
    svc.close_servicer(s)
  return out



# ------------------------------------------------------- in-RAM supporter
def inram_strategy():
  comp = st.sampled_from(_components()[:12] + ['ab', 'a:', '\\:', ':\\'])
  ns = st.lists(comp, max_size=3)
  nsidx = st.integers(0, 3)
  key = st.sampled_from(KEYS)
  scope = st.one_of(st.just('study'), st.integers(0, 4))
  item = st.tuples(scope, nsidx, key, _value()).map(list)
  op = st.one_of(
      # the algorithm's decision carries a MetadataDelta
      st.tuples(st.just('algo'), st.integers(0, 2),
                st.lists(item, min_size=1, max_size=4),
                # how the delta's Metadata objects are handed over: the root
                # object, or a view of the same store positioned in a namespace
                st.sampled_from(['root', 'view_ns', 'view_abs', 'attach'])),
      # the user edits metadata of the study / of a trial directly
      st.tuples(st.just('user'), item),
  ).map(list)
  return st.fixed_dictionaries({
      'namespaces': st.lists(ns, min_size=4, max_size=4),
      'ops': st.lists(op, min_size=3, max_size=16)})


def check_inram(case):
  from harness import boot
  boot.init()
  from vizier import pythia
  from vizier import pyvizier as vz
  out = core.Out()
  nss = [tuple(n) for n in case['namespaces']]
  problem = vz.ProblemStatement()
  problem.search_space.root.add_float_param('x', 0.0, 1.0)
  problem.metric_information.append(vz.MetricInformation(
      'm', goal=vz.ObjectiveMetricGoal.MAXIMIZE))
  sup = pythia.InRamPolicySupporter(problem)
  box = {}

  class Policy(pythia.Policy):

    def suggest(self, request):
      return pythia.SuggestDecision(
          [vz.TrialSuggestion({'x': 0.5}) for _ in range(box['n'])],
          metadata=box['delta'])

    def early_stop(self, request):
      raise NotImplementedError()
  policy = Policy()
  box.update(n=2, delta=vz.MetadataDelta())
  sup.SuggestTrials(policy, 2)  # trials 1, 2
  model = {}
  touched = set()
  overwrote = False

  def build(items, style):
    """items: [(scope, ns tuple, key, py value)] -> MetadataDelta."""
    per = {}
    for scope, ns, key, val in items:
      per.setdefault(scope, vz.Metadata()).abs_ns(vz.Namespace(ns))[key] = val

    def hand(md, ns0):
      if style == 'root':
        return md
      if style == 'view_ns':
        return md.ns('algo_state')  # same store, positioned elsewhere
      if style == 'view_abs':
        return md.abs_ns(vz.Namespace(ns0))
      fresh = vz.Metadata()  # 'attach': copied into another object
      fresh.attach(md)
      return fresh
    delta = vz.MetadataDelta()
    on_trials = {}
    on_study = vz.Metadata()
    for scope, md in per.items():
      ns0 = [i[1] for i in items if i[0] == scope][0]
      if scope == 'study':
        on_study = hand(md, ns0)
      else:
        on_trials[scope] = hand(md, ns0)
    return vz.MetadataDelta(on_study=on_study, on_trials=on_trials)

  def flat(md):
    return {(tuple(ns), k): _canon_value(v) for ns, k, v in md.all_items()}

  for step, op in enumerate(case['ops']):
    ids = sorted(t.id for t in sup.trials)
    if op[0] == 'algo':
      _, n, raw_items, style = op
      items = []
      for scope, nsx, key, v in raw_items:
        sc = 'study' if scope == 'study' else ids[scope % len(ids)]
        items.append((sc, nss[nsx], key, v))
      box.update(n=n, delta=build(
          [(sc, ns, key, _mk_value(v)[0]) for sc, ns, key, v in items], style))
      try:
        sup.SuggestTrials(policy, max(n, 1))
      except Exception as e:  # pylint: disable=broad-except
        out.violate('inram/suggest_raised/%s' % type(e).__name__,
                    'step %d op=%r: %r' % (step, op, e))
        break
      for sc, ns, key, v in items:
        k = (sc, ns, key)
        overwrote = overwrote or k in model
        model[k] = _mk_value(v)[1]
        touched.add(ns)
      out.cls('delta_' + style)
    else:
      scope, nsx, key, v = op[1]
      sc = 'study' if scope == 'study' else ids[scope % len(ids)]
      tgt = sup.study_config.metadata if sc == 'study' else [
          t for t in sup.trials if t.id == sc][0].metadata
      tgt.abs_ns(vz.Namespace(nss[nsx]))[key] = _mk_value(v)[0]
      k = (sc, nss[nsx], key)
      overwrote = overwrote or k in model
      model[k] = _mk_value(v)[1]
      touched.add(nss[nsx])
      out.cls('user_entry')
    got = {('study',) + k: v for k, v in flat(sup.study_config.metadata).items()}
    for t in sup.GetTrials():
      for k, v in flat(t.metadata).items():
        got[(t.id,) + k] = v
    if got != model:
      missing = sorted((k for k in model if k not in got), key=repr)
      extra = sorted((k for k in got if k not in model), key=repr)
      diff = sorted((k for k in model if k in got and got[k] != model[k]),
                    key=repr)
      kind = 'missing' if missing else 'extra' if extra else 'wrong_value'
      out.violate('inram/%s/after_%s%s' % (kind, op[0], (
          '_' + op[3]) if op[0] == 'algo' else ''),
                  'step %d op=%r missing=%r extra=%r differ=%r' % (
                      step, op, missing[:3], extra[:3], diff[:3]))
      break
  out.nontrivial = overwrote and len(touched) >= 2
  if overwrote:
    out.cls('overwrite')
  return out


# ------------------------------------------------- coverage-guided fuzzing
def enum_fuzz(tier):
  runs = 60000 if tier == 'quick' else 3000000
  n = 2 if tier == 'quick' else 8
  return [{'fuzz': {'runs': runs, 'shard': i}, 'found': []} for i in range(n)]


def check_ns_fuzz(case):
  """Runs the atheris/libFuzzer target harness/fuzz_ns.py (oracle inside the
  target) in a subprocess; a crashing input is decoded back into the
  namespace tuple and judged by check_ns, so the replay file needs no fuzzer."""
  import os
  import shutil
  import subprocess
  import sys
  import tempfile
  out = core.Out()
  if case.get('found'):
    res = check_ns({'batch': case['found']})
    res.cls('fuzz_replay')
    return res
  deps = os.path.join(core.VERIF, '.deps')
  if not os.path.isdir(os.path.join(deps, 'atheris')):
    out.inconclusive = True
    out.cls('atheris_not_installed')
    return out
  from harness import fuzz_ns
  work = tempfile.mkdtemp(prefix='verif-fuzz-')
  try:
    corpus = os.path.join(work, 'corpus')
    art = os.path.join(work, 'art') + os.sep
    os.makedirs(corpus)
    os.makedirs(art)
    seed = core.derive_seed(os.environ.get('VERIF_SEED', '1'), 'C10', 'fuzz',
                            case['fuzz']['shard']) % (2 ** 31 - 1) + 1
    cmd = [sys.executable, os.path.join(core.VERIF, 'harness', 'fuzz_ns.py'),
           '-runs=%d' % case['fuzz']['runs'], '-seed=%d' % seed,
           '-artifact_prefix=' + art, '-max_len=64', corpus]
    p = subprocess.run(cmd, capture_output=True, text=True, timeout=3000,
                       cwd=work)
    crashes = [f for f in os.listdir(art) if f.startswith('crash-')]
    out.count('fuzz_executions', case['fuzz']['runs'])
    out.cls('fuzz_campaign')
    if crashes:
      data = open(os.path.join(art, crashes[0]), 'rb').read()
      ns = list(fuzz_ns.decode_input(data))
      res = check_ns({'batch': [ns]})
      for v in res.violations:
        out.violate('fuzz/' + v['bucket'], v['detail'])
      if not res.violations:
        out.violate('fuzz/crash_not_reproduced', 'input %r -> %r; fuzzer said: '
                    '%s' % (data, ns, p.stderr[-300:]))
      case['found'].append(ns)  # travels into the replay file
    elif p.returncode != 0:
      raise RuntimeError('fuzz target failed: %s' % p.stderr[-1500:])
    corp = len(os.listdir(corpus))
    out.notes['corpus'] = corp
    out.nontrivial = corp > 1
  finally:
    shutil.rmtree(work, ignore_errors=True)
  return out


def families(tier):
  return [
      core.Family('ns_enum', check_ns, enumerate=enum_ns,
                  shards={'quick': 4, 'thorough': 4},
                  required_classes=('hostile', 'empty_tuple')),
      core.Family('ns_random', check_ns, strategy=ns_strategy,
                  budget={'quick': 2000, 'thorough': 60000},
                  shards={'quick': 4, 'thorough': 16},
                  required_classes=('hostile',)),
      core.Family('store', check_store, strategy=store_strategy,
                  budget={'quick': 1600, 'thorough': 40000},
                  shards={'quick': 8, 'thorough': 16},
                  required_classes=('overwrite', 'hostile_ns',
                                    'missing_trial_update',
                                    'mixed_delta_with_missing_trial',
                                    'algorithm_write',
                                    'algorithm_write_with_zero_suggestions',
                                    'via_raw', 'via_client',
                                    'ram', 'sqlmem', 'sibling_study',
                                    'sibling_trial_added_later',
                                    'interleaved_trials_in_one_delta')),
      core.Family('inram_store', check_inram, strategy=inram_strategy,
                  budget={'quick': 1200, 'thorough': 30000},
                  shards={'quick': 4, 'thorough': 16},
                  required_classes=('overwrite', 'user_entry', 'delta_root',
                                    'delta_view_ns', 'delta_view_abs',
                                    'delta_attach')),
      core.Family('ns_fuzz', check_ns_fuzz, enumerate=enum_fuzz,
                  shards={'quick': 2, 'thorough': 8},
                  required_classes=('fuzz_campaign',)),
  ]
