"""C06 A failing algorithm is reported and never wedges the study.

Family `faults`: generated fault plans for a harness policy (per Pythia
invocation: ok / raise one of 9 exception types / deliver 0..n+3 suggestions;
same for early stopping), each followed by generated client calls by the same
and by other workers; deployments: in-process Pythia and a Pythia server
behind a real gRPC hop (DistributedPythiaVizierServer); RAM and SQL.
"""
from harness import core

ID = 'C06'
LEVEL = 'fault_enumeration'
RULE = ('Hypothesis-generated fault plans x follow-up histories. A plan '
        'assigns to each of the first 8 suggest invocations and first 6 '
        'early-stop invocations of the policy one of: ok, raise <one of 9 '
        'exception types incl. grpc.RpcError and TemporaryPythiaError>, '
        'deliver +/-k suggestions. non-trivial = a fault (exception or short '
        'delivery) is followed by a suggest of the same worker. distinct = '
        'SHA-1 of case JSON.')
ASSUMPTIONS = [
    'faults are injected through the public policy_factory argument; the '
    'exception types are a sample of what an algorithm can raise',
    'liveness is made finite: the follow-up call must return within one RPC '
    '(+<=5 GetOperation polls through the client)',
]

EXC_NAMES = ['ValueError', 'KeyError', 'RuntimeError', 'ZeroDivisionError',
             'TemporaryPythiaError', 'Exception', 'RpcError', 'IndexError',
             'AssertionError', 'NotImplementedError']

_SERVERS = {}
_COUNTER = [0]


def strategy():
  from hypothesis import strategies as st
  fault = st.one_of(
      st.sampled_from([0, 0, 0, 1, 3, -1, -2, -5]),
      st.sampled_from(EXC_NAMES).map(lambda n: 'raise:' + n),
      st.sampled_from(['ValueError', 'KeyError', 'RpcError']).map(
          lambda n: 'factory:' + n))
  esf = st.one_of(st.sampled_from(['ok:False', 'ok:True', 'ok:False']),
                  st.sampled_from(EXC_NAMES).map(lambda n: 'raise:' + n))
  worker = st.sampled_from(['w1', 'w1', 'w2'])
  tid = st.sampled_from([1, 1, 2, 2, 3, 4, 5])
  op = st.one_of(
      st.tuples(st.just('suggest'), worker, st.integers(1, 3),
                st.sampled_from(['raw', 'client'])),
      st.tuples(st.just('suggest'), worker, st.integers(1, 3),
                st.sampled_from(['raw', 'client'])),
      st.tuples(st.just('complete'), tid),
      st.tuples(st.just('early_stop'), tid, st.sampled_from(['raw', 'client'])),
      st.tuples(st.just('early_stop'), tid, st.sampled_from(['raw', 'client'])),
      st.tuples(st.just('list')),
  ).map(list)
  return st.fixed_dictionaries({
      'backend': st.sampled_from(['ram', 'sqlmem']),
      'deploy': st.sampled_from(['local', 'local', 'distributed']),
      'recycle': st.sampled_from([0, 86400]),
      # the server's local time zone must not matter for recycling operations
      'tz': st.sampled_from(['UTC', 'UTC', 'America/Los_Angeles',
                             'Asia/Tokyo', 'Pacific/Kiritimati']),
      'suggest_plan': st.lists(fault, min_size=8, max_size=8),
      'es_plan': st.lists(esf, min_size=6, max_size=6),
      'ops': st.lists(op, min_size=3, max_size=14),
  })


def _server(deploy, backend, recycle):
  """Servicer for this worker process; distributed ones are reused."""
  import datetime
  from harness import svc
  if deploy == 'local':
    plan_holder = svc.HarnessPolicyFactory(svc.Plan())
    s = svc.make_servicer(backend, policy_factory=plan_holder,
                          recycle_s=recycle)
    return s, plan_holder, (lambda: svc.close_servicer(s))
  key = (deploy, backend, recycle)
  if key not in _SERVERS:
    from vizier._src.service import vizier_server
    holder = svc.HarnessPolicyFactory(svc.Plan())
    url = None if backend == 'ram' else 'sqlite:///:memory:'
    srv = _start_distributed(lambda: vizier_server.DistributedPythiaVizierServer(
        database_url=url, policy_factory=holder,
        early_stop_recycle_period=datetime.timedelta(seconds=recycle)), holder)
    _SERVERS[key] = (srv, holder)
  srv, holder = _SERVERS[key]
  return srv._servicer, holder, (lambda: None)  # pylint: disable=protected-access


def _start_distributed(make, holder, attempts=6):
  """Starts the split server and proves that the Vizier side reaches its own
  Pythia side (portpicker can hand the same "unused" port to two of the 16
  worker processes that start servers at the same moment; a server wired to a
  stranger's port is discarded and started again)."""
  from harness import svc
  from harness import service_model as sm
  vsp = svc.vsp
  last = None
  for k in range(attempts):
    try:
      srv = make()
    except Exception as e:  # pylint: disable=broad-except
      last = repr(e)[:300]
      continue
    s = srv._servicer  # pylint: disable=protected-access
    try:
      holder.plan = svc.Plan()
      owner = 'probe%d' % k
      svc.create_study(s, owner, 's')
      o = s.SuggestTrials(vsp.SuggestTrialsRequest(
          parent=sm.sname(owner, 's'), client_id='probe', suggestion_count=1))
      if o.done and not o.HasField('error') and holder.plan.suggest_calls == 1:
        return srv
      last = str(o)[:300]
    except Exception as e:  # pylint: disable=broad-except
      last = repr(e)[:300]
    try:
      srv._server.stop(0)  # pylint: disable=protected-access
      srv._pythia_server.stop(0)  # pylint: disable=protected-access
    except Exception:  # pylint: disable=broad-except
      pass
  raise RuntimeError('harness: could not start a working split server: %s'
                     % last)


class _Wedge(Exception):
  pass


def check(case):
  from harness import svc, histories
  from harness import service_model as sm
  from vizier._src.service import vizier_client
  vsp = svc.vsp
  out = core.Out()
  s, holder, closer = _server(case['deploy'], case['backend'],
                              case['recycle'])
  plan = svc.Plan(deliveries=case['suggest_plan'], es=case['es_plan'])
  holder.plan = plan
  _COUNTER[0] += 1
  owner = 'c%d' % _COUNTER[0]
  polls = [0]
  real_sleep = vizier_client.time.sleep

  def fake_sleep(_):
    polls[0] += 1
    if polls[0] > 5:
      raise _Wedge()
  vizier_client.time.sleep = fake_sleep
  import os as _os
  import time as _time
  old_tz = _os.environ.get('TZ')
  _os.environ['TZ'] = case.get('tz', 'UTC')
  _time.tzset()
  out.cls('tz_' + case.get('tz', 'UTC').split('/')[0])
  try:
    svc.create_study(s, owner, 's')
    name = sm.sname(owner, 's')
    fault_by = {}  # worker -> a fault hit that worker's suggest
    nontrivial = False
    prev = svc.snapshot(s, [owner])

    def undone(worker):
      try:
        return s.datastore.list_suggestion_operations(
            name, worker, lambda o: not o.done)
      except KeyError:
        return []

    for step, op in enumerate(case['ops']):
      kind = op[0]
      if kind == 'suggest':
        _, worker, n, via = op
        if fault_by.get(worker):
          nontrivial = True
        trials_before = s.ListTrials(vsp.ListTrialsRequest(parent=name)).trials
        own = [t for t in trials_before
               if t.state == sm.TS.ACTIVE and t.client_id == worker]
        pool = [t for t in trials_before if t.state == sm.TS.REQUESTED]
        need_policy = len(own) + len(pool) < n
        ask = n - len(own) - len(pool)
        idx = plan.suggest_calls
        spec = plan.deliveries[idx] if idx < len(plan.deliveries) else 0
        calls_before = plan.suggest_calls
        reported = None
        got = None
        polls[0] = 0
        if via == 'client':
          c = vizier_client.VizierClient(name, worker, s)
          try:
            got = [t.id for t in c.get_suggestions(n)]
          except _Wedge:
            out.violate('wedge/client_polls_forever',
                        'step %d op=%r spec=%r: operation never done' % (
                            step, op, spec))
            break
          except Exception as e:  # pylint: disable=broad-except
            reported = type(e).__name__
        else:
          try:
            o = s.SuggestTrials(vsp.SuggestTrialsRequest(
                parent=name, client_id=worker, suggestion_count=n))
            if not o.done:
              out.violate('wedge/operation_returned_not_done',
                          'step %d op=%r spec=%r: %s' % (
                              step, op, spec, o.name))
              break
            if o.HasField('error'):
              reported = 'op.error'
            else:
              got = [int(t.id) for t in svc.suggest_response(o).trials]
          except Exception as e:  # pylint: disable=broad-except
            reported = type(e).__name__
        invoked = plan.suggest_calls > calls_before
        left = undone(worker)
        if left:
          out.violate('wedge/operation_left_not_done',
                      'step %d op=%r spec=%r reported=%r: %s stays '
                      'done=False in the datastore' % (
                          step, op, spec, reported, left[0].name))
          break
        if need_policy and not invoked:
          out.violate('liveness/policy_not_reached',
                      'step %d op=%r: worker needs %d new suggestions but the '
                      'policy was not invoked (answered from an old operation)'
                      % (step, op, ask))
          break
        is_exc = isinstance(spec, str)
        if invoked and is_exc:
          out.cls('suggest_exception', 'exc_' + spec.split(':')[1])
          if spec.startswith('factory:'):
            out.cls('policy_factory_exception')
          fault_by[worker] = True
          if reported is None:
            out.violate('not_reported/suggest_exception',
                        'step %d op=%r spec=%r: call returned %r without '
                        'error' % (step, op, spec, got))
        elif invoked:
          delivered = max(0, ask + int(spec))
          expect = min(n, len(own) + len(pool) + delivered)
          if delivered < ask:
            out.cls('short_delivery')
            fault_by[worker] = True
          if delivered > ask:
            out.cls('over_delivery')
          if reported is not None:
            out.violate('delivery_reported_as_error',
                        'step %d op=%r spec=%r delivered=%d: %s' % (
                            step, op, spec, delivered, reported))
          elif len(got) != expect:
            out.violate('delivery_count',
                        'step %d op=%r spec=%r: got %d trials expected %d' % (
                            step, op, spec, len(got), expect))
        else:
          if reported is not None:
            out.violate('error_without_fault',
                        'step %d op=%r: %s' % (step, op, reported))
          elif len(got) != n:
            out.violate('delivery_count',
                        'step %d op=%r: got %d expected %d (no policy call)'
                        % (step, op, len(got), n))
      elif kind == 'early_stop':
        tid = op[1]
        try:
          t = s.GetTrial(vsp.GetTrialRequest(name=sm.tname(owner, 's', tid)))
          eligible = t.state in (sm.TS.ACTIVE, sm.TS.STOPPING)
        except Exception:  # pylint: disable=broad-except
          eligible = False
        idx = plan.es_calls
        spec = plan.es[idx] if idx < len(plan.es) else 'ok:False'
        before = plan.es_calls
        reported = None
        via = op[2] if len(op) > 2 else 'raw'
        try:
          if via == 'client':
            # the worker-side library call: a failing algorithm must not be
            # turned into an ordinary "do not stop" answer
            out.cls('early_stop_via_client')
            vizier_client.VizierClient(name, 'w1', s).should_trial_stop(tid)
          else:
            s.CheckTrialEarlyStoppingState(
                vsp.CheckTrialEarlyStoppingStateRequest(
                    trial_name=sm.tname(owner, 's', tid)))
        except Exception as e:  # pylint: disable=broad-except
          reported = type(e).__name__
        invoked = plan.es_calls > before
        if eligible:
          out.cls('early_stop_on_active_trial')
          if invoked and spec.startswith('raise:'):
            out.cls('early_stop_exception')
            if reported is None:
              out.violate('not_reported/early_stop_exception',
                          'step %d op=%r spec=%r' % (step, op, spec))
          if case['recycle'] == 0 and not invoked:
            # with a zero recycle period every check must reach the algorithm
            out.violate('liveness/early_stop_policy_not_reached',
                        'step %d op=%r: answered from an old operation' % (
                            step, op))
            break
          try:
            eop = s.datastore.get_early_stopping_operation(
                'owners/%s/operations/earlystopping/s/%d' % (owner, tid))
            if eop.status == 1:  # ACTIVE after the call returned
              out.violate('wedge/early_stop_operation_left_active',
                          'step %d op=%r spec=%r reported=%r' % (
                              step, op, spec, reported))
              break
          except KeyError:
            pass
      elif kind == 'complete':
        try:
          s.CompleteTrial(vsp.CompleteTrialRequest(
              name=sm.tname(owner, 's', op[1]),
              final_measurement=svc.measurement(1.0)))
        except Exception:  # pylint: disable=broad-except
          pass
      cur = svc.snapshot(s, [owner])
      for clause, detail in histories.history_invariants(prev, cur):
        out.violate('lifecycle/%s' % clause, 'step %d op=%r: %s' % (
            step, op, detail))
      prev = cur
    out.nontrivial = nontrivial
    if nontrivial:
      out.cls('fault_then_same_worker_suggest')
    out.cls(case['deploy'], case['backend'])
  finally:
    vizier_client.time.sleep = real_sleep
    if old_tz is None:
      _os.environ.pop('TZ', None)
    else:
      _os.environ['TZ'] = old_tz
    _time.tzset()
    closer()
  return out


def families(tier):
  return [
      core.Family('faults', check, strategy=strategy,
                  budget={'quick': 1000, 'thorough': 24000},
                  shards={'quick': 16, 'thorough': 16},
                  required_classes=('suggest_exception', 'short_delivery',
                                    'policy_factory_exception',
                                    'tz_America', 'tz_Asia',
                                    'early_stop_exception',
                                    'early_stop_via_client', 'local',
                                    'distributed', 'ram', 'sqlmem',
                                    'fault_then_same_worker_suggest')),
  ]
