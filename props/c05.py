"""C05 SQL-backed service survives a crash at any point without losing or tearing data.

Family `crash`: Hypothesis draws a sequential prefix (0-8 calls) and one victim
RPC. The prefix runs against a fresh SQLite file; then, for EVERY crash point
of the victim (before and after each non-SELECT statement, before each commit,
and after the last commit) a forked child executes the victim on a copy of the
file and dies with os._exit(137) at that point - no finaliser, no rollback,
the connection just disappears, which is what SIGKILL leaves behind. The parent
reopens the file with a fresh engine + VizierServicer and checks durability,
atomicity, integrity and continuation.
"""
import json
import os
import shutil

from harness import core

ID = 'C05'
LEVEL = 'fault_enumeration'
EVAL_COUNTER = 'crash_points_run'
RULE = ('Hypothesis draws (prefix, victim RPC); crash points of the victim are '
        'enumerated exhaustively per case (every statement boundary and '
        'commit). evaluations = crash runs executed. A crash point is '
        'non-trivial if it lies strictly between the first write statement '
        'and the last commit of the victim; distinct = SHA-1 of (case, k).')
ASSUMPTIONS = [
    'crash = process death at a SQL statement/commit boundary observed '
    'through SQLAlchemy engine events; torn pages inside one SQLite commit '
    'are SQLite\'s contract (trusted)',
    'the reference for atomicity is the crash-free execution of the same '
    'victim on the same file (pre / post snapshots)',
]

SINGLE = ('create_study', 'delete_study', 'set_state', 'create_trial',
          'add_meas', 'complete', 'stop', 'delete_trial', 'update_md',
          'early_stop')


def strategy():
  from hypothesis import strategies as st
  from harness import histories
  op = histories.op_strategy(owners=['o0'], sids=['s0', 's0', 's0', 's1'],
                             max_suggest=3, optimal=False)
  vop = histories.op_strategy(owners=['o0'], sids=['s0'] * 9 + ['s1'],
                              max_suggest=3, optimal=False)
  general = vop.filter(lambda o: (o[0] in histories.MUTATING
                                  or o[0] == 'early_stop')
                       and o[0] != 'create_study')
  mdv = st.sampled_from(['v', 'w', ''])
  multi_md = st.tuples(
      st.just('update_md'), st.just('o0'), st.just('s0'),
      st.lists(st.tuples(st.sampled_from(['study', 1, 2, 3]),
                         st.sampled_from(['', ':a']),
                         st.sampled_from(['k', 'j']), mdv).map(list),
               min_size=2, max_size=4)).map(list)
  # one call with many entries (a batch larger than any chunk size a server
  # might use internally): still one transaction
  wide_md = st.just(['update_md', 'o0', 's0',
                     [['study', '', 'k', 'v']] +
                     [[t, '', 'k%d' % i, 'v'] for i in range(45)
                      for t in (1, 2, 3)]])
  # completions that carry several pieces at once (infeasible AND a final
  # measurement, measurement-less auto completion after a reported one)
  rich_complete = st.tuples(
      st.just('complete'), st.just('o0'), st.just('s0'),
      st.sampled_from([1, 2]), st.sampled_from([
          {'final': 2.5, 'infeasible': True, 'reason': 'bad'},
          {'final': 2.5, 'infeasible': True, 'reason': ''},
          {'final': None, 'infeasible': False, 'reason': ''}])).map(list)
  victim = st.one_of(general, general, general, general, general, multi_md,
                     wide_md, rich_complete,
                     st.tuples(st.just('create_study'), st.just('o0'),
                               st.sampled_from(['s0', 's1'])).map(list),
                     st.just(['delete_study', 'o0', 's0']),
                     st.tuples(st.just('suggest'), st.just('o0'),
                               st.just('s0'), st.sampled_from(['w1', 'w2']),
                               st.integers(1, 3)).map(list))
  prefix = st.tuples(
      st.sampled_from([
          [], [['create_study', 'o0', 's0']],
          [['create_study', 'o0', 's0'], ['suggest', 'o0', 's0', 'w1', 2]],
          [['create_study', 'o0', 's0'], ['suggest', 'o0', 's0', 'w1', 3],
           ['complete', 'o0', 's0', 1,
            {'final': 1.0, 'infeasible': False, 'reason': ''}]],
          [['create_study', 'o0', 's0'], ['suggest', 'o0', 's0', 'w1', 2],
           ['suggest', 'o0', 's0', 'w2', 1], ['stop', 'o0', 's0', 2]],
          [['create_study', 'o0', 's0'], ['suggest', 'o0', 's0', 'w1', 2],
           ['add_meas', 'o0', 's0', 1, 1.0],
           ['create_trial', 'o0', 's0',
            {'state': 'REQUESTED', 'final': None, 'client_id': '', 'k': 1,
             'md': []}]],
          # the last calls before the victim failed (rolled back): a metadata
          # update naming a missing trial, a duplicate CreateStudy
          [['create_study', 'o0', 's0'], ['suggest', 'o0', 's0', 'w1', 2],
           ['update_md', 'o0', 's0', [['study', '', 'k', 'v'],
                                      [7, '', 'k', 'v']]]],
          [['create_study', 'o0', 's0'], ['suggest', 'o0', 's0', 'w1', 2],
           ['create_study', 'o0', 's0'],
           ['update_md', 'o0', 's0', [[9, ':a', 'j', 'w']]]],
      ]), st.one_of(st.lists(op, max_size=6), st.just([]))).map(
          lambda t: t[0] + t[1])
  return st.fixed_dictionaries({
      'prefix': prefix, 'victim': victim,
      'over': st.sampled_from([0, 0, 2]),  # policy over-delivery for suggest
  })


# ---------------------------------------------------------------- machinery
def _open(path, counter=None, crash_at=None):
  """Servicer on the SQLite file; optional statement/commit event counter."""
  from harness import svc
  from sqlalchemy import event
  plan = svc.Plan(deliveries=[counter.get('over', 0)] * 8 if counter else ())
  s = svc.make_servicer('sqlfile', dbpath=path,
                        policy_factory=svc.HarnessPolicyFactory(plan))
  if counter is not None:
    eng = s.datastore._engine  # pylint: disable=protected-access

    def tick(kind):
      if not counter.get('armed'):
        return
      counter['n'] += 1
      counter['log'].append(kind)
      if crash_at is not None and counter['n'] == crash_at:
        os._exit(137)

    def is_write(stmt):
      return not stmt.lstrip().upper().startswith(('SELECT', 'PRAGMA'))

    @event.listens_for(eng, 'before_cursor_execute')
    def _b(conn, cursor, statement, parameters, context, executemany):
      if is_write(statement):
        tick('before:' + statement.split()[0].upper())

    @event.listens_for(eng, 'after_cursor_execute')
    def _a(conn, cursor, statement, parameters, context, executemany):
      if is_write(statement):
        tick('after:' + statement.split()[0].upper())

    @event.listens_for(eng, 'commit')
    def _c(conn):
      tick('before:COMMIT')
  return s


def _snap(s):
  from harness import svc
  return svc.snapshot(s, ['o0'])


def _child(fn):
  """Runs fn() in a forked child; returns (exit status, bytes written)."""
  r, w = os.pipe()
  pid = os.fork()
  if pid == 0:
    code = 0
    try:
      os.close(r)
      data = fn()
      if data is not None:
        os.write(w, data if isinstance(data, bytes) else data.encode())
    except BaseException:  # pylint: disable=broad-except
      import traceback
      try:
        os.write(w, ('CHILD-ERROR ' + traceback.format_exc()).encode())
      except Exception:  # pylint: disable=broad-except
        pass
      code = 3
    finally:
      os._exit(code)
  os.close(w)
  chunks = []
  while True:
    b = os.read(r, 1 << 16)
    if not b:
      break
    chunks.append(b)
  os.close(r)
  _, status = os.waitpid(pid, 0)
  return os.waitstatus_to_exitcode(status), b''.join(chunks)


def _raw_integrity(s):
  """Orphans / duplicates at SQL level. Returns list of problems."""
  import sqlalchemy as sqla
  ds = s.datastore
  conn = ds._connection  # pylint: disable=protected-access
  probs = []
  studies = {(r[0], r[1]) for r in conn.execute(sqla.text(
      'SELECT owner_id, study_id FROM studies'))}
  rows = list(conn.execute(sqla.text(
      'SELECT owner_id, study_id, trial_id, trial_name FROM trials')))
  seen = set()
  for o, sid, tid, name in rows:
    if (o, sid) not in studies:
      probs.append(('orphan_trial_row', name))
    if (o, sid, tid) in seen:
      probs.append(('duplicate_trial_id_row', name))
    seen.add((o, sid, tid))
  for table in ('suggestion_operations', 'early_stopping_operations'):
    for o, sid, name in conn.execute(sqla.text(
        'SELECT owner_id, study_id, operation_name FROM %s' % table)):
      if (o, sid) not in studies:
        probs.append(('orphan_operation_row', name))
  conn.rollback()
  return probs


def _trials_of(snap, sname):
  from harness import svc
  if isinstance(snap.get('o0'), str):
    return None
  for name, _, tl in snap['o0']:
    if name == sname and not isinstance(tl, str):
      return {t.id: t for t in (svc.study_pb2.Trial.FromString(
          bytes.fromhex(h)) for h in tl)}
  return None


def check(case):
  from harness import svc, histories
  from harness import service_model as sm
  vsp = svc.vsp
  out = core.Out()
  tmp = svc.TmpFiles()
  victim = case['victim']
  vkind = victim[0]
  try:
    base = tmp.path('base.db')
    s = _open(base)
    for op in case['prefix']:
      histories.exec_real(s, op, scribble=False)
    pre = _snap(s)
    svc.close_servicer(s)

    # ---- crash-free run: event log, result, post snapshot
    dry = tmp.path('dry.db')
    shutil.copy(base, dry)

    def dry_run():
      c = {'n': 0, 'armed': False, 'log': [], 'over': case['over']}
      s2 = _open(dry, c)
      c['armed'] = True
      res = histories.exec_real(s2, victim, scribble=False)
      c['armed'] = False
      return json.dumps({'n': c['n'], 'log': c['log'], 'res': res[0],
                         'cls': res[1] if res[0] == 'err' else None,
                         'post': _snap(s2)})
    code, data = _child(dry_run)
    if code != 0 or data.startswith(b'CHILD-ERROR'):
      raise RuntimeError('dry run failed: %r' % data[:2000])
    info = json.loads(data)
    n_events, log, post = info['n'], info['log'], info['post']
    # JSON turned tuples into lists
    post = json.loads(json.dumps(post))
    pre_j = json.loads(json.dumps(pre))
    out.cls('victim_' + vkind)
    if n_events == 0:
      out.cls('victim_writes_nothing')
      return out
    writes = [i for i, e in enumerate(log) if not e.endswith('COMMIT')]
    commits = [i for i, e in enumerate(log) if e.endswith('COMMIT')]
    first_w = writes[0] if writes else 0
    last_c = commits[-1] if commits else len(log)
    nt_keys = set()
    chash = core.case_hash(case)
    sname = sm.sname(victim[1], victim[2]) if len(victim) > 2 else None

    for k in list(range(1, n_events + 1)) + ['end']:
      path = tmp.path('k%s.db' % k)
      shutil.copy(base, path)
      if k != 'end':
        def crash_run(k=k, path=path):
          c = {'n': 0, 'armed': False, 'log': [], 'over': case['over']}
          s3 = _open(path, c, crash_at=k)
          c['armed'] = True
          histories.exec_real(s3, victim, scribble=False)
          return None
        code, data = _child(crash_run)
        if code != 137:
          raise RuntimeError('crash child did not crash at %s: code=%s %r' % (
              k, code, data[:500]))
        where = '%d:%s' % (k, log[k - 1])
        if first_w < k - 1 <= last_c:
          nt_keys.add(core.case_hash([chash, k]))
      else:
        def full_run(path=path):
          c = {'n': 0, 'armed': False, 'log': [], 'over': case['over']}
          s3 = _open(path, c)
          histories.exec_real(s3, victim, scribble=False)
          os._exit(137)  # dies after the RPC returned, before the reply
        code, data = _child(full_run)
        where = 'end'
      out.count('crash_points_run')
      # ---- restart
      try:
        s4 = _open(path)
      except Exception as e:  # pylint: disable=broad-except
        out.violate('restart_failed/%s' % vkind, 'crash at %s: %r' % (where, e))
        continue
      try:
        try:
          got = json.loads(json.dumps(_snap(s4)))
        except Exception as e:  # pylint: disable=broad-except
          out.violate('unreadable_after_restart/%s/%s' % (
              vkind, type(e).__name__), 'crash at %s: %r' % (where, e))
          continue
        # (2) atomicity
        if vkind in SINGLE:
          if got != pre_j and got != post:
            out.violate('torn/%s' % vkind,
                        'crash at %s of %r: reopened state is neither the '
                        'pre- nor the post-state (events=%s)' % (
                            where, victim, log))
          if k == 'end' and got != post:
            out.violate('acknowledged_lost/%s' % vkind,
                        'victim %r returned, then the process died: the '
                        'change is not in the file' % (victim,))
        # (1) durability for suggest victims: acknowledged data still there
        if vkind == 'suggest' and sname:
          ptr, gtr = _trials_of(pre_j, sname), _trials_of(got, sname)
          if ptr is not None:
            if gtr is None:
              out.violate('durability/study_lost/suggest',
                          'crash at %s' % where)
            else:
              for tid, t in ptr.items():
                g = gtr.get(tid)
                if g is None:
                  out.violate('durability/trial_lost/suggest',
                              'crash at %s: trial %s' % (where, tid))
                  continue
                t2, g2 = svc.norm_trial(t), svc.norm_trial(g)
                if t.state == sm.TS.REQUESTED and g.state == sm.TS.ACTIVE:
                  t2.state = g2.state
                  t2.client_id = g2.client_id
                if t2 != g2:
                  out.violate('durability/trial_changed/suggest',
                              'crash at %s: trial %s' % (where, tid))
          if k == 'end' and got != post:
            out.violate('acknowledged_lost/suggest',
                        'suggest returned, process died, state differs')
        # (3) integrity
        try:
          raw_problems = _raw_integrity(s4)
        except Exception as e:  # pylint: disable=broad-except
          out.violate('unreadable_after_restart/%s/%s' % (
              vkind, type(e).__name__), 'crash at %s: raw tables unreadable: '
                      '%s' % (where, str(e)[:300]))
          continue
        for clause, detail in raw_problems:
          out.violate('integrity/%s/%s' % (clause, vkind),
                      'crash at %s of %r: %s' % (where, victim, detail))
        if not isinstance(got.get('o0'), str):
          for name, _, tl in got['o0']:
            if isinstance(tl, str):
              out.violate('integrity/trials_unlistable/%s' % vkind, name)
              continue
            ids = []
            for h in tl:
              t = svc.study_pb2.Trial.FromString(bytes.fromhex(h))
              ids.append(int(t.id))
              if t.state not in histories.LEGAL:
                out.violate('integrity/illegal_state/%s' % vkind,
                            'crash at %s trial %s state %s' % (
                                where, t.id, t.state))
            if len(set(ids)) != len(ids):
              out.violate('integrity/duplicate_ids/%s' % vkind, str(ids))
        # (4) continuation on the victim's study
        if sname:
          self_worker = victim[3] if vkind == 'suggest' else 'w1'
          try:
            _continuation(out, s4, sname, vkind, where, self_worker)
          except Exception as e:  # pylint: disable=broad-except
            out.violate('continuation/raises/%s/%s' % (
                type(e).__name__, vkind), 'crash at %s: %s' % (
                    where, str(e)[:300]))
      finally:
        svc.close_servicer(s4)
        try:
          os.remove(path)
        except OSError:
          pass
    out.nt_keys = nt_keys
    out.nontrivial = bool(nt_keys)
    if len(commits) >= 2:
      out.cls('multi_commit_victim')
    if nt_keys:
      out.cls('crash_between_first_write_and_last_commit')
  finally:
    tmp.close()
  return out


def _continuation(out, s, sname, vkind, where, self_worker):
  from harness import svc
  from harness import service_model as sm
  vsp = svc.vsp
  try:
    st_ = s.GetStudy(vsp.GetStudyRequest(name=sname))
  except Exception:  # pylint: disable=broad-except
    out.cls('continuation_skipped_no_study')
    return
  if st_.state in sm.IMMUTABLE_STUDY:
    out.cls('continuation_skipped_inactive_study')
    return
  out.cls('continuation_checked')
  before = [int(t.id) for t in s.ListTrials(
      vsp.ListTrialsRequest(parent=sname)).trials]
  others = [w for w in ('w1', 'w2', 'w3') if w != self_worker]
  for who, worker in [('same_worker', self_worker), ('new_worker', 'wz')] + [
      ('other_worker', w) for w in others]:
    try:
      o = s.SuggestTrials(vsp.SuggestTrialsRequest(
          parent=sname, client_id=worker, suggestion_count=1))
    except Exception as e:  # pylint: disable=broad-except
      out.violate('continuation/%s_suggest_raises/%s/%s' % (
          who, type(e).__name__, vkind), 'crash at %s: %r' % (where, e))
      continue
    if not o.done:
      out.violate('continuation/%s_suggest_returns_undone_operation/'
                  'victim_%s' % (who, vkind),
                  'crash at %s: %s is answered with the abandoned operation '
                  '%s (done=False) forever' % (where, worker, o.name))
      continue
    if o.HasField('error'):
      out.violate('continuation/%s_suggest_error/%s' % (who, vkind),
                  'crash at %s: %s' % (where, o.error.message[:200]))
      continue
    trials = svc.suggest_response(o).trials
    if len(trials) != 1:
      out.violate('continuation/%s_suggest_count/%s' % (who, vkind),
                  'crash at %s: got %d trials' % (where, len(trials)))
      continue
    t = trials[0]
    if int(t.id) not in before and before and int(t.id) <= max(before):
      out.violate('continuation/id_not_increasing/%s' % vkind,
                  'crash at %s: new id %s, ids before %r' % (
                      where, t.id, before))
    try:
      c = s.CompleteTrial(vsp.CompleteTrialRequest(
          name=t.name, final_measurement=svc.measurement(1.0)))
      if c.state != sm.TS.SUCCEEDED:
        out.violate('continuation/complete_state/%s' % vkind, str(c.state))
    except Exception as e:  # pylint: disable=broad-except
      out.violate('continuation/complete_raises/%s/%s' % (
          type(e).__name__, vkind), 'crash at %s trial %s: %r' % (
              where, t.id, e))
    before.append(int(t.id))
  ids = [int(t.id) for t in s.ListTrials(
      vsp.ListTrialsRequest(parent=sname)).trials]
  if len(ids) != len(set(ids)):
    out.violate('continuation/duplicate_ids/%s' % vkind, str(ids))



# ---------------------------------------------------------------------------
# large transactions: a crash inside a transaction that is bigger than
# SQLite's page cache (pages already spilled to the file before the commit)
# ---------------------------------------------------------------------------
def enum_big(tier):
  sizes = [(260, 12000)] if tier == 'quick' else [
      (260, 12000), (1200, 3000), (60, 70000)]
  return [{'n_trials': n, 'md_bytes': b, 'victim': ['delete_study', 'o0', 's0']}
          for n, b in sizes]


def check_big(case):
  """Study with several MB of trials, DeleteStudy as victim, every crash point."""
  from harness import svc, histories
  from harness import service_model as sm
  out = core.Out()
  tmp = svc.TmpFiles()
  victim = case['victim']
  try:
    base = tmp.path('base.db')
    s = _open(base)
    histories.exec_real(s, ['create_study', 'o0', 's0'], scribble=False)
    histories.exec_real(s, ['create_study', 'o0', 's1'], scribble=False)
    blob = 'x' * case['md_bytes']
    for i in range(1, case['n_trials'] + 1):
      t = svc.params_to_trial_proto(svc.det_params(i))
      t.name = sm.tname('o0', 's0', i)
      t.id = str(i)
      t.state = sm.TS.ACTIVE
      t.client_id = 'w1'
      t.metadata.add(ns='', key='blob', value=blob)
      s.datastore.create_trial(t)
    histories.exec_real(s, ['suggest', 'o0', 's1', 'w1', 2], scribble=False)
    pre = json.loads(json.dumps(_snap(s)))
    svc.close_servicer(s)
    size = os.path.getsize(base)
    out.cls('db_mb_%d' % (size >> 20))

    dry = tmp.path('dry.db')
    shutil.copy(base, dry)

    def dry_run():
      c = {'n': 0, 'armed': False, 'log': [], 'over': 0}
      s2 = _open(dry, c)
      c['armed'] = True
      histories.exec_real(s2, victim, scribble=False)
      c['armed'] = False
      return json.dumps({'n': c['n'], 'log': c['log'], 'post': _snap(s2)})
    code, data = _child(dry_run)
    if code != 0 or data.startswith(b'CHILD-ERROR'):
      raise RuntimeError('dry run failed: %r' % data[:2000])
    info = json.loads(data)
    post = json.loads(json.dumps(info['post']))
    nt_keys = set()
    chash = core.case_hash(case)
    for k in range(1, info['n'] + 1):
      path = tmp.path('k%d.db' % k)
      shutil.copy(base, path)

      def crash_run(k=k, path=path):
        c = {'n': 0, 'armed': False, 'log': [], 'over': 0}
        s3 = _open(path, c, crash_at=k)
        c['armed'] = True
        histories.exec_real(s3, victim, scribble=False)
        return None
      code, data = _child(crash_run)
      if code != 137:
        raise RuntimeError('crash child did not crash at %s: %s %r' % (
            k, code, data[:300]))
      out.count('crash_points_run')
      nt_keys.add(core.case_hash([chash, k]))
      where = '%d:%s' % (k, info['log'][k - 1])
      try:
        s4 = _open(path)
        got = json.loads(json.dumps(_snap(s4)))
      except Exception as e:  # pylint: disable=broad-except
        out.violate('unreadable_after_restart/big_transaction/%s' % (
            type(e).__name__), 'crash at %s of %r on a %d MB file: %r' % (
                where, victim, size >> 20, str(e)[:300]))
        continue
      try:
        if got != pre and got != post:
          out.violate('torn/big_transaction', 'crash at %s: neither pre nor '
                      'post state' % where)
        for clause, detail in _raw_integrity(s4):
          out.violate('integrity/%s/big_transaction' % clause,
                      'crash at %s: %s' % (where, detail))
        _continuation(out, s4, sm.sname('o0', 's1'), 'big_transaction',
                      where, 'w1')
      except Exception as e:  # pylint: disable=broad-except
        out.violate('unreadable_after_restart/big_transaction/%s' % (
            type(e).__name__), 'crash at %s of %r on a %d MB file: stored '
                    'records cannot be read / used after restart: %s' % (
                        where, victim, size >> 20, str(e)[:300]))
      finally:
        svc.close_servicer(s4)
        try:
          os.remove(path)
        except OSError:
          pass
    out.nt_keys = nt_keys
    out.nontrivial = True
    out.cls('big_transaction')
  finally:
    tmp.close()
  return out


def families(tier):
  return [
      core.Family('crash', check, strategy=strategy,
                  budget={'quick': 320, 'thorough': 8000},
                  shards={'quick': 16, 'thorough': 16},
                  required_classes=(
                      'crash_between_first_write_and_last_commit',
                      'multi_commit_victim', 'continuation_checked',
                      'victim_suggest', 'victim_complete', 'victim_update_md',
                      'victim_delete_study', 'victim_create_trial')),
      core.Family('crash_big', check_big, enumerate=enum_big,
                  shards={'quick': 1, 'thorough': 3},
                  required_classes=('big_transaction',)),
  ]
