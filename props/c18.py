"""C18 Output warping keeps the ranking of trials and yields finite labels.

Families (all are Hypothesis value strategies; the case is plain JSON)
  default     `create_default_warper(...)` with every admissible flag
              combination (all-True = what gp_bandit / gp_ucb_pe use, 57 %).
  outliers    `create_warp_outliers_warper(...)` flag combinations in which no
              NaN-producing stage is followed directly by the NaN-intolerant
              TransformToGaussian; jax x64 on and off.
  components  HalfRank, Log, Infeasible, DetectOutliers, TransformToGaussian
              (use_rank F/T), ZScoreLabels, NormalizeLabels (drawn interval),
              each alone, on the inputs its docstring / its position in the
              pipelines admits.

A case = {'w': warper spec, 'y': label tokens, 'prev': tokens | None,
'x64': bool}.  Tokens are floats or the strings 'nan' / '-inf'.  When `prev`
is given the same warper object first warps `prev` (the designers keep one
warper object and re-warp after every update), then `y` is judged.

Oracle clauses (bucket prefix)
  exception  warp raised on an admitted input (documented ValueErrors of
             ZScore/Normalize/DetectOutliers on all-infeasible input excepted)
  shape      output shape == (n, 1)
  mutated    the caller's array is bytewise unchanged (warp and unwarp)
  finite     every output entry finite (warpers containing the infeasible
             stage); otherwise: finite at feasible positions and NaN at
             infeasible ones ("NaNs are untouched")
  shortcut   pipeline docstring: one unique finite value -> zeros, only
             infeasible values -> minus ones
  infeasible every infeasible position <= every feasible position
  order      never y_i < y_j with w_i > w_j (every warper)
  strict     default pipeline only: equal values stay equal; values further
             apart than the float resolution 1e-9*(max-median) of the feasible
             values stay strictly ordered
  detect     DetectOutliers alone: output is y or NaN, the dropped set is a
             lower set strictly below the median
  interval   NormalizeLabels: feasible outputs inside target_interval
  roundtrip  unwarp(warp(y)) == y at feasible positions within
             1e-9*(max|y| + range) for the warpers that implement unwarp

Bucket = '<clause>/<warper kind>/<symptom>'.  Four symptoms are signatures of
defects present on the unchanged tree (known_findings.d/C18.jsonl) and are
computed from the input/output only, so that any other failure of the same
clause keeps its generic symptom (`off_value`, `distinct_merged`, ...):
  below_median_lost_with_infeasible_present  a feasible value below the median
      comes out NaN / equal to the infeasible value while other entries are
      infeasible and a HalfRank stage is present
  dup_median_noop   round trip returns a value in [median(unique), median(all))
      for a label below median(all)  (only possible with duplicates)
  snapped_to_lowest_observed   round trip returns the lowest or second lowest
      observed value for another label
  absorbed_constant_into_gaussian  all-NaN output of a pipeline ending in
      TransformToGaussian when the largest feasible value has |v| >= 2**53 or
      the feasible values >= median differ by less than 1e-15*(1+|max|)
"""
import traceback

import numpy as np
from hypothesis import strategies as st

from harness import core

ID = 'C18'
LEVEL = 'exploration'
RULE = ('label arrays of 1..60 entries built from a value pool (small ints, '
        'floats over 1e-30..1e30 of both signs, clusters base+k*step, tiny '
        'magnitudes, constants) sampled with repetition, optional single '
        'outlier (+-1e40..1e80), NaN / -inf at 0..100 % of the positions, '
        'optional earlier array warped first by the same object; warper = '
        'flag combination / component drawn per family. non-trivial = the '
        'array has >=3 distinct finite values AND (a duplicate finite value or '
        'an outlier or an infeasible entry). distinct = SHA-1 of the canonical '
        'JSON case.')
ASSUMPTIONS = [
    'float resolution: two feasible values closer than 1e-9*(max-median of '
    'the feasible values) may receive the same default-warped label (never a '
    'reversed one); round trips are compared with atol 1e-9*(max|y|+range)',
    'components are judged alone only on inputs their docstring or their '
    'place in the stock pipelines admits: HalfRank needs one feasible value, '
    'TransformToGaussian gets feasible-only arrays with >=2 distinct values, '
    'Log with a single distinct feasible value (zero range) is measured but '
    'not judged for finiteness (the pipeline short-cut owns constants)',
    'a reversal or an excursion out of the NormalizeLabels interval smaller '
    'than 1e-12*max|w| is rounding noise (np.interp is not monotone to the '
    'last ulp), not a reversal',
    'default pipeline without the log stage (HalfRank -> Infeasible): round '
    'trip judged only when the spread of the labels is >= 1e-6*(1+|median|), '
    'because InfeasibleWarperComponent offsets by an absolute range/2+1',
    'feasible = finite entry; +inf is rejected by the code by contract and is '
    'never generated',
]

# Findings present on the unchanged tree (see known_findings.d/C18.jsonl).
# When True the round-trip clause is not evaluated on arrays on which the
# HalfRank stage demonstrably lost a feasible value to NaN (its unwarp tables
# are then built from NaNs: same root cause); such cases are counted in the
# class `roundtrip_skipped_known_halfrank_nan`.
KNOWN_HALFRANK_NAN = False

SUF_A = 'below_median_lost_with_infeasible_present'
SUF_B = 'dup_median_noop'
SUF_C = 'snapped_to_lowest_observed'
SUF_E = 'absorbed_constant_into_gaussian'


# ------------------------------------------------------------------ generator
def _value_elems():
  ints = st.integers(-6, 6).map(float)
  wide = st.builds(
      lambda s, m, e: s * m * 10.0 ** e,
      st.sampled_from([1.0, -1.0]), st.floats(1.0, 9.999), st.integers(-30, 30))
  tiny = st.builds(lambda k, e: k * 10.0 ** e, st.integers(-9, 9),
                   st.sampled_from([-30, -12, -10]))
  return ints, wide, tiny


# sizes for the stages that JIT-compile per shape (TransformToGaussian)
N_MENU = [1, 2, 2, 3, 3, 4, 5, 6, 8, 8, 12, 20, 33, 60]


@st.composite
def _array(draw, allow_infeasible=True, need_two=False, need_feasible=False,
           menu_only=False, low_outliers=False):
  ints, wide, tiny = _value_elems()
  style = draw(st.sampled_from(
      ['ints', 'ints', 'wide', 'wide', 'cluster', 'tiny', 'const', 'mixed']))
  if need_two and style == 'const':
    style = 'ints'
  k = draw(st.sampled_from([1, 2, 3, 3, 4, 5, 6, 8, 12]))
  if style == 'ints':
    pool = draw(st.lists(ints, min_size=k, max_size=k))
  elif style == 'wide':
    pool = draw(st.lists(wide, min_size=k, max_size=k))
  elif style == 'tiny':
    pool = draw(st.lists(tiny, min_size=k, max_size=k))
  elif style == 'cluster':
    base = draw(st.sampled_from([1e3, 1e6, -1e6, 1e9, 1e12, -1e-9, 0.5]))
    step = draw(st.sampled_from([1.0, 1.0, 1e-3, 0.25]))
    ks = draw(st.lists(st.integers(0, 20), min_size=k, max_size=k))
    pool = [base + step * i for i in ks]
  elif style == 'const':
    pool = [draw(st.one_of(ints, wide))]
  else:
    pool = draw(st.lists(st.one_of(ints, wide, tiny), min_size=k, max_size=k))
  n = draw(st.sampled_from(N_MENU))
  if not menu_only and draw(st.booleans()):
    n = draw(st.sampled_from(range(2, 61)))
  if need_two:
    n = max(n, 2)
  idx = draw(st.lists(st.integers(0, len(pool) - 1), min_size=n, max_size=n))
  y = [pool[i] for i in idx]
  out_v = draw(st.sampled_from(
      [None, -1e60, -1e60, -1e40, -1e80, 1e60] if low_outliers else
      [None, None, None, -1e60, 1e60, -1e40, -1e80, 1e80]))
  if out_v is not None and style != 'const':
    y[draw(st.integers(0, len(y) - 1))] = out_v
  if need_two and len(set(y)) < 2:  # by construction: two distinct values
    gap = draw(st.sampled_from([1.0, 1e-3, 7.0, 1e5]))
    y[-1] = y[0] + (abs(y[0]) * 0.5 + gap)
  if allow_infeasible:
    thr = draw(st.sampled_from([0, 0, 0, 2, 2, 6, 10, 18, 20]))
    if thr:
      mask = draw(st.lists(st.integers(0, 19), min_size=len(y),
                           max_size=len(y)))
      for i, m in enumerate(mask):
        if m < thr:
          y[i] = '-inf' if m % 3 == 1 else 'nan'
      if need_feasible and all(isinstance(v, str) for v in y):
        y[draw(st.integers(0, len(y) - 1))] = pool[0]
  return y


def _arr_opts(spec):
  """Input domain admitted by the warper `spec` (see ASSUMPTIONS)."""
  k = spec[0]
  if k == 'gauss':
    return dict(allow_infeasible=False, need_two=True, menu_only=True)
  if k == 'outliers':
    if spec[1:4] == [False, False, True]:  # gaussian stage only
      return dict(allow_infeasible=False, menu_only=True, low_outliers=True)
    return dict(menu_only=spec[3], low_outliers=True)
  if k in ('halfrank', 'log'):
    return dict(need_feasible=True)
  if k == 'detect':
    return dict(low_outliers=True)
  return {}


@st.composite
def _case(draw, specs, x64=False):
  spec = list(draw(specs))
  if spec == ['normalize']:  # target interval lo <= hi (lo > hi is rejected)
    lo = draw(st.sampled_from([0.0, 0.0, -2.0, 5.0, -1e9, 0.1, -123.5]))
    spec += [lo, lo + draw(st.sampled_from([1.0, 1.0, 4.0, 0.0, 2e9, 247.0,
                                            1e-3]))]
  opts = _arr_opts(spec)
  y = draw(_array(**opts))
  prev = None
  if draw(st.integers(0, 3)) == 0:
    prev = draw(_array(**opts))
  return {'w': spec, 'y': y, 'prev': prev,
          'x64': draw(st.booleans()) if x64 else False}


def default_strategy():
  T, F = True, False
  return _case(st.sampled_from(
      [['default', T, T, T]] * 8 + [
          ['default', T, T, F], ['default', T, F, T], ['default', F, T, T],
          ['default', T, F, F], ['default', F, T, F], ['default', F, F, T]]))


def outliers_strategy():
  T, F = True, False
  # (warp_outliers, infeasible_warp, transform_gaussian); (T,F,T) is left
  # out: DetectOutliers emits NaN which TransformToGaussian does not admit.
  return _case(st.sampled_from(
      [['outliers', T, T, T]] * 4 + [
          ['outliers', T, T, F], ['outliers', T, T, F],
          ['outliers', F, T, T], ['outliers', F, T, F],
          ['outliers', T, F, F], ['outliers', F, F, T]]), x64=True)


def components_strategy():
  return _case(st.sampled_from(
      [['halfrank']] * 3 + [['log'], ['log', 1.1], ['log', 4.0]] +
      [['infeasible']] * 2 +
      [['detect']] * 2 + [['zscore'], ['normalize'], ['normalize'],
                          ['gauss', False], ['gauss', True]]), x64=True)


# --------------------------------------------------------------------- oracle
def _np(tokens):
  return np.array([float(t) for t in tokens], dtype=np.float64)[:, None]


def _kind(spec):
  f = lambda bs: ''.join('T' if b else 'F' for b in bs)
  if spec[0] in ('default', 'outliers'):
    return '%s_%s' % (spec[0], f(spec[1:4]))
  if spec[0] == 'gauss':
    return 'gauss_rank' if spec[1] else 'gauss'
  return spec[0]


def _build(ow, spec):
  k = spec[0]
  if k == 'default':
    return ow.create_default_warper(half_rank_warp=spec[1], log_warp=spec[2],
                                    infeasible_warp=spec[3])
  if k == 'outliers':
    return ow.create_warp_outliers_warper(
        warp_outliers=spec[1], infeasible_warp=spec[2],
        transform_gaussian=spec[3])
  if k == 'halfrank':
    return ow.HalfRankComponent()
  if k == 'log':
    # a public constructor argument: any offset > 0
    return (ow.LogWarperComponent(offset=spec[1]) if len(spec) > 1
            else ow.LogWarperComponent())
  if k == 'infeasible':
    return ow.InfeasibleWarperComponent()
  if k == 'detect':
    return ow.DetectOutliers()
  if k == 'gauss':
    return ow.TransformToGaussian(use_rank=spec[1])
  if k == 'zscore':
    return ow.ZScoreLabels()
  if k == 'normalize':
    return ow.NormalizeLabels(target_interval=(spec[1], spec[2]))
  raise ValueError(spec)


def _site(tb):
  """innermost vizier frame of a traceback, as 'function'."""
  site = '?'
  for fr in traceback.extract_tb(tb):
    if 'vizier' in fr.filename:
      site = fr.name
  return site


def _traits(spec):
  """-> dict(is_pipeline, has_hr, has_log, fills, drops, gauss)."""
  k = spec[0]
  t = dict(is_pipeline=k in ('default', 'outliers'), has_hr=False,
           has_log=False, fills=False, drops=False, gauss=False,
           unwarp=False)
  if k == 'default':
    t.update(has_hr=spec[1], has_log=spec[2], fills=spec[3], unwarp=True)
  elif k == 'outliers':
    t.update(drops=spec[1], fills=spec[2], gauss=spec[3])
  elif k == 'halfrank':
    t.update(has_hr=True, unwarp=True)
  elif k == 'log':
    t.update(has_log=True, unwarp=True)
  elif k == 'infeasible':
    t.update(fills=True, unwarp=True)
  elif k == 'detect':
    t.update(drops=True)
  elif k == 'gauss':
    t.update(gauss=True)
  return t


def _classes(out, case, y, fin):
  F = y[fin]
  n = y.size
  out.cls('k:' + _kind(case['w']))
  out.cls('n1' if n == 1 else 'n2_8' if n <= 8 else 'n9_60')
  nd = len(np.unique(F))
  has_dup = nd < F.size
  infeas = int((~fin).sum())
  if infeas:
    out.cls('has_infeasible')
    if any(t == 'nan' for t in case['y']):
      out.cls('has_nan')
    if any(t == '-inf' for t in case['y']):
      out.cls('has_neg_inf')
    if infeas == n:
      out.cls('all_infeasible')
    elif infeas * 2 >= n:
      out.cls('infeasible_half_or_more')
  if has_dup:
    out.cls('has_dup')
  if nd == 1:
    out.cls('one_distinct_feasible')
    if infeas == 0:
      out.cls('const')
  outlier = False
  if F.size >= 2:
    a = np.abs(F)
    outlier = bool(a.max() >= 1e39 and np.median(a) <= 1e31)
    if outlier:
      out.cls('has_outlier')
    if a.max() < 1e-8 and a.max() > 0:
      out.cls('tiny_magnitude')
    rng = F.max() - F.min()
    if rng > 0 and rng < 1e-4 * a.max():
      out.cls('clustered')
  if case.get('prev'):
    out.cls('reuse')
  if case.get('x64'):
    out.cls('x64')
  out.nontrivial = bool(nd >= 3 and (has_dup or outlier or infeas))
  if out.nontrivial:
    out.cls('nontrivial')


def check(case):
  import warnings
  from harness import boot
  boot.init()
  boot.init_jax()
  import jax
  from vizier._src.algorithms.designers.gp import output_warpers as ow
  out = core.Out()
  spec = case['w']
  kind = _kind(spec)
  tr = _traits(spec)
  y = _np(case['y'])
  n = y.shape[0]
  fin = np.isfinite(y).ravel()
  F = y[fin, 0]
  _classes(out, case, y.ravel(), fin)
  if jax.config.read('jax_enable_x64') != bool(case.get('x64')):
    jax.config.update('jax_enable_x64', bool(case.get('x64')))

  # admitted-input guard (replays of hand-written cases; the generators
  # construct admitted inputs)
  nd = len(np.unique(F))
  if np.isposinf(y).any():
    return out.cls('not_admitted')
  if spec[0] == 'gauss' and (nd < 2 or not fin.all()):
    return out.cls('not_admitted')
  if kind == 'outliers_FFT' and not fin.all():
    return out.cls('not_admitted')
  if spec[0] in ('halfrank', 'log') and F.size == 0:
    return out.cls('not_admitted')

  with warnings.catch_warnings():
    warnings.simplefilter('ignore')
    warper = _build(ow, spec)
    if case.get('prev'):
      try:
        warper.warp(_np(case['prev']))
      except Exception:  # judged when it is the case's own array
        pass
    y_in = y.copy()
    snap = y_in.tobytes()
    try:
      w = warper.warp(y_in)
    except ValueError as e:
      if (spec[0] in ('zscore', 'normalize', 'detect') and F.size == 0):
        return out.cls('documented_valueerror')
      return out.violate('exception/%s/ValueError@%s' % (
          kind, _site(e.__traceback__)), '%r y=%r' % (e, case['y']))
    except Exception as e:  # pylint: disable=broad-except
      return out.violate('exception/%s/%s@%s' % (
          kind, type(e).__name__, _site(e.__traceback__)),
                         '%r y=%r' % (e, case['y']))
    if y_in.tobytes() != snap:
      out.violate('mutated/%s/warp_input' % kind, 'y=%r -> %r' % (
          case['y'], y_in.ravel().tolist()))
    w = np.asarray(w)
    if w.shape != y.shape:
      out.violate('shape/%s' % kind, '%r -> %r' % (y.shape, w.shape))
      return out
    w = w.astype(np.float64).ravel()
    yf = y.ravel()
    _judge(out, case, kind, tr, yf, w, fin, warper)
  return out


def _judge(out, case, kind, tr, y, w, fin, warper):
  F = y[fin]
  n = y.size
  nd = len(np.unique(F))
  infeas = ~fin
  desc = lambda: 'y=%r w=%r' % (case['y'], w.tolist())

  # -- documented pipeline short-cuts
  if tr['is_pipeline'] and fin.all() and nd == 1:
    if not (w == 0).all():
      out.violate('shortcut/%s/constant_not_zeros' % kind, desc())
    return
  if tr['is_pipeline'] and infeas.all():
    if not (w == -1).all():
      out.violate('shortcut/%s/all_infeasible_not_minus_ones' % kind, desc())
    return

  med = np.median(F) if F.size else np.nan
  # signature of the known HalfRank/scipy defect: a feasible value below the
  # median is lost although only *other* entries are infeasible.
  a_trigger = bool(tr['has_hr'] and infeas.any() and n >= 2 and F.size
                   and (F < med).any())
  if a_trigger:
    out.cls('halfrank_nan_trigger')
  lost = np.zeros(n, bool)

  log_zero_range = bool(tr['has_log'] and nd == 1 and not tr['fills']
                        and not (tr['is_pipeline'] and fin.all()))
  if log_zero_range:
    out.cls('log_zero_range_not_judged')

  # -- finiteness
  if tr['fills']:
    if not np.isfinite(w).all():
      top = F[F >= med] if F.size else F
      if (tr['gauss'] and np.isnan(w).all() and F.size and (
          abs(F.max()) >= 2.0 ** 53 or
          top.max() - top.min() < 1e-15 * (1 + abs(top.max())))):
        # the feasible values that survive outlier detection are one huge
        # value or closer together than the rounding of the infeasible
        # stage's absolute offset (range/2 + 1): constant array -> 0/0
        out.violate('finite/%s/%s' % (kind, SUF_E), desc())
      else:
        out.violate('finite/%s/nonfinite_output' % kind, desc())
      return
    if a_trigger:
      wbad = w[infeas][0]
      lost = fin & (y < med) & (w == wbad)
  else:
    wf = np.isfinite(w)
    if not np.isnan(w[infeas]).all():
      out.violate('finite/%s/infeasible_not_left_nan' % kind, desc())
    bad = fin & ~wf
    if tr['drops']:
      bad[:] = False  # outliers become NaN by design; judged in 'detect'
    if log_zero_range:
      if bad.any():
        out.cls('log_zero_range_nan_output')
      return
    if a_trigger:
      lost = bad & (y < med) & np.isnan(w)
      bad &= ~lost
      if lost.any():
        out.violate('finite/%s/%s' % (kind, SUF_A), desc())
        if tr['has_log'] and len(np.unique(y[fin & ~lost])) == 1:
          # what is left has zero range: see log_zero_range_not_judged
          out.cls('log_zero_range_after_known_loss')
          return
    if bad.any():
      out.violate('finite/%s/feasible_to_nonfinite' % kind, desc())
      return

  # -- infeasible no higher than the worst feasible
  if tr['fills'] and infeas.any() and fin.any():
    if w[infeas].max() > w[fin].min():
      out.violate('infeasible/%s/above_worst_feasible' % kind, desc())

  # -- DetectOutliers alone (also through the pipeline wrapper)
  if tr['drops'] and not tr['fills']:
    kept = fin & np.isfinite(w)
    dropped = fin & ~np.isfinite(w)
    if dropped.any():
      out.cls('outlier_dropped')
    if not (w[kept] == y[kept]).all() and not tr['gauss']:
      out.violate('detect/%s/kept_value_changed' % kind, desc())
    if dropped.any():
      if kept.any() and y[dropped].max() >= y[kept].min():
        out.violate('detect/%s/dropped_not_lower_set' % kind, desc())
      if y[dropped].max() >= med:
        out.violate('detect/%s/dropped_at_or_above_median' % kind, desc())
  elif tr['drops'] and fin.any() and infeas.any():
    if (fin & (w == w[infeas][0])).any():
      out.cls('outlier_dropped')
  elif tr['drops'] and fin.any():
    out.cls('outliers_no_infeasible')

  # -- order
  ok = fin & np.isfinite(w)
  Y, W = y[ok], w[ok]
  idx = np.nonzero(ok)[0]
  lt = Y[:, None] < Y[None, :]
  noise = 1e-12 * np.abs(W).max() if W.size else 0.0  # see ASSUMPTIONS
  rev = lt & (W[:, None] > W[None, :] + noise)
  if rev.any():
    i, j = np.argwhere(rev)[0]
    out.violate('order/%s/reversed' % kind, 'y[%d]=%r < y[%d]=%r but w %r > %r'
                ' | %s' % (idx[i], Y[i], idx[j], Y[j], W[i], W[j], desc()))
  if kind == 'default_TTT':
    eq = (Y[:, None] == Y[None, :]) & (W[:, None] != W[None, :])
    if eq.any():
      i, j = np.argwhere(eq)[0]
      out.violate('strict/%s/equal_split' % kind, 'y[%d]==y[%d]=%r but w %r '
                  '!= %r | %s' % (idx[i], idx[j], Y[i], W[i], W[j], desc()))
    res = 1e-9 * (F.max() - med)
    merged = lt & ((Y[None, :] - Y[:, None]) >= res) & (
        W[:, None] == W[None, :])
    if merged.any():
      L = lost[ok]
      known = merged & L[:, None]  # the lower value was lost
      if known.any():
        i, j = np.argwhere(known)[0]
        out.violate('strict/%s/%s' % (kind, SUF_A),
                    'y[%d]=%r and y[%d]=%r both get the infeasible value %r'
                    ' | %s' % (idx[i], Y[i], idx[j], Y[j], W[i], desc()))
      other = merged & ~known
      if other.any():
        i, j = np.argwhere(other)[0]
        out.violate('strict/%s/distinct_merged' % kind,
                    'y[%d]=%r < y[%d]=%r but both w=%r | %s' % (
                        idx[i], Y[i], idx[j], Y[j], W[i], desc()))
    if len(np.unique(Y)) >= 2:
      out.cls('strict_judged')

  # -- documented target interval
  if kind == 'normalize':
    lo, hi = case['w'][1], case['w'][2]
    if ((W < lo - noise) | (W > hi + noise)).any():
      out.violate('interval/normalize/outside_target', desc())
    if nd == 1 and not (W == (lo + hi) / 2).all():
      out.violate('interval/normalize/constant_not_midpoint', desc())

  # -- round trip
  if tr['unwarp']:
    _roundtrip(out, case, kind, tr, y, w, fin, lost, warper, med)


def _roundtrip(out, case, kind, tr, y, w, fin, lost, warper, med):
  F = y[fin]
  uniq = np.unique(F)
  if len(uniq) < 2:
    out.cls('roundtrip_skipped_one_distinct')
    return
  if kind == 'halfrank' and y.size == 1:
    return
  if lost.any() and KNOWN_HALFRANK_NAN:
    out.cls('roundtrip_skipped_known_halfrank_nan')
    if tr['fills']:
      out.violate('roundtrip/%s/%s' % (kind, SUF_A),
                  'feasible values warped to the infeasible value cannot be '
                  'un-warped: y=%r w=%r' % (case['y'], w.tolist()))
    return
  if tr['has_hr'] and tr['fills'] and not tr['has_log']:
    # HalfRank followed directly by the infeasible stage: the latter adds an
    # absolute offset (range/2 + 1), so labels whose spread is far below 1
    # are absorbed by rounding before HalfRank's rank-based inverse runs.
    spread = F.max() - med
    if spread == 0:
      spread = np.sqrt(np.mean((uniq - med) ** 2))
    if spread < 1e-6 * (1 + abs(med)):
      out.cls('roundtrip_skipped_unscaled_for_infeasible_offset')
      return
  sel = fin & np.isfinite(w)
  arg = w[sel][:, None].copy()
  if len(np.unique(arg)) == 1 and arg[0, 0] in (0.0, -1.0):
    out.cls('roundtrip_skipped_documented_alias')
    return
  snap = arg.tobytes()
  try:
    u = warper.unwarp(arg)
  except Exception as e:  # pylint: disable=broad-except
    out.violate('roundtrip/%s/exception_%s@%s' % (
        kind, type(e).__name__, _site(e.__traceback__)),
                '%r y=%r w=%r' % (e, case['y'], w.tolist()))
    return
  if arg.tobytes() != snap:
    out.violate('mutated/%s/unwarp_input' % kind, 'y=%r' % (case['y'],))
  # a fitted warper un-warps many arrays (every posterior sample of a
  # prediction): the same input gives the same output again
  try:
    u_again = np.asarray(warper.unwarp(arg.copy()), dtype=np.float64)
    if not np.array_equal(u_again, np.asarray(u, dtype=np.float64),
                          equal_nan=True):
      out.violate('roundtrip/%s/second_unwarp_differs' % kind,
                  'unwarp(w) = %r, unwarp(w) again = %r | y=%r' % (
                      np.asarray(u).ravel().tolist()[:6],
                      u_again.ravel().tolist()[:6], case['y']))
  except Exception as e:  # pylint: disable=broad-except
    out.violate('roundtrip/%s/second_unwarp_exception_%s' % (
        kind, type(e).__name__), repr(e))
  u = np.asarray(u, dtype=np.float64)
  if u.shape != arg.shape:
    out.violate('shape/%s/unwarp' % kind, '%r -> %r' % (arg.shape, u.shape))
    return
  u = u.ravel()
  Y = y[sel]
  scale = np.abs(F).max() + (F.max() - F.min())
  if tr['fills'] and not tr['has_log']:
    scale += 1.0  # the infeasible stage offsets by range/2 + 1 (absolute)
  tol = 1e-9 * scale
  bad = ~(np.abs(u - Y) <= tol)
  out.cls('roundtrip_judged')
  if not bad.any():
    return
  uniq_med = uniq[len(uniq) // 2]
  sig_b = bad & tr['has_hr'] & (uniq_med < med) & (Y < med) & (
      u >= uniq_med - tol) & (u < med)
  sig_c = bad & ~sig_b & tr['has_hr'] & (
      (np.abs(u - uniq[0]) <= tol) | (np.abs(u - uniq[1]) <= tol))
  rest = bad & ~sig_b & ~sig_c
  pos = np.nonzero(sel)[0]
  for name, m in (('off_value', rest), (SUF_B, sig_b), (SUF_C, sig_c)):
    if m.any():
      i = np.nonzero(m)[0][0]
      out.violate('roundtrip/%s/%s' % (kind, name),
                  'y[%d]=%r warped to %r un-warps to %r (tol %.3g) | y=%r' % (
                      pos[i], Y[i], w[sel][i], u[i], tol, case['y']))


# the tfp import alone costs 15-25 s of a shrink worker's time cap
SHRINK = {'quick': 75, 'thorough': 240}



# ---------------------------------------------------------------------------
# the designers' own use of the warpers (gp_ucb_pe.py): one warper per metric,
# predictions un-warped with the warper of *that* metric
# ---------------------------------------------------------------------------
def designer_strategy():
  @st.composite
  def case(draw):
    n_metrics = draw(st.sampled_from([2, 2, 3]))
    # metrics on well separated scales: un-warping metric i with the warper
    # of metric j lands orders of magnitude outside metric i's values
    offsets = draw(st.permutations([0.0, 1e4, 1e8]))[:n_metrics]
    n = draw(st.integers(5, 8))
    pts = draw(st.lists(st.tuples(
        st.floats(0.05, 0.95, allow_nan=False),
        st.floats(0.05, 0.95, allow_nan=False)).map(list),
                        min_size=n, max_size=n, unique_by=lambda p: tuple(p)))
    return {'offsets': list(offsets), 'points': pts,
            'seed': draw(st.integers(0, 5))}
  return case()


def check_designer(case):
  import jax
  from vizier import pyvizier as vz
  from vizier._src.algorithms.core import abstractions as vza
  from vizier._src.algorithms.designers import gp_ucb_pe
  from vizier._src.algorithms.optimizers import eagle_strategy as es
  from vizier._src.algorithms.optimizers import vectorized_base as vb
  out = core.Out()
  ps = vz.ProblemStatement()
  ps.search_space.root.add_float_param('x', 0.0, 1.0)
  ps.search_space.root.add_float_param('y', 0.0, 1.0)
  names = ['m%d' % i for i in range(len(case['offsets']))]
  for nm in names:
    ps.metric_information.append(vz.MetricInformation(
        nm, goal=vz.ObjectiveMetricGoal.MAXIMIZE))
  fns = [lambda x, y: x * y, lambda x, y: (x + y) / 2.0,
         lambda x, y: 1.0 - abs(x - y)]
  trials = []
  values = {nm: [] for nm in names}
  for i, (x, y) in enumerate(case['points']):
    t = vz.Trial(id=i + 1, parameters={'x': x, 'y': y})
    ms = {}
    for k, nm in enumerate(names):
      off = case['offsets'][k]
      v = off + max(off, 1.0) * fns[k](x, y)
      ms[nm] = v
      values[nm].append(v)
    t.complete(vz.Measurement(ms))
    trials.append(t)
  opt = vb.VectorizedOptimizerFactory(
      strategy_factory=es.VectorizedEagleStrategyFactory(),
      max_evaluations=200, suggestion_batch_size=25)
  try:
    d = gp_ucb_pe.VizierGPUCBPEBandit(
        ps, acquisition_optimizer_factory=opt,
        rng=jax.random.PRNGKey(case['seed']))
    d.update(vza.CompletedTrials(trials), vza.ActiveTrials())
    d.suggest(1)
    pred = d.predict(trials, num_samples=100)
  except Exception as e:  # pylint: disable=broad-except
    out.cls('designer_raised:' + type(e).__name__)
    out.inconclusive = True
    return out
  mean = np.asarray(pred.mean).reshape(len(trials), -1)
  if mean.shape[1] != len(names):
    out.violate('designer/predict_shape', 'mean shape %r for %d metrics' % (
        mean.shape, len(names)))
    return out
  for k, nm in enumerate(names):
    lo, hi = min(values[nm]), max(values[nm])
    span = max(hi - lo, 1e-9 * max(abs(lo), abs(hi), 1.0))
    col = mean[:, k]
    if not np.all(np.isfinite(col)):
      out.violate('designer/unwarped_prediction_nonfinite/gp_ucb_pe',
                  'metric %s predictions %r' % (nm, col.tolist()))
    elif np.any(col < lo - 50 * span) or np.any(col > hi + 50 * span):
      out.violate('designer/unwarped_prediction_on_wrong_scale/gp_ucb_pe',
                  'metric %s observed in [%g, %g] but predictions at the '
                  'observed points are %r (offsets %r): un-warped with '
                  'another metric\'s warper?' % (
                      nm, lo, hi, col.tolist(), case['offsets']))
  out.cls('designer_gp_ucb_pe', 'metrics_%d' % len(names))
  out.nontrivial = True
  return out


def two_designers_strategy():
  @st.composite
  def case(draw):
    n = draw(st.integers(5, 7))
    pts = draw(st.lists(st.tuples(
        st.floats(0.05, 0.95, allow_nan=False),
        st.floats(0.05, 0.95, allow_nan=False)).map(list),
                        min_size=n, max_size=n, unique_by=lambda p: tuple(p)))
    return {'points': pts, 'offsets': draw(st.sampled_from(
        [[0.0, 1e4], [1e4, 0.0], [0.0, 1e8]])),
            'seed': draw(st.integers(0, 5)), 'rounds': 2}
  return case()


def check_two_designers(case):
  """Two single-metric GP bandits (two studies of one server process) on very
  different label scales are asked for predictions at the same time, each from
  its own thread: every prediction must be on its own study's scale. (Each
  `sample()` fits its warper, fits the GP - seconds - and un-warps: warper
  state shared between designers shows as predictions on the other scale.)"""
  import threading
  import jax
  from harness import c14_lib
  from vizier import pyvizier as vz
  from vizier._src.algorithms.core import abstractions as vza
  from vizier._src.algorithms.designers import gp_bandit
  out = core.Out()
  kw = c14_lib.gp_kwargs({'max_evaluations': 200, 'ard_maxiter': 5})
  designers, trials_of, ranges = [], [], []
  try:
    for k, off in enumerate(case['offsets']):
      ps = vz.ProblemStatement()
      ps.search_space.root.add_float_param('x', 0.0, 1.0)
      ps.search_space.root.add_float_param('y', 0.0, 1.0)
      ps.metric_information.append(vz.MetricInformation(
          'm', goal=vz.ObjectiveMetricGoal.MAXIMIZE))
      trials, vals = [], []
      for i, (x, y) in enumerate(case['points']):
        t = vz.Trial(id=i + 1, parameters={'x': x, 'y': y})
        v = off + max(off, 1.0) * (x * y if k == 0 else (x + y) / 2.0)
        vals.append(v)
        t.complete(vz.Measurement({'m': v}))
        trials.append(t)
      d = gp_bandit.VizierGPBandit(
          ps, rng=jax.random.PRNGKey(case['seed'] + k), **kw)
      d.update(vza.CompletedTrials(trials), vza.ActiveTrials())
      designers.append(d)
      trials_of.append(trials)
      ranges.append((min(vals), max(vals)))
  except Exception as e:  # pylint: disable=broad-except
    out.cls('designer_raised:' + type(e).__name__)
    out.inconclusive = True
    return out
  results = [[] for _ in designers]
  errors = []
  start = threading.Barrier(len(designers))

  def worker(k):
    try:
      start.wait(timeout=120)
      for r in range(case['rounds']):
        pred = designers[k].predict(trials_of[k], num_samples=50)
        results[k].append(np.asarray(pred.mean, dtype=float).reshape(-1))
    except Exception as e:  # pylint: disable=broad-except
      errors.append('%d: %s: %s' % (k, type(e).__name__, str(e)[:200]))
  threads = [threading.Thread(target=worker, args=(k,))
             for k in range(len(designers))]
  for t in threads:
    t.start()
  for t in threads:
    t.join(timeout=900)
  if errors or any(t.is_alive() for t in threads):
    out.cls('designer_raised_or_hung_in_thread')
    out.inconclusive = True
    return out
  for k, (lo, hi) in enumerate(ranges):
    span = max(hi - lo, 1e-9 * max(abs(lo), abs(hi), 1.0))
    for col in results[k]:
      if not np.all(np.isfinite(col)):
        out.violate('designer/concurrent_prediction_nonfinite/gp_bandit',
                    'study %d predictions %r' % (k, col.tolist()))
      elif np.any(col < lo - 50 * span) or np.any(col > hi + 50 * span):
        out.violate('designer/concurrent_prediction_on_other_studys_scale/'
                    'gp_bandit',
                    'study %d observed in [%g, %g] but its predictions at the '
                    'observed points are %r while a designer of another study '
                    '(labels in [%g, %g]) predicted in another thread' % (
                        k, lo, hi, col.tolist(), ranges[1 - k][0],
                        ranges[1 - k][1]))
  out.cls('two_gp_bandits_in_threads')
  out.nontrivial = True
  return out


def families(tier):
  return [
      core.Family('designers_concurrent', check_two_designers,
                  strategy=two_designers_strategy,
                  budget={'quick': 2, 'thorough': 12},
                  shards={'quick': 2, 'thorough': 6},
                  max_shrink_s={'quick': 0, 'thorough': 0},
                  required_classes=('two_gp_bandits_in_threads',)),
      core.Family('default', check, strategy=default_strategy,
                  budget={'quick': 3200, 'thorough': 100000},
                  shards={'quick': 6, 'thorough': 16},
                  max_shrink_s=SHRINK,
                  required_classes=(
                      'k:default_TTT', 'k:default_TFT', 'k:default_FTT',
                      'k:default_TTF', 'k:default_FFT', 'nontrivial',
                      'has_dup', 'has_outlier', 'has_nan', 'has_neg_inf',
                      'all_infeasible', 'infeasible_half_or_more', 'const',
                      'one_distinct_feasible', 'tiny_magnitude', 'clustered',
                      'reuse', 'n1', 'n9_60', 'strict_judged',
                      'roundtrip_judged')),
      core.Family('outliers', check, strategy=outliers_strategy,
                  budget={'quick': 640, 'thorough': 16000},
                  shards={'quick': 4, 'thorough': 16},
                  max_shrink_s=SHRINK,
                  required_classes=(
                      'k:outliers_TTT', 'k:outliers_FTT', 'k:outliers_TFF',
                      'k:outliers_FFT', 'nontrivial', 'has_outlier',
                      'outlier_dropped', 'has_infeasible', 'x64', 'reuse')),
      core.Family('components', check, strategy=components_strategy,
                  budget={'quick': 2400, 'thorough': 60000},
                  shards={'quick': 6, 'thorough': 16},
                  max_shrink_s=SHRINK,
                  required_classes=(
                      'k:halfrank', 'k:log', 'k:infeasible', 'k:detect',
                      'k:gauss', 'k:gauss_rank', 'k:zscore', 'k:normalize',
                      'nontrivial', 'has_dup', 'has_outlier', 'has_nan',
                      'has_neg_inf', 'all_infeasible', 'outlier_dropped',
                      'documented_valueerror', 'roundtrip_judged', 'reuse')),
      core.Family('designer_unwarp', check_designer,
                  strategy=designer_strategy,
                  budget={'quick': 2, 'thorough': 16},
                  shards={'quick': 2, 'thorough': 8},
                  max_shrink_s={'quick': 0, 'thorough': 0},
                  required_classes=('designer_gp_ucb_pe',)),
  ]
