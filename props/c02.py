"""C02 Suggest hands out exactly the requested trials, sticky per worker, fresh ids.

Family `suggest_history`: histories of suggest / complete / request (CreateTrial
REQUESTED) / add completed trial / delete / stop by 1-4 workers against a real
servicer (RAM, SQL) whose algorithm is a harness policy with a drawn delivery
profile per invocation (exact, over by 1-3, under by 1-n incl. 0).  Oracle =
the three-source-fill reference model (harness/service_model.py) plus
model-free clauses a-f of DESIGN.md C02.  The client path
(clients.Study.suggest / VizierClient.get_suggestions) is driven for a drawn
subset of the suggest calls.
"""
from harness import core

ID = 'C02'
LEVEL = 'exploration'
RULE = ('Hypothesis histories (6..40 calls) over one study, workers w1..w4, '
        'n in 1..5, per-invocation delivery delta in -5..+3; both datastores; '
        'raw SuggestTrials and clients.Study.suggest. non-trivial = the '
        'history has an over-delivery followed by a suggest that is served '
        '(partly) from the REQUESTED pool, or a re-ask with a different n '
        'while the worker holds active trials. distinct = SHA-1 of case JSON.')
ASSUMPTIONS = [
    'reference model of the three-source fill in harness/service_model.py; '
    'which REQUESTED trial is handed out and which suggestion lands on which '
    'new id are adopted from the implementation after validation '
    '(unspecified by the statement)',
    'harness policy delivers exactly the drawn number of suggestions',
]


def strategy():
  from hypothesis import strategies as st
  worker = st.sampled_from(['w1', 'w1', 'w2', 'w3', 'w4'])
  tid = st.sampled_from([1, 1, 2, 2, 3, 3, 4, 5, 6, 7, 8, 12])
  comp = st.fixed_dictionaries({'final': st.just(1.0),
                                'infeasible': st.booleans(),
                                'reason': st.just('')})
  tspec = lambda state: st.fixed_dictionaries({
      'state': st.just(state), 'final': st.just(1.0 if state == 'SUCCEEDED'
                                                else None),
      'client_id': st.sampled_from(['', 'w1']), 'k': st.integers(0, 5),
      'md': st.just([])})
  table = [
      (8, st.tuples(st.just('suggest'), st.just('o0'), st.just('s0'), worker,
                    st.integers(1, 5), st.sampled_from(['raw', 'raw',
                                                        'client']))),
      (5, st.tuples(st.just('complete'), st.just('o0'), st.just('s0'), tid,
                    comp)),
      (3, st.tuples(st.just('create_trial'), st.just('o0'), st.just('s0'),
                    tspec('REQUESTED'))),
      (1, st.tuples(st.just('create_trial'), st.just('o0'), st.just('s0'),
                    tspec('SUCCEEDED'))),
      (2, st.tuples(st.just('delete_trial'), st.just('o0'), st.just('s0'),
                    tid)),
      (1, st.tuples(st.just('stop'), st.just('o0'), st.just('s0'), tid)),
  ]
  weighted = [i for i, (k, _) in enumerate(table) for _ in range(k)]
  op = st.sampled_from(weighted).flatmap(lambda i: table[i][1]).map(list)
  return st.fixed_dictionaries({
      'backend': st.sampled_from(['ram', 'sqlmem']),
      # 'siblings': the study is called s_0 and the same owner has studies sx0
      # and S_0 (ids that differ in a LIKE wildcard / in case only) holding
      # ACTIVE trials of the same workers and queued REQUESTED trials
      'layout': st.sampled_from(['single', 'single', 'siblings']),
      'deliveries': st.lists(st.sampled_from(
          [0, 0, 0, 1, 2, 3, -1, -2, -5]), min_size=12, max_size=12),
      'ops': st.lists(op, min_size=6, max_size=40),
  })


def check(case):
  from harness import svc, histories
  from harness import service_model as sm
  from vizier._src.service import clients, vizier_client
  out = core.Out()
  plan = svc.Plan(deliveries=case['deliveries'])
  s = svc.make_servicer(case['backend'],
                        policy_factory=svc.HarnessPolicyFactory(plan))
  vizier_client.environment_variables.new_suggestion_polling_secs = 0.0
  try:
    model = sm.Model(svc.std_config().to_proto(), svc.det_params)
    siblings = case.get('layout') == 'siblings'
    sid = 's_0' if siblings else 's0'
    ops = [op[:2] + [sid] + op[3:] for op in case['ops']]
    histories.exec_real(s, ['create_study', 'o0', sid])
    model.create_study('o0', sid)
    if siblings:
      out.cls('sibling_studies')
      for dsid in ('sx0', 'S_0'):
        for dop in (['create_study', 'o0', dsid],) + tuple(
            ['create_trial', 'o0', dsid,
             {'state': st_, 'final': None, 'client_id': w_, 'k': k_, 'md': []}]
            for st_, w_, k_ in (('ACTIVE', 'w1', 7), ('REQUESTED', '', 8),
                                ('ACTIVE', 'w2', 9), ('REQUESTED', '', 10))):
          real = histories.exec_real(s, dop)
          histories.exec_model(model, dop, real, s)
    name = sm.sname('o0', sid)
    owner_of = {}  # trial id -> worker while ACTIVE (clause d)
    over_delivered = False
    drained_after_over = False
    reask_diff_n = False
    last_n = {}
    for step, op in enumerate(ops):
      kind = op[0]
      if kind != 'suggest':
        real = histories.exec_real(s, op)
        mres, _ = histories.exec_model(model, op, real, s)
        diff = histories.compare_results(op, real, mres)
        if diff is not None:
          out.violate('other_rpc/%s' % kind, 'step %d op=%r: %s' % (
              step, op, diff))
          break
        # ids may be re-used after deletion; ownership ends with ACTIVE
        st2 = model.owners['o0'][sid]
        for tid_ in list(owner_of):
          t2 = st2.trials.get(tid_)
          if t2 is None or t2.state != sm.TS.ACTIVE:
            owner_of.pop(tid_)
        continue
      _, _, _, worker, n, via = op
      st_ = model.owners['o0'][sid]
      before_ids = set(st_.trials)
      max_before = max(before_ids) if before_ids else 0
      own_before = [t for t in st_.trials.values()
                    if t.state == sm.TS.ACTIVE and t.client_id == worker]
      pool_before = [t for t in st_.trials.values()
                     if t.state == sm.TS.REQUESTED]
      idx = plan.suggest_calls
      delta = plan.deliveries[idx] if idx < len(plan.deliveries) else 0
      ask = n - len(own_before) - min(len(pool_before),
                                      max(0, n - len(own_before)))
      delivered = max(0, ask + delta) if ask > 0 else None
      if own_before and last_n.get(worker) not in (None, n):
        reask_diff_n = True
      last_n[worker] = n
      # ---- real call
      calls_before = plan.suggest_calls
      if via == 'client':
        c = vizier_client.VizierClient(name, worker, s)
        try:
          trials = c.get_suggestions(n)
          real_ids = [t.id for t in trials]
          real = None
        except Exception as e:  # pylint: disable=broad-except
          out.violate('client_suggest_raised/%s' % type(e).__name__,
                      'step %d op=%r delivered=%r: %s' % (
                          step, op, delivered, str(e)[:300]))
          break
        # fetch the raw op for model comparison
        k = len(st_.ops.get(worker, {})) + 1
        real = histories.exec_real(s, ['get_op', 'o0', sid, worker, k])
        out.cls('via_client')
      else:
        real = histories.exec_real(s, op[:5])
      if real[0] == 'err':
        out.violate('suggest_error/%s' % real[1],
                    'step %d op=%r delivered=%r: %s' % (
                        step, op, delivered, real[2]))
        break
      mres, problems = histories.exec_model(model, op[:5], real, s, delivered)
      for p in problems:
        out.violate('fill_choice_not_allowed', 'step %d op=%r: %s' % (
            step, op, p))
      diff = histories.compare_results(['suggest'] + op[1:5], real, mres)
      if diff is not None:
        out.violate('suggest_response', 'step %d op=%r delivered=%r: %s' % (
            step, op, delivered, diff))
        break
      _, mtrials, invoked = mres[1]
      if (plan.suggest_calls > calls_before) != invoked:
        out.violate('policy_invocation', 'step %d op=%r invoked=%s model=%s'
                    % (step, op, plan.suggest_calls > calls_before, invoked))
        break
      rtrials = list(svc.suggest_response(real[1]).trials)
      if via == 'client' and real_ids != [int(t.id) for t in rtrials]:
        out.violate('client_vs_operation', 'step %d client ids %r op ids %r'
                    % (step, real_ids, [t.id for t in rtrials]))
      # ---- model-free clauses
      expect_len = n if delivered is None else min(
          n, len(own_before) + min(len(pool_before), n - len(own_before))
          + delivered)
      if len(rtrials) != expect_len:
        out.violate('a_count', 'step %d op=%r: got %d trials, expected %d '
                    '(own=%d pool=%d delivered=%r)' % (
                        step, op, len(rtrials), expect_len, len(own_before),
                        len(pool_before), delivered))
      for t in rtrials:
        if t.state != sm.TS.ACTIVE or t.client_id != worker:
          out.violate('b_not_active_for_worker', 'step %d trial %s state=%s '
                      'client=%r worker=%r' % (step, t.id, t.state,
                                               t.client_id, worker))
      all_now = s.ListTrials(svc.vsp.ListTrialsRequest(parent=name)).trials
      for t in all_now:
        tid_ = int(t.id)
        if t.state == sm.TS.ACTIVE:
          prev_owner = owner_of.get(tid_)
          if prev_owner is not None and prev_owner != t.client_id and (
              tid_ in before_ids):
            out.violate('d_two_workers', 'step %d trial %d active for %r, '
                        'was active for %r' % (step, tid_, t.client_id,
                                               prev_owner))
          owner_of[tid_] = t.client_id
        else:
          owner_of.pop(tid_, None)
      new_ids = sorted(int(t.id) for t in all_now
                       if int(t.id) not in before_ids)
      if delivered is not None and len(new_ids) != delivered:
        out.violate('e_surplus_not_conserved', 'step %d op=%r: policy '
                    'delivered %d suggestions, %d trials were created' % (
                        step, op, delivered, len(new_ids)))
      if delivered is None and new_ids:
        out.violate('c_created_without_need', 'step %d op=%r created %r' % (
            step, op, new_ids))
      if new_ids and min(new_ids) <= max_before:
        out.violate('f_id_not_fresh', 'step %d new ids %r, max before %d' % (
            step, new_ids, max_before))
      if delivered is not None and delivered > ask:
        over_delivered = True
        out.cls('over_delivery')
      if delivered is not None and delivered < ask:
        out.cls('under_delivery')
      if delivered == 0:
        out.cls('zero_delivery')
      if over_delivered and pool_before and len(own_before) < n:
        drained_after_over = True
      sd = histories.compare_snapshots(svc.snapshot(s, ['o0']),
                                       model.snapshot(['o0']))
      if sd is not None:
        out.violate('snapshot_after_suggest', 'step %d op=%r delivered=%r: %s'
                    % (step, op, delivered, sd))
        break
      # ---- c: repeating the call returns the same trials, creates nothing
      if len(rtrials) == n:
        again = histories.exec_real(s, op[:5])
        calls_mid = plan.suggest_calls
        m2, _ = histories.exec_model(model, op[:5], again, s, None)
        if again[0] != 'ok':
          out.violate('c_repeat_failed', 'step %d: %r' % (step, again))
          break
        ids2 = [t.id for t in svc.suggest_response(again[1]).trials]
        if sorted(ids2) != sorted(t.id for t in rtrials):
          out.violate('c_repeat_differs', 'step %d op=%r first=%r again=%r' %
                      (step, op, [t.id for t in rtrials], ids2))
        after = s.ListTrials(svc.vsp.ListTrialsRequest(parent=name)).trials
        if [svc.pb_hex(svc.norm_trial(t)) for t in after] != [
            svc.pb_hex(svc.norm_trial(t)) for t in all_now]:
          out.violate('c_repeat_changed_store', 'step %d op=%r' % (step, op))
        if plan.suggest_calls != calls_mid:
          out.violate('c_repeat_invoked_policy', 'step %d op=%r' % (step, op))
        out.cls('repeat_checked')
    out.nontrivial = drained_after_over or reask_diff_n
    if drained_after_over:
      out.cls('drained_pool_after_over_delivery')
    if reask_diff_n:
      out.cls('reask_with_different_n')
    out.cls(case['backend'])
  finally:
    svc.close_servicer(s)
  return out


def families(tier):
  return [
      core.Family('suggest_history', check, strategy=strategy,
                  budget={'quick': 1200, 'thorough': 30000},
                  shards={'quick': 16, 'thorough': 16},
                  required_classes=('over_delivery', 'under_delivery',
                                    'zero_delivery', 'via_client',
                                    'drained_pool_after_over_delivery',
                                    'reask_with_different_n',
                                    'repeat_checked', 'ram', 'sqlmem',
                                    'sibling_studies')),
  ]
