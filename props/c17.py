"""C17 Clients receive parameter values in the declared external types.

Families
  local    StudyConfig built with the public builders (directly, through
           StudyConfig.from_problem, or additionally sent through
           to_proto/from_proto = the wire form of the configuration); trials as
           study_pb2.Trial messages (hand-built or converted from vz.Trial);
           read with StudyConfig.trial_parameters(proto).  Conditional depth
           <= 3.
  service  the same spaces served by a VizierServicer on RAM / SQL; trials are
           stored by a real Study.add_trial (flat spaces: the only ones it
           supports), Study.request, the CreateTrial RPC, or Study.suggest with
           the harness policy proposing the drawn assignment; read with
           clients.Trial.parameters (handle returned by the insertion,
           Study.get_trial and iteration of Study.trials()) and with
           materialize_study_config().trial_parameters(GetTrial proto).

Oracle (harness/c17_gen.expect, written from the statement): the set of
active parameters is computed by walking the declared tree with the trial's
values; a trial with an undeclared or inactive name must raise ValueError;
otherwise the result must have exactly one key per active plain parameter
and one per indexed family, the family value being a list in index order,
every value equal to the stored one and of the declared type (bool / int /
float / str; INTEGER parameters: an integral int or float).
"""
from hypothesis import strategies as st

from harness import core

ID = 'C17'
LEVEL = 'exploration'

# Finding C17/wire_grandchild_config_lost (root cause shared with C09
# "grandchild_lost"): ParameterConfigConverter.to_proto drops parameters at
# conditional depth >= 3, so every valid trial that activates one is rejected
# when the configuration went through the wire.  While the finding is known
# the generator keeps wire-form spaces at depth <= 2 (the capped cases are
# counted in class 'wire_depth3_avoided_known_defect'); the pinned replay keeps
# exercising the defect itself.  Set to False once /repo is fixed
# (VERIF_C17_UNCAP=1 does the same for one run, e.g. against a patched copy).
import os
KNOWN_WIRE_GRANDCHILD_LOST = False

RULE = ('Hypothesis-generated space specs (all builder kinds, discrete '
        'auto_cast on/off/default with integral, fractional and mixed values, '
        'boolean feasible subsets, indexed families with gaps declared in '
        'shuffled order, conditional children under 1-3 parent values of '
        'bool/int/discrete/categorical parents, the same child name in '
        'disjoint subspaces, hostile names) x 1-5 trials each (valid, with an '
        'undeclared name, with an inactive child, missing an indexed '
        'element). non-trivial = the space presents >= 2 external types, or '
        'has an indexed family, or a conditional child. distinct = SHA-1 of '
        'the canonical JSON case.')
ASSUMPTIONS = [
    'the stored value is the value handed to add_trial / request / '
    'CreateTrial / the policy suggestion (doubles survive the wire exactly)',
    'a name is an indexed parameter iff it was declared with index=; the '
    'generator never declares a plain parameter whose name equals the base '
    'name of an indexed family, nor names containing parentheses',
    'python bools are only given for boolean parameters without children',
    'for a trial that lacks an element of an indexed family either the list '
    'of the present elements in index order or ValueError is accepted',
    'the same parameter name is reused only by the first parameters of two '
    'disjoint subspaces of one parent (their descendants have fresh names)',
    'while KNOWN_WIRE_GRANDCHILD_LOST is set, configurations that go through '
    'the wire are generated with conditional depth <= 2 (depth 3 only in '
    'the pinned replays)',
]


# ---------------------------------------------------------------- strategies
def _case_strategy(modes, wire_modes):
  from harness import c17_gen as gen

  @st.composite
  def case(draw):
    mode = draw(st.sampled_from(modes))
    depth = draw(st.sampled_from([1, 2, 2, 3, 3, 3]))
    capped = False
    if (mode in wire_modes and depth >= 3 and KNOWN_WIRE_GRANDCHILD_LOST):
      depth = 2
      capped = True
    spec = draw(gen.space(max_depth=depth))
    trials = draw(st.lists(gen.trial(spec), min_size=1, max_size=5))
    c = {'mode': mode, 'space': spec, 'trials': trials,
         'merge_conditions': draw(st.booleans()),
         'build': draw(st.sampled_from(['study_config', 'from_problem']))}
    if capped:
      c['wire_depth_capped'] = True
    return c
  return case()


def local_strategy():
  @st.composite
  def case(draw):
    c = draw(_case_strategy(['direct', 'direct', 'direct', 'proto_rt'], ['proto_rt']))
    for t in c['trials']:
      t['proto'] = draw(st.sampled_from(['raw', 'pytrial']))
    return c
  return case()


def service_strategy():
  @st.composite
  def case(draw):
    c = draw(_case_strategy(['ram', 'sqlmem'], ['ram', 'sqlmem']))
    for t in c['trials']:
      t['via'] = draw(st.sampled_from(
          ['add_trial', 'request', 'raw', 'suggest']))
    return c
  return case()


# -------------------------------------------------------------------- oracle
def _config(case):
  from harness import c17_gen as gen
  from vizier import pyvizier as vz
  from vizier.service import pyvizier as svz
  mi = vz.MetricInformation('m', goal=vz.ObjectiveMetricGoal.MAXIMIZE)
  if case.get('build') == 'from_problem':
    ps = vz.ProblemStatement()
    gen.build(case['space'], ps.search_space)
    ps.metric_information.append(mi)
    sc = svz.StudyConfig.from_problem(ps)
    sc.algorithm = 'HARNESS'
  else:
    sc = svz.StudyConfig(algorithm='HARNESS')
    gen.build(case['space'], sc.search_space)
    sc.metric_information.append(mi)
  return sc


def _space_classes(out, spec):
  from harness import c17_gen as gen
  ets = set()
  fams = {}
  for p, d in gen.walk(spec):
    et = gen.external_type(p)
    ets.add('float_or_int' if et == 'integral' else et)
    out.cls('kind_' + p['kind'], 'depth%d' % d)
    if p['kind'] == 'DISCRETE':
      ac = {True: 'on', False: 'off', None: 'default'}[p.get('auto_cast')]
      out.cls('discrete_%s_autocast_%s' % (p['flavour'], ac))
      out.cls('discrete_presented_as_' + et)
    if p['kind'] == 'BOOL' and p.get('feasible') is not None:
      out.cls('bool_feasible_subset')
    if p['kind'] == 'CATEGORICAL' and (
        'True' in p['values'] or 'False' in p['values']):
      out.cls('categorical_with_True_False')
    if 'index' in p:
      fams.setdefault(p['base'], []).append(p['index'])
    elif p['name'] in gen.HOSTILE:
      out.cls('hostile_name')
    for ch in p.get('children', ()):
      out.cls('conditional', 'parent_' + p['kind'])
      if len(ch['parent_values']) > 1:
        out.cls('multi_parent_values')
    kids = p.get('children', ())
    if len(kids) == 2 and (kids[0]['params'][0]['name'] in
                           [q['name'] for q in kids[1]['params']]):
      out.cls('shared_child_name')
  for base, idxs in fams.items():
    out.cls('indexed')
    if len(idxs) >= 2:
      out.cls('indexed_multi')
    if sorted(idxs) != list(range(len(idxs))):
      out.cls('indexed_gap')
    if sorted(idxs) != sorted(idxs, key=str):
      out.cls('indexed_lex_order_differs')
    if idxs != sorted(idxs):
      out.cls('indexed_declared_unsorted')
  types = {e for e in ets}
  conditional = any(p.get('children') for p, _ in gen.walk(spec))
  out.nontrivial = len(types) >= 2 or bool(fams) or conditional
  if len(types) >= 2:
    out.cls('multi_external_types')
  return conditional


def _judge(out, site, spec, params, call, lost=()):
  """Runs call() (one read of one trial) and judges it against the oracle."""
  from harness import c17_gen as gen
  exp = gen.expect(spec, params)
  out.count('trial_reads')
  try:
    got = call()
    err = None
  except ValueError as e:
    got, err = None, e
  except Exception as e:  # pylint: disable=broad-except
    import traceback
    tb = traceback.extract_tb(e.__traceback__)
    frames = [f for f in tb if '/vizier/' in f.filename]
    where = ('%s:%s' % (frames[-1].filename.split('/vizier/')[-1],
                        frames[-1].name)) if frames else '?'
    out.violate('error/wrong_exception/%s/%s' % (type(e).__name__, where),
                '%s params=%r -> %r' % (site, params, e))
    return
  if exp[0] == 'error':
    if err is None:
      kind = exp[1]
      if kind == 'inactive' and all(
          _shadowed_by_same_named_parent(spec, params, n) for n in exp[2]):
        kind = 'inactive_child_of_same_named_parent'
      out.violate('error/not_reported/%s' % kind,
                  '%s params=%r %s names=%r but returned %r' % (
                      site, params, exp[1], exp[2], got))
    return
  want = exp[1]
  if err is not None:
    present = gen.active_params(spec, params)
    declared_members = {}
    for p, _ in gen.walk(spec):
      if 'index' in p:
        declared_members.setdefault(p['base'], set()).add(p['name'])
    incomplete = any(
        not declared_members[p['base']] <= set(params)
        for n, (p, _) in present.items() if 'index' in p and n in params)
    if incomplete:
      out.cls('incomplete_family_rejected_with_ValueError')
      return
    deep = [n for n in params if present[n][1] >= 3]
    if any(n in lost for n in deep):
      out.violate('error/valid_trial_rejected/wire_grandchild_config_lost',
                  '%s params=%r: %r was declared at conditional depth >= 3 '
                  'and is missing from the configuration after to_proto/'
                  'from_proto -> %s' % (site, params, deep, str(err)[:200]))
      return
    d = max(present[n][1] for n in params) if params else 0
    out.violate('error/valid_trial_rejected/depth%d' % d,
                '%s params=%r -> ValueError %s' % (site, params,
                                                   str(err)[:300]))
    return
  if not isinstance(got, dict) and not hasattr(got, 'keys'):
    out.violate('result/not_a_mapping', '%s -> %r' % (site, got))
    return
  missing = sorted(k for k in want if k not in got)
  extra = sorted(k for k in got if k not in want)
  if missing or extra:
    ungrouped = [k for k in extra if any(
        isinstance(want.get(b), list) and k.startswith(b + '[')
        for b in missing)]
    if ungrouped:
      out.violate('indexed/not_grouped', '%s params=%r got keys %r' % (
          site, params, sorted(got)))
    else:
      out.violate('keys/%s' % ('missing' if missing else 'extra'),
                  '%s params=%r missing=%r extra=%r got=%r' % (
                      site, params, missing, extra, got))
    return
  for k, w in want.items():
    g = got[k]
    if isinstance(w, list):
      if not isinstance(g, (list, tuple)):
        out.violate('indexed/not_a_list', '%s %r -> %r' % (site, k, g))
        continue
      if len(g) != len(w):
        out.violate('indexed/length', '%s %r want %r got %r' % (
            site, k, w, g))
        continue
      pairs = list(zip(w, g))
      if not all(gen.value_ok(et, ev, x) for (et, ev), x in pairs):
        same_multiset = sorted(map(repr, g)) == sorted(
            repr(_present(et, ev)) for et, ev in w)
        out.violate('indexed/order' if same_multiset else 'indexed/value',
                    '%s %r want (index order) %r got %r' % (site, k, w, g))
        continue
      for (et, ev), x in pairs:
        if not gen.type_ok(et, x):
          out.violate('type/indexed/%s' % et, '%s %r want %r got %r' % (
              site, k, w, g))
          break
    else:
      et, ev = w
      if not gen.value_ok(et, ev, g):
        out.violate('value/%s' % et, '%s %r stored %r read %r' % (
            site, k, ev, g))
      elif not gen.type_ok(et, g):
        out.violate('type/%s' % et, '%s %r stored %r read %r (%s)' % (
            site, k, ev, g, type(g).__name__))


def _shadowed_by_same_named_parent(spec, params, name):
  """Is `name` declared under a parent configuration P that is not active,
  while another, active configuration carries P's name and the trial's value
  for that name lies in the parent values `name` was declared under?"""
  from harness import c17_gen as gen
  active = gen.active_params(spec, params)
  for par, _ in gen.walk(spec):
    for ch in par.get('children', ()):
      if not any(q['name'] == name for q in ch['params']):
        continue
      act = active.get(par['name'])
      if (act is not None and act[0] is not par and par['name'] in params and
          gen.child_matches(par, params[par['name']], ch['parent_values'])):
        return True
  return False


def _present(et, ev):
  """Canonical presented python value for an expected (etype, value)."""
  if et == 'int':
    return int(ev)
  if et == 'float':
    return float(ev)
  if et == 'integral':
    return float(ev)
  return ev


def _lost_names(spec, cfg):
  """Names declared at depth >= 3 that the received configuration lacks."""
  from harness import c17_gen as gen
  have = set()

  def rec(pcs):
    for pc in pcs:
      have.add(pc.name)
      rec(pc.child_parameter_configs)
  rec(cfg.search_space.parameters)
  return {p['name'] for p, d in gen.walk(spec)
          if d >= 3 and p['name'] not in have}


def _trial_classes(out, case):
  from harness import c17_gen as gen
  for t in case['trials']:
    out.cls('trial_' + t['made'])
    params = dict(t['params'])
    if any(isinstance(v, bool) for v in params.values()):
      out.cls('bool_given_as_python_bool')
    if t['made'] == 'valid':
      act = gen.active_params(case['space'], params)
      dmax = max(act[n][1] for n in params)
      out.cls('valid_trial_active_depth%d' % dmax)
      if any(act[n][0]['kind'] == 'BOOL' and params[n] in ('False', False)
             for n in params):
        out.cls('bool_false_value')
    if t['made'] == 'inactive':
      exp = gen.expect(case['space'], params)
      declared_parent_present = False
      for n in exp[2]:
        for p, _ in gen.walk(case['space']):
          for ch in p.get('children', ()):
            if any(q['name'] == n for q in ch['params']) and (
                p['name'] in params):
              declared_parent_present = True
      out.cls('inactive_parent_present_other_value'
              if declared_parent_present else 'inactive_parent_absent')
  if case.get('wire_depth_capped'):
    out.cls('wire_depth3_avoided_known_defect')


def check_local(case):
  from harness import svc
  from vizier import pyvizier as vz
  from vizier.service import pyvizier as svz
  out = core.Out()
  spec = case['space']
  _space_classes(out, spec)
  _trial_classes(out, case)
  out.cls('mode_' + case['mode'], 'build_' + case.get('build', 'study_config'))
  cfg = _config(case)
  lost = ()
  if case['mode'] == 'proto_rt':
    proto = cfg.to_proto()
    if case.get('merge_conditions'):
      # the form other writers of the wire format produce: one conditional
      # spec per child listing ALL its matching parent values
      if _merge_conditional_specs(proto):
        out.cls('wire_multi_parent_value_condition')
    # another configuration object made from the same message is edited in
    # place first (a follow-up study derived from a materialised config): the
    # object used below is a different one and must not have changed with it
    decoy = svz.StudyConfig.from_proto(proto)
    decoy.search_space.root.add_float_param('zz_decoy', 0.0, 1.0)
    cfg = svz.StudyConfig.from_proto(proto)
    if any(pc.name == 'zz_decoy' for pc in cfg.search_space.parameters):
      out.violate('config/shared_with_another_object',
                  'a parameter added to one StudyConfig.from_proto(message) '
                  'result shows up in the next one')
    lost = _lost_names(spec, cfg)
  first_valid = None
  for i, t in enumerate(case['trials']):
    params = dict(t['params'])
    if first_valid is None and t.get('made') == 'valid' and (
        t.get('proto') == 'pytrial'):
      first_valid = dict(t['params'])
    if t.get('proto') == 'pytrial':
      proto = svz.TrialConverter.to_proto(
          vz.Trial(id=i + 1, parameters=dict(t['params'])))
    else:
      proto = svc.params_to_trial_proto(
          {k: (('True' if v else 'False') if isinstance(v, bool) else v)
           for k, v in t['params']})
      proto.id = str(i + 1)
      # a python bool has no raw wire form of its own: the hand-built message
      # carries the documented string form
      params = {k: (('True' if v else 'False') if isinstance(v, bool) else v)
                for k, v in params.items()}
    _judge(out, 'StudyConfig.trial_parameters[%s]' % case['mode'], spec,
           params, lambda: cfg.trial_parameters(proto), lost)
  if first_valid is not None and not out.violations and not lost:
    # the configuration object that has just been used for reading is edited
    # in place (one more root parameter) and used again: it reads trials of
    # the edited space
    try:
      cfg.search_space.root.add_discrete_param('zz_new', [1.0, 2.0])
    except Exception:  # pylint: disable=broad-except
      return out
    spec2 = {'params': list(spec['params']) + [
        {'name': 'zz_new', 'kind': 'DISCRETE', 'values': [1.0, 2.0],
         'scale': None, 'auto_cast': True}]}
    params2 = dict(first_valid, zz_new=2.0)
    proto2 = svz.TrialConverter.to_proto(
        vz.Trial(id=99, parameters=dict(params2)))
    out.cls('config_edited_in_place')
    _judge(out, 'StudyConfig.trial_parameters[%s, edited in place]' %
           case['mode'], spec2, params2,
           lambda: cfg.trial_parameters(proto2), lost)
  return out


def _merge_conditional_specs(study_spec):
  """Rewrites every parameter's conditional specs so that children with an
  identical spec under several parent values share one conditional spec whose
  condition lists all those values. Returns True if anything was merged."""
  merged_any = [False]

  def rec(pspec):
    groups = []  # (serialized child spec, condition field, conditional spec)
    for cs in pspec.conditional_parameter_specs:
      rec(cs.parameter_spec)
    for cs in list(pspec.conditional_parameter_specs):
      field = cs.WhichOneof('parent_value_condition')
      key = (cs.parameter_spec.SerializeToString(deterministic=True), field)
      for k, target in groups:
        if k == key:
          getattr(target, field).values.extend(getattr(cs, field).values)
          merged_any[0] = True
          break
      else:
        groups.append((key, cs))
    if merged_any[0]:
      kept = [type(cs)() for _, cs in groups]
      for new, (_, cs) in zip(kept, groups):
        new.CopyFrom(cs)
      del pspec.conditional_parameter_specs[:]
      pspec.conditional_parameter_specs.extend(kept)

  for p in study_spec.parameters:
    rec(p)
  return merged_any[0]


def check_service(case):
  from harness import svc
  from harness import c17_gen as gen
  from vizier import pyvizier as vz
  from vizier._src.service import clients, vizier_client
  vsp = svc.vsp
  out = core.Out()
  spec = case['space']
  conditional = _space_classes(out, spec)
  _trial_classes(out, case)
  out.cls(case['mode'], 'build_' + case.get('build', 'study_config'))
  holder = {}
  plan = svc.Plan(write_md=False, param_fn=lambda k: holder['params'])
  s = svc.make_servicer(case['mode'],
                        policy_factory=svc.HarnessPolicyFactory(plan))
  try:
    st_ = svc.create_study(s, 'o', 's', config=_config(case))
    client = vizier_client.VizierClient(st_.name, 'w', s)
    study = clients.Study(client)
    cfg = study.materialize_study_config()
    lost = _lost_names(spec, cfg)
    stored = {}
    for i, t in enumerate(case['trials']):
      params = dict(t['params'])
      via = t.get('via', 'request')
      exp = gen.expect(spec, params)
      if via == 'add_trial' and (conditional or exp[0] == 'error' or
                                 t['made'] != 'valid'):
        # Study.add_trial is documented as not implemented for conditional
        # spaces and validates membership first (C16's subject)
        via = 'request'
      if via == 'raw' and any(isinstance(v, bool) for v in params.values()):
        via = 'request'
      out.cls('via_' + via)
      if via == 'add_trial':
        ct = study.add_trial(vz.Trial(parameters=dict(t['params'])))
      elif via == 'request':
        ct = study.request(vz.TrialSuggestion(parameters=dict(t['params'])))
      elif via == 'raw':
        r = s.CreateTrial(vsp.CreateTrialRequest(
            parent=st_.name, trial=svc.params_to_trial_proto(params)))
        ct = study.get_trial(int(r.id))
      else:
        # The service first hands out trials queued by Study.request; those
        # are re-read (against what was stored for them) until the policy's
        # own suggestion arrives.
        holder['params'] = dict(t['params'])
        ct = None
        for attempt in range(len(case['trials']) + 1):
          got = study.suggest(count=1,
                              client_id='worker%d_%d' % (i, attempt))
          if len(got) != 1:
            raise RuntimeError('suggest delivered %d trials' % len(got))
          if got[0].id not in stored:
            ct = got[0]
            break
          out.cls('suggest_served_requested_trial')
          _judge(out, 'Study.suggest item .parameters[%s,requested]' % (
              case['mode']), spec, stored[got[0].id],
                 lambda: got[0].parameters, lost)
        if ct is None:
          raise RuntimeError('policy suggestion never delivered')
      stored[ct.id] = params
      site = 'clients.Trial.parameters[%s,%s]' % (case['mode'], via)
      _judge(out, site, spec, params, lambda: ct.parameters, lost)
      proto = s.GetTrial(vsp.GetTrialRequest(
          name='%s/trials/%d' % (st_.name, ct.id)))
      _judge(out, 'materialize_study_config().trial_parameters[%s,%s]' % (
          case['mode'], via), spec, params,
             lambda: cfg.trial_parameters(proto), lost)
    seen = set()
    for ct in study.trials():
      seen.add(ct.id)
      if ct.id in stored:
        _judge(out, 'Study.trials() item .parameters[%s]' % case['mode'],
               spec, stored[ct.id], lambda: ct.parameters, lost)
    if seen != set(stored):
      out.violate('service/trial_set', 'stored %r listed %r' % (
          sorted(stored), sorted(seen)))
  finally:
    svc.close_servicer(s)
  return out


_COMMON_REQUIRED = (
    'kind_BOOL', 'kind_DISCRETE', 'kind_INTEGER', 'kind_DOUBLE',
    'kind_CATEGORICAL', 'discrete_presented_as_int',
    'discrete_presented_as_float', 'discrete_integral_floats_autocast_off',
    'discrete_mixed_autocast_on', 'discrete_ints_autocast_default',
    'bool_false_value', 'indexed_gap', 'indexed_lex_order_differs',
    'indexed_declared_unsorted', 'conditional', 'depth2', 'parent_BOOL',
    'parent_INTEGER', 'parent_DISCRETE', 'parent_CATEGORICAL',
    'multi_parent_values', 'shared_child_name', 'hostile_name',
    'trial_valid', 'trial_extra', 'trial_inactive', 'trial_missing_indexed',
    'inactive_parent_present_other_value',
    'valid_trial_active_depth2', 'multi_external_types',
    'build_from_problem', 'build_study_config')


def families(tier):
  return [
      core.Family('local', check_local, strategy=local_strategy,
                  budget={'quick': 1200, 'thorough': 30000},
                  shards={'quick': 8, 'thorough': 16},
                  required_classes=_COMMON_REQUIRED + (
                      'mode_direct', 'mode_proto_rt',
                      'wire_multi_parent_value_condition', 'depth3',
                      'inactive_parent_absent',
                      'valid_trial_active_depth3')),
      core.Family('service', check_service, strategy=service_strategy,
                  budget={'quick': 800, 'thorough': 20000},
                  shards={'quick': 8, 'thorough': 16},
                  required_classes=_COMMON_REQUIRED + (
                      'ram', 'sqlmem', 'via_add_trial', 'via_request',
                      'via_raw', 'via_suggest')),
  ]
