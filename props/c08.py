"""C08 Local, gRPC and split-Pythia deployments behave identically for clients.

Family `programs`: Hypothesis-generated client programs (clients.Study /
clients.Trial method calls incl. every error path) executed against
  L  the implicit in-process servicer (environment_variables.server_endpoint
     unset, exactly as a user gets it),
  G  a DefaultVizierServer (real gRPC over loopback),
  D  a DistributedPythiaVizierServer (algorithms behind a second gRPC hop),
each with the RAM and the in-memory SQL datastore. Oracle: (1) differential
across the deployments of the observable trace (return values, exception
class / gRPC status, stored trials afterwards), (2) exceptions promised by
client_abc checked in every deployment on their own.
"""
from harness import core

ID = 'C08'
LEVEL = 'exploration'
RULE = ('Hypothesis lists of 4..30 client-API calls on one study (stock '
        'GRID_SEARCH algorithm so that no injection is needed) replayed on 3 '
        'deployments x 2 datastores with a fresh owner per case; non-trivial '
        '= the program contains a call that fails in at least one deployment '
        'AND a mutation attempted on a completed trial or inactive study. '
        'distinct = SHA-1 of the case JSON.')
ASSUMPTIONS = [
    'servers are started once per worker process and shared by the cases of '
    'that worker (fresh owner per case isolates them)',
    'trial timestamps are blanked; error messages are not compared, only the '
    'client-visible exception class and gRPC status code',
]

_STATE = {}
_COUNTER = [0]


def strategy():
  from hypothesis import strategies as st
  tid = st.sampled_from([1, 1, 1, 2, 2, 2, 3, 4, 7])
  val = st.sampled_from([0.5, 1.0, 2.0])
  worker = st.sampled_from(['w1', 'w2'])
  table = [
      (5, st.tuples(st.just('suggest'), st.integers(1, 3), worker)),
      (4, st.tuples(st.just('complete'), tid, st.sampled_from(
          ['measurement', 'measurement', 'infeasible', 'none',
           'infeasible_empty_reason']), val)),
      (2, st.tuples(st.just('add_measurement'), tid, val)),
      (1, st.tuples(st.just('stop'), tid)),
      (1, st.tuples(st.just('early_stop'), tid)),
      (1, st.tuples(st.just('delete_trial'), tid)),
      # through a handle obtained earlier (the trial may be gone by now)
      (1, st.tuples(st.just('delete_trial_stale_handle'), tid)),
      (2, st.tuples(st.just('get_trial'), tid)),
      (1, st.tuples(st.just('trial_params'), tid)),
      (1, st.tuples(st.just('trial_md'), tid, st.sampled_from(['k', 'j']),
                    st.sampled_from(['v', '']))),
      (1, st.tuples(st.just('study_md'), st.sampled_from(['k', 'j']),
                    st.sampled_from(['v', 'w']))),
      (2, st.tuples(st.just('add_trial'), st.sampled_from(
          ['in', 'in_completed', 'out_of_space', 'missing_param']),
                    st.integers(0, 5))),
      (1, st.tuples(st.just('request'), st.integers(0, 5))),
      (1, st.tuples(st.just('optimal'))),
      (2, st.tuples(st.just('set_state'), st.sampled_from(
          ['ACTIVE', 'ABORTED', 'COMPLETED', 'ACTIVE']))),
      (1, st.tuples(st.just('get_state'))),
      (1, st.tuples(st.just('from_resource_name'), st.sampled_from(
          ['existing', 'missing']))),
      (1, st.tuples(st.just('from_owner_and_id'), st.sampled_from(
          ['existing', 'missing']))),
      (1, st.tuples(st.just('delete_study'))),
      (1, st.tuples(st.just('reload'))),
  ]
  weighted = [i for i, (k, _) in enumerate(table) for _ in range(k)]
  op = st.sampled_from(weighted).flatmap(lambda i: table[i][1]).map(list)
  prefix = st.sampled_from([
      [], [['suggest', 2, 'w1']],
      [['suggest', 2, 'w1'], ['complete', 1, 'measurement', 1.0]],
      [['suggest', 3, 'w1'], ['complete', 1, 'measurement', 1.0],
       ['complete', 2, 'infeasible', 1.0]],
  ])
  return st.fixed_dictionaries({
      'config': st.sampled_from(['small'] * 6 + ['big', 'big', 'unregistered',
                                                 'custom', 'custom']),
      # rarely: the algorithm needs more than 10 s for a suggestion (programs
      # of this kind are cut to few calls, they cost a minute each)
      # (the draw is bit-mixed: Hypothesis favours boundary integers)
      'slow': st.integers(0, 2 ** 32 - 1).map(
          lambda x: (((x + 12345) * 2654435761 % 2 ** 32) >> 8) % 100 < 1),
      'ops': st.tuples(prefix, st.lists(op, min_size=4, max_size=30)).map(
          lambda t: t[0] + t[1])})


# ------------------------------------------------------------- deployments
def _factory():
  """The service's documented extension hook: a pythia.PolicyFactory that
  knows one algorithm name more than the stock factory (served by the stock
  grid search) and defers to the stock factory otherwise. Every deployment is
  configured with it."""
  from vizier import pythia
  from vizier._src.service import policy_factory as pf

  class Factory(pythia.PolicyFactory):

    def __init__(self):
      self._stock = pf.DefaultPolicyFactory()

    def __call__(self, problem_statement, algorithm, policy_supporter,
                 study_name):
      if algorithm == 'C08_CUSTOM':
        algorithm = 'GRID_SEARCH'
      if algorithm == 'C08_SLOW':
        # an algorithm that computes for a while (a GP fit takes longer)
        import time
        time.sleep(10.5)
        algorithm = 'GRID_SEARCH'
      return self._stock(problem_statement, algorithm, policy_supporter,
                         study_name)
  return Factory()


def _setup():
  """Starts the four gRPC servers of this worker process (once)."""
  if _STATE:
    return _STATE
  import datetime
  from vizier._src.service import vizier_server
  recycle = datetime.timedelta(days=1)
  for dep, cls in (('G', vizier_server.DefaultVizierServer),
                   ('D', vizier_server.DistributedPythiaVizierServer)):
    for backend, url in (('ram', None), ('sql', 'sqlite:///:memory:')):
      _STATE[(dep, backend)] = _start_server(
          lambda cls=cls, url=url: cls(database_url=url,
                                       early_stop_recycle_period=recycle,
                                       policy_factory=_factory()))
  return _STATE


def _start_server(make, attempts=6):
  """Starts a server and proves that its ports really are its own.

  The server classes pick "unused" ports with portpicker; when many worker
  processes start servers at the same moment two of them can be given the
  same port, and a Vizier server then talks to somebody else's port
  ("UNIMPLEMENTED: Method not found"). That is a property of this harness
  (16 processes x 4 servers), not of the code under test: a server that cannot
  answer a trivial suggestion is discarded and started again on new ports."""
  import os
  from vizier._src.service import clients
  last = None
  for k in range(attempts):
    try:
      srv = make()
    except Exception as e:  # pylint: disable=broad-except
      last = repr(e)[:300]
      continue
    try:
      env = clients.environment_variables
      old = env.server_endpoint
      env.server_endpoint = srv.endpoint
      try:
        st_ = clients.Study.from_study_config(
            _config('custom'), owner='probe-%d-%d' % (os.getpid(), k),
            study_id='probe')
        got = st_.suggest(count=1, client_id='probe')
        if len(got) == 1:
          return srv
        last = 'probe suggestion returned %d trials' % len(got)
      finally:
        env.server_endpoint = old
    except Exception as e:  # pylint: disable=broad-except
      last = repr(e)[:300]
    try:
      srv._server.stop(0)  # pylint: disable=protected-access
      if hasattr(srv, '_pythia_server'):
        srv._pythia_server.stop(0)  # pylint: disable=protected-access
    except Exception:  # pylint: disable=broad-except
      pass
  raise RuntimeError('harness: could not start a working server: %s' % last)


def _select(dep, backend):
  """Points the client library at one deployment, as a user would."""
  from vizier._src.service import clients, vizier_client, constants
  env = clients.environment_variables
  if dep == 'L':
    env.server_endpoint = constants.NO_ENDPOINT
    key = ('L', backend)
    if _STATE.get('local_key') != key:
      vizier_client._create_local_vizier_servicer.cache_clear()  # pylint: disable=protected-access
      env.servicer_kwargs = {
          'database_url': None if backend == 'ram' else 'sqlite:///:memory:',
          'early_stop_recycle_period': __import__('datetime').timedelta(
              days=1)}
      _STATE['local_key'] = key
      from vizier._src.service import pythia_service
      local = vizier_client._create_local_vizier_servicer()  # pylint: disable=protected-access
      local.default_pythia_service = pythia_service.PythiaServicer(
          local, policy_factory=_factory())
  else:
    env.server_endpoint = _STATE[(dep, backend)].endpoint
  env.new_suggestion_polling_secs = 0.0


def _config(variant='small'):
  """small: 2 parameters, GRID_SEARCH. big: the same grid plus 300 single-value
  parameters (a large StudySpec: large messages, large error details).
  unregistered: an algorithm name the policy factory does not know.
  custom: an algorithm name only the configured custom policy factory knows."""
  from vizier.service import pyvizier as vz
  sc = vz.StudyConfig(
      algorithm={'unregistered': 'NO_SUCH_ALGORITHM', 'custom': 'C08_CUSTOM',
                 'slow': 'C08_SLOW'}.get(variant, 'GRID_SEARCH'))
  sc.search_space.root.add_int_param('i', 0, 3)
  sc.search_space.root.add_categorical_param('c', ['a', 'b'])
  if variant == 'big':
    for k in range(300):
      sc.search_space.root.add_categorical_param(
          'fixed_parameter_with_a_long_name_%03d' % k, ['only_value'])
  sc.metric_information.append(vz.MetricInformation(
      'm', goal=vz.ObjectiveMetricGoal.MAXIMIZE))
  return sc


def _exc_class(e):
  import grpc
  from vizier._src.service import clients
  if isinstance(e, clients.ResourceNotFoundError):
    return 'ResourceNotFoundError'
  if isinstance(e, grpc.RpcError):
    try:
      code = e.code().name
    except Exception:  # pylint: disable=broad-except
      code = '?'
    # the in-process service raises NotFoundError (a KeyError) where a server
    # answers NOT_FOUND: one documented error class, two carriers
    return 'NOT_FOUND' if code == 'NOT_FOUND' else 'RpcError:' + code
  if isinstance(e, KeyError):
    return 'NOT_FOUND'
  for cls in (ValueError, RuntimeError, NotImplementedError,
              TypeError, AttributeError):
    if isinstance(e, cls):
      return cls.__name__
  return type(e).__name__


def _trial_obs(t):
  """vz.Trial -> comparable dict (timestamps dropped)."""
  return {
      'id': t.id, 'status': t.status.name,
      'params': sorted((k, repr(v.value)) for k, v in t.parameters.items()),
      'final': None if t.final_measurement is None else sorted(
          (k, m.value) for k, m in t.final_measurement.metrics.items()),
      'n_meas': len(t.measurements),
      'infeasible': t.infeasible, 'reason': t.infeasibility_reason,
      'assigned': t.assigned_worker,
      'md': sorted((tuple(ns), k, str(v))
                   for ns, k, v in t.metadata.all_items()),
  }


def _run_program(dep, backend, ops, owner, variant='small'):
  """Executes the program; returns list of observations."""
  from vizier._src.service import clients
  from vizier.service import pyvizier as vz
  _select(dep, backend)
  trace = []
  sid = 's'
  # the "load, else create" idiom: the study does not exist yet in this
  # deployment (whatever the same process did against other deployments)
  try:
    obs = ['ok', clients.Study.from_resource_name(
        'owners/%s/studies/%s' % (owner, sid)).resource_name]
  except Exception as e:  # pylint: disable=broad-except
    obs = ['exc', _exc_class(e)]
  trace.append({'op': ['load_before_create'], 'obs': obs, 'trials': 'n/a',
                'msg': ''})
  study = clients.Study.from_study_config(_config(variant), owner=owner,
                                          study_id=sid)
  name = study.resource_name

  handles = {}

  def snap():
    try:
      return [_trial_obs(t) for t in study.trials().get()]
    except Exception as e:  # pylint: disable=broad-except
      return 'ERR:' + _exc_class(e)

  for op in ops:
    kind = op[0]
    msg = ''
    try:
      if kind == 'suggest':
        got_ = list(study.suggest(count=op[1], client_id=op[2]))
        for h_ in got_:
          handles[h_.id] = h_
        r = [t.id for t in got_]
      elif kind == 'complete':
        tr = study.get_trial(op[1])
        if op[2] == 'measurement':
          m = tr.complete(vz.Measurement({'m': op[3]}))
        elif op[2] == 'infeasible':
          m = tr.complete(infeasible_reason='bad')
        elif op[2] == 'infeasible_empty_reason':
          # a reason was given (it is not None), if an empty one
          m = tr.complete(infeasible_reason='')
        else:
          m = tr.complete()
        r = None if m is None else sorted(
            (k, v.value) for k, v in m.metrics.items())
      elif kind == 'add_measurement':
        study.get_trial(op[1]).add_measurement(
            vz.Measurement({'m': op[2]}, steps=1))
        r = None
      elif kind == 'stop':
        r = study.get_trial(op[1]).stop()
      elif kind == 'early_stop':
        study.get_trial(op[1]).check_early_stopping()
        r = None  # advisory boolean
      elif kind == 'delete_trial':
        r = study.get_trial(op[1]).delete()
      elif kind == 'delete_trial_stale_handle':
        h_ = handles.get(op[1])
        r = None if h_ is None else h_.delete()
      elif kind == 'get_trial':
        r = _trial_obs(study.get_trial(op[1]).materialize())
      elif kind == 'trial_params':
        r = sorted((k, repr(v)) for k, v in study.get_trial(
            op[1]).parameters.items())
      elif kind == 'trial_md':
        md = vz.Metadata()
        md.ns('user')[op[2]] = op[3]
        r = study.get_trial(op[1]).update_metadata(md)
      elif kind == 'study_md':
        md = vz.Metadata()
        md.ns('user')[op[1]] = op[2]
        study.update_metadata(md)
        r = sorted((tuple(ns), k, str(v)) for ns, k, v in
                   study.materialize_study_config().metadata.ns(
                       'user').all_items())
      elif kind == 'add_trial':
        params = {'i': op[2] % 4, 'c': 'ab'[op[2] % 2]}
        if variant == 'big':
          params.update({'fixed_parameter_with_a_long_name_%03d' % k:
                         'only_value' for k in range(300)})
        if op[1] == 'out_of_space':
          params['i'] = 17
        if op[1] == 'missing_param':
          del params['c']
        t = vz.Trial(parameters=params)
        if op[1] == 'in_completed':
          t.complete(vz.Measurement({'m': float(op[2])}))
        r = study.add_trial(t).id
      elif kind == 'request':
        rp = {'i': op[1] % 4, 'c': 'ab'[op[1] % 2]}
        if variant == 'big':
          rp.update({'fixed_parameter_with_a_long_name_%03d' % k:
                     'only_value' for k in range(300)})
        r = study.request(vz.TrialSuggestion(rp)).id
      elif kind == 'optimal':
        r = sorted(t.id for t in study.optimal_trials().get())
      elif kind == 'set_state':
        r = study.set_state(getattr(vz.StudyState, op[1]))
      elif kind == 'get_state':
        r = study.materialize_state().name
      elif kind == 'from_resource_name':
        nm = name if op[1] == 'existing' else name + 'x'
        r = clients.Study.from_resource_name(nm).resource_name
      elif kind == 'from_owner_and_id':
        r = clients.Study.from_owner_and_id(
            owner, sid if op[1] == 'existing' else 'nope').resource_name
      elif kind == 'delete_study':
        r = study.delete()
      elif kind == 'reload':
        study = clients.Study.from_study_config(_config(variant), owner=owner,
                                                study_id=sid)
        r = study.resource_name
      else:
        raise ValueError(op)
      obs = ['ok', r]
    except ValueError as e:
      if e.args and e.args[0] is op:
        raise
      obs = ['exc', _exc_class(e)]
      msg = str(e)[:300]
    except Exception as e:  # pylint: disable=broad-except
      obs = ['exc', _exc_class(e)]
      msg = str(e)[:300]
    trace.append({'op': op, 'obs': obs, 'trials': snap(), 'msg': msg})
  return trace


def check(case):
  """Runs the case; a mismatch is reported only if it reproduces on a second
  execution with a fresh owner (real sockets and thread pools are involved: a
  transient transport hiccup on a loaded machine must not become a
  violation; a deterministic difference reproduces)."""
  out = _check_once(case)
  if out.ok:
    return out
  again = _check_once(case)
  first = {v['bucket'] for v in out.violations}
  second = {v['bucket'] for v in again.violations}
  confirmed = first & second
  if not confirmed:
    again.violations = []
    again.inconclusive = True
    again.cls('transient_mismatch_not_reproduced')
    return again
  again.violations = [v for v in again.violations if v['bucket'] in confirmed]
  return again


def _check_once(case):
  from harness import svc  # noqa: F401  (bootstrap)
  import json
  out = core.Out()
  if case.get('slow'):
    ops_ = [o for o in case['ops'] if o[0] != 'suggest'][:3]
    case = dict(case, config='slow', ops=[['suggest', 1, 'w1']] + ops_)
    out.cls('slow_algorithm')
  _setup()
  _COUNTER[0] += 1
  import os
  owner = 'p%d-%d' % (os.getpid(), _COUNTER[0])
  runs = {}
  for dep in ('L', 'G', 'D'):
    for backend in ('ram', 'sql'):
      runs[(dep, backend)] = _run_program(dep, backend, case['ops'], owner,
                                          case.get('config', 'small'))
  ref_key = ('L', 'ram')
  ref = runs[ref_key]
  failing_call = False
  illegal_mutation = False
  for i, step in enumerate(ref):
    op = step['op']
    for key, tr in runs.items():
      o = tr[i]['obs']
      if o[0] == 'exc':
        failing_call = True
      # (2) promised exceptions, per deployment
      if op[0] == 'get_trial' or (op[0] in (
          'complete', 'add_measurement', 'stop', 'early_stop', 'delete_trial',
          'trial_params', 'trial_md')):
        prev_trials = tr[i - 1]['trials'] if i else []
        if prev_trials == 'n/a':
          prev_trials = []
        exists = isinstance(prev_trials, list) and any(
            t['id'] == op[1] for t in prev_trials)
        study_gone = isinstance(prev_trials, str)
        if not exists and not study_gone and o != [
            'exc', 'ResourceNotFoundError']:
          out.violate('promised/get_trial_missing_not_ResourceNotFoundError/'
                      '%s_%s' % key,
                      'step %d %r in %s/%s -> %r' % (i, op, key[0], key[1], o))
      if (op[0] == 'complete' and op[2].startswith('infeasible')
          and o[0] == 'ok' and isinstance(tr[i]['trials'], list)):
        # client_abc: "infeasible_reason: If set, ... trial is marked as
        # infeasible"
        now = [t for t in tr[i]['trials'] if t['id'] == op[1]]
        if now and not now[0]['infeasible']:
          out.violate('promised/complete_infeasible_not_infeasible/%s_%s' % key,
                      'step %d %r in %s/%s returned normally but trial %d is '
                      'stored as %s, infeasible=%s' % (
                          i, op, key[0], key[1], op[1], now[0]['status'],
                          now[0]['infeasible']))
      if op[0] == 'load_before_create' and o != [
          'exc', 'ResourceNotFoundError']:
        out.violate('promised/load_before_create/%s_%s' % key,
                    'loading the not-yet-created study in %s/%s -> %r' % (
                        key[0], key[1], o))
      if op[0] in ('from_resource_name', 'from_owner_and_id') and (
          op[1] == 'missing') and o != ['exc', 'ResourceNotFoundError']:
        out.violate('promised/%s_missing/%s_%s' % ((op[0],) + key),
                    'step %d -> %r' % (i, o))
      if op[0] == 'add_trial' and op[1] in ('out_of_space', 'missing_param'):
        if (tr[i - 1]['trials'] == 'n/a' or not isinstance(
            tr[i - 1]['trials'] if i else [], str)) and o != [
                'exc', 'ValueError']:
          out.violate('promised/add_trial_outside_space_not_ValueError/'
                      '%s_%s' % key, 'step %d %r -> %r' % (i, op, o))
      if key == ref_key:
        continue
      r = step['obs']
      if json.dumps(o, sort_keys=True, default=str) != json.dumps(
          r, sort_keys=True, default=str):
        what = 'exception_class' if 'exc' in (o[0], r[0]) else 'return_value'
        out.violate('%s/%s/L_ram_vs_%s_%s' % ((what, op[0]) + key),
                    'step %d op=%r: L/ram -> %r (%s); %s/%s -> %r (%s)' % (
                        i, op, r, step.get('msg', ''), key[0], key[1], o,
                        tr[i].get('msg', '')))
      if json.dumps(tr[i]['trials'], sort_keys=True, default=str) != (
          json.dumps(step['trials'], sort_keys=True, default=str)):
        out.violate('stored_state/after_%s/L_ram_vs_%s_%s' % ((op[0],) + key),
                    'step %d op=%r obs L=%r other=%r: stored trials differ: '
                    'L/ram=%s %s/%s=%s' % (
                        i, op, r, o, json.dumps(step['trials'])[:300],
                        key[0], key[1], json.dumps(tr[i]['trials'])[:300]))
    if not out.ok:
      break
    # non-triviality bookkeeping on the reference run
    if op[0] in ('complete', 'add_measurement', 'stop') and i:
      prev_trials = ref[i - 1]['trials']
      if isinstance(prev_trials, list):
        for t in prev_trials:
          if t['id'] == op[1] and t['status'] == 'COMPLETED':
            illegal_mutation = True
  for step in ref:
    if step['op'][0] == 'suggest' and step['obs'] == ['ok', []]:
      out.cls('suggest_returned_empty')
  out.nontrivial = failing_call and illegal_mutation
  out.cls('config_' + case.get('config', 'small'))
  if failing_call:
    out.cls('has_failing_call')
  if illegal_mutation:
    out.cls('mutation_of_completed_trial')
  kinds = {s['op'][0] for s in ref}
  for k in ('set_state', 'delete_study', 'add_trial', 'optimal',
            'early_stop'):
    if k in kinds:
      out.cls('has_' + k)
  return out



# ---------------------------------------------------------------------------
# several clients at once (different studies): every deployment must serve
# them all - the outcome (N trials per study, no error) does not depend on the
# schedule, so real threads are a sound driver here
# ---------------------------------------------------------------------------
def parallel_strategy():
  from hypothesis import strategies as st
  return st.fixed_dictionaries({
      'studies': st.integers(3, 4), 'rounds': st.integers(6, 12),
      'algorithm': st.sampled_from(['GRID_SEARCH', 'RANDOM_SEARCH',
                                    'QUASI_RANDOM_SEARCH'])})


def _parallel_once(case, dep, backend, tag):
  import threading
  from vizier._src.service import clients
  from vizier.service import pyvizier as vz
  _select(dep, backend)
  n = case['studies']
  errors = [[] for _ in range(n)]
  done = [0] * n
  barrier = threading.Barrier(n)

  foreign = []  # suggestions that do not belong to the study that asked

  def cfg(k):
    # every study has its own parameter names: a suggestion computed for
    # another study cannot pass for one of this study
    sc = vz.StudyConfig(algorithm=case['algorithm'])
    if case['algorithm'] != 'GRID_SEARCH':
      sc.search_space.root.add_float_param('x%d' % k, 0.0, 1.0)
    sc.search_space.root.add_int_param('i%d' % k, 0, 19 + k)
    sc.metric_information.append(vz.MetricInformation(
        'm', goal=vz.ObjectiveMetricGoal.MAXIMIZE))
    return sc
  studies = [clients.Study.from_study_config(
      cfg(k), owner='%s-%d' % (tag, k), study_id='s') for k in range(n)]
  seen_points = [[] for _ in range(n)]

  def worker(k):
    try:
      want = {'i%d' % k} | (set() if case['algorithm'] == 'GRID_SEARCH'
                            else {'x%d' % k})
      barrier.wait(timeout=60)
      for _ in range(case['rounds']):
        got = studies[k].suggest(count=1, client_id='w')
        if len(got) != 1:
          errors[k].append('suggest returned %d trials' % len(got))
          continue
        params = dict(got[0].parameters)
        if set(params) != want:
          foreign.append('study %d (parameters %s) was handed a trial with '
                         'parameters %s' % (k, sorted(want), sorted(params)))
        seen_points[k].append(params.get('i%d' % k))
        got[0].complete(vz.Measurement({'m': 1.0}))
        done[k] += 1
    except Exception as e:  # pylint: disable=broad-except
      errors[k].append('%s: %s' % (_exc_class(e), str(e)[:200]))
  threads = [threading.Thread(target=worker, args=(k,)) for k in range(n)]
  import sys
  old_switch = sys.getswitchinterval()
  sys.setswitchinterval(1e-5)  # make overlapping requests likely
  try:
    for t in threads:
      t.start()
    for t in threads:
      t.join(timeout=300)
  finally:
    sys.setswitchinterval(old_switch)
  hung = [k for k, t in enumerate(threads) if t.is_alive()]
  if case['algorithm'] == 'GRID_SEARCH' and not hung:
    # a sequential client of an exhaustive grid sees every point once, in
    # grid order, whatever other studies do at the same time
    for k in range(n):
      if seen_points[k] != list(range(len(seen_points[k]))):
        foreign.append('study %d: grid search handed out %r instead of the '
                       'first %d grid points in order' % (
                           k, seen_points[k], len(seen_points[k])))
  return errors, done, hung, foreign


def check_parallel(case):
  from harness import svc  # noqa: F401
  import os
  out = core.Out()
  _setup()
  _COUNTER[0] += 1
  for dep in ('L', 'G', 'D'):
    for backend in ('ram', 'sql'):
      for attempt in (0, 1):
        tag = 'q%d-%d-%s%s%d' % (os.getpid(), _COUNTER[0], dep, backend,
                                 attempt)
        errors, done, hung, foreign = _parallel_once(case, dep, backend, tag)
        if foreign:
          # not a transport hiccup: no retry needed to believe it
          out.violate('parallel_clients/wrong_study_suggestion/%s_%s' % (
              dep, backend), '%d clients on %s/%s: %s' % (
                  case['studies'], dep, backend, '; '.join(foreign[:3])))
        bad = any(errors) or hung or any(d != case['rounds'] for d in done)
        if not bad:
          break
      else:
        what = 'hung' if hung else 'error'
        out.violate('parallel_clients/%s/%s_%s' % (what, dep, backend),
                    '%d clients x %d rounds on %s/%s (twice): completed %r '
                    'errors %r hung %r' % (case['studies'], case['rounds'],
                                           dep, backend, done, errors, hung))
      if attempt == 1 and not bad:
        out.cls('transient_failure_not_reproduced')
  out.cls('parallel_' + case['algorithm'])
  out.nontrivial = True
  return out


def families(tier):
  return [
      core.Family('programs', check, strategy=strategy,
                  budget={'quick': 240, 'thorough': 6000},
                  shards={'quick': 16, 'thorough': 16},
                  required_classes=('has_failing_call',
                                    'mutation_of_completed_trial',
                                    'has_set_state', 'has_add_trial',
                                    'config_big', 'config_unregistered',
                                    'config_custom',
                                    'suggest_returned_empty')),
      # one program per run whose algorithm needs more than 10 s for a
      # suggestion (a minute of wall time; rare in `programs` for that reason)
      core.Family('slow_algorithm', check, enumerate=lambda tier: [
          {'config': 'small', 'slow': True,
           'ops': [['get_trial', 1], ['complete', 1, 'measurement', 1.0],
                   ['optimal']]}][:1 if tier == 'quick' else 1],
                  shards={'quick': 1, 'thorough': 1},
                  required_classes=('slow_algorithm',)),
      core.Family('parallel_clients', check_parallel,
                  strategy=parallel_strategy,
                  budget={'quick': 8, 'thorough': 64},
                  shards={'quick': 4, 'thorough': 16},
                  max_shrink_s={'quick': 0, 'thorough': 60}),
  ]
