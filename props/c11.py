"""C11 Optimal trials are exactly the non-dominated completed trials.

Families
  enum_small  exhaustive: every ORDERED point list with n <= 4 points in d <= 2
              dimensions over the grid {0,1,2} (7 502 lists, batched 64 per
              case); every numpy routine and every JAX routine is compared with
              the brute-force definition (harness/c11_ref.py).
  pure_np     Hypothesis point sets (n 0..40, d 1..4, tie-heavy value pools,
              duplicates, +-inf, -0.0) against NaiveParetoOptimalAlgorithm,
              FastParetoOptimalAlgorithm(recursive_threshold in 1,2,3,5,10^4)
              {is_pareto_optimal, is_pareto_optimal_against(strict T/F),
              update_pareto_optimal} and nsga2._pareto_rank.
  pure_jax    same generator with float32-exact values and bucketed sizes
              against xla_pareto.is_frontier / get_frontier (num_shards in
              1,2,3,10,50), pareto_rank, JaxParetoOptimalAlgorithm and
              FastParetoOptimalAlgorithm(base=Jax).
  service     served studies (RAM / SQL) with 1-3 objective metrics of mixed
              goals and an optional safety metric; histories built through
              clients.* (direct completed trials, suggest+complete, completion
              from the last intermediate measurement, stop, infeasible with and
              without a measurement, REQUESTED, ACTIVE, deletions; metrics
              missing, extra, NaN, +-inf, -0.0); after every step
              clients.Study.optimal_trials() is compared with the definition
              applied to what ListTrials reports.
  inram       InRamPolicySupporter.GetBestTrials(count in None,1,2,n,n+1) with
              safety warping, float32-exact values.
"""
import itertools
import math

from hypothesis import strategies as st

from harness import c11_ref as ref
from harness import core

ID = 'C11'
LEVEL = 'exploration'
RULE = (
    'enum_small: exhaustive itertools.product of ordered point lists n<=4, '
    'd<=2 over grid {0,1,2}. pure_np / pure_jax: Hypothesis; a value pool '
    '(grid of 2-4 values, optionally -0.0, +-inf and a few continuous values) '
    'is drawn first and every coordinate is an index into it, rows are then '
    'duplicated; size n is drawn from buckets; half of the sets have a '
    'pairwise-distinct first coordinate while the divide-and-conquer tie '
    'defect is a known finding (class col0_distinct). service / inram: '
    'generated trial plans, eligibility (SUCCEEDED, every configured metric, '
    'no NaN objective) is applied by the oracle before the brute-force '
    'definition. non-trivial = the (eligible) point multiset has a tie in a '
    'single coordinate between an optimal and a non-optimal point, or a '
    'duplicated optimal point. distinct = SHA-1 of the canonical JSON case.')
ASSUMPTIONS = [
    'the reference definition is harness/c11_ref.py: q dominates p iff q>=p '
    'everywhere and q>p somewhere, evaluated with Python floats; '
    'is_pareto_optimal_against(strict) follows the base-class docstring',
    'FastParetoOptimalAlgorithm(recursive_threshold=0) recurses forever on any '
    'non-empty input (no base case is reachable); recursive_threshold >= 1 is '
    'taken as an implicit precondition, num_shards >= 1 likewise',
    'a 0-d boolean returned for a single point (FastParetoOptimalAlgorithm.'
    'is_pareto_optimal_against 1-D shortcut uses squeeze()) is accepted as a '
    'length-1 answer',
    'JAX runs without x64: JAX routines (and GetBestTrials, which documents '
    'float32) get float32-exact, non-subnormal values',
    'service: the eligibility and the vectors are taken from what the raw '
    'ListTrials RPC reports (state, final_measurement) after every step; a '
    'safety metric is one more configured metric with a configured goal, as '
    'the statement reads literally (no NaN safety values are generated)',
    'inram: SafetyChecker docstrings define "unsafe" (MAXIMIZE: value < '
    'threshold, MINIMIZE: value > threshold) and the warping to the worst '
    'value of every objective; eligible trials always report the safety '
    'metric; for count=k the docstring of GetBestTrials is the contract '
    '(single objective: top-k values, ties arbitrary; multi objective: '
    'min(k,|front|) distinct members of the front); order is not checked',
]

# Known findings on the unchanged tree (see known_findings.d/C11.jsonl).  While
# a flag is True the generator lowers the share of inputs that trigger the
# finding so that the remaining search is not blind behind it.
KNOWN_FAST_TIES = False        # pinned/C11/fast_col0_ties.json
KNOWN_JAX_ONE_SHARD = False    # pinned/C11/jax_one_shard.json
KNOWN_INRAM_INELIGIBLE = False  # pinned/C11/inram_*.json

THRESHOLDS = (1, 2, 3, 5, 10000)
SHARDS = (1, 2, 3, 10, 50)
INF = float('inf')
NAN = float('nan')


# ---------------------------------------------------------------------------
# comparison helpers
# ---------------------------------------------------------------------------
def _rows(pts):
  return '[' + ','.join('[' + ','.join('%r' % v for v in p) + ']'
                        for p in pts) + ']'


def _arr(np, pts, d):
  if not pts:
    return np.zeros((0, d), dtype=np.float64)
  return np.asarray(pts, dtype=np.float64).reshape(len(pts), d)


def _same0(a, b):
  return a == b


def _has_col0_tied_dominator(pts, i):
  p = pts[i]
  return any(ref.dominates(q, p) and q[0] == p[0] for q in pts)


def _call(out, routine, fn, info):
  """Runs a vizier routine; an exception is a disagreement."""
  try:
    return True, fn()
  except RecursionError as e:
    out.violate('%s/exception:RecursionError' % routine, '%s %s' % (info, e))
  except Exception as e:  # pylint: disable=broad-except
    out.violate('%s/exception:%s' % (routine, type(e).__name__),
                '%s %s: %s' % (info, type(e).__name__, str(e)[:300]))
  return False, None


def _cmp_mask(out, np, routine, got, want, info, pts=None, col0_split=False):
  """Compares a boolean answer with the reference mask (both directions)."""
  g = np.asarray(got)
  if g.size != len(want) or g.ndim > 1 and g.shape[0] != len(want):
    out.violate('%s/shape' % routine, '%s got shape %r want %d' % (
        info, g.shape, len(want)))
    return
  if g.ndim == 0 and len(want) == 1:
    out.cls('zero_dim_answer')
  g = [bool(x) for x in g.reshape(-1)]
  extra = [i for i, (a, b) in enumerate(zip(g, want)) if a and not b]
  missing = [i for i, (a, b) in enumerate(zip(g, want)) if b and not a]
  if extra:
    if col0_split and pts is not None:
      tied = [i for i in extra if _has_col0_tied_dominator(pts, i)]
      other = [i for i in extra if i not in tied]
      if tied:
        out.violate('%s/extra_dominated.col0_tied_dominator' % routine,
                    '%s wrongly optimal idx=%r' % (info, tied[:6]))
      if other:
        out.violate('%s/extra_dominated.other' % routine,
                    '%s wrongly optimal idx=%r' % (info, other[:6]))
    else:
      out.violate('%s/extra_dominated' % routine,
                  '%s wrongly optimal idx=%r' % (info, extra[:6]))
  if missing:
    out.violate('%s/missing_optimal' % routine,
                '%s wrongly dominated idx=%r' % (info, missing[:6]))


def _cmp_idx(out, np, routine, got, want_mask, info, pts):
  g = np.asarray(got)
  if g.ndim != 1:
    out.violate('%s/shape' % routine, '%s got shape %r' % (info, g.shape))
    return
  got_idx = [int(x) for x in g]
  want = [i for i, w in enumerate(want_mask) if w]
  if len(set(got_idx)) != len(got_idx):
    out.violate('%s/duplicate_index' % routine, '%s got=%r' % (info, got_idx))
  extra = sorted(set(got_idx) - set(want))
  missing = sorted(set(want) - set(got_idx))
  if extra:
    bad = [i for i in extra if 0 <= i < len(pts)]
    if len(bad) != len(extra):
      out.violate('%s/index_out_of_range' % routine, '%s got=%r' % (
          info, got_idx))
    tied = [i for i in bad if _has_col0_tied_dominator(pts, i)]
    other = [i for i in bad if i not in tied]
    if tied:
      out.violate('%s/extra_dominated.col0_tied_dominator' % routine,
                  '%s wrongly optimal idx=%r' % (info, tied[:6]))
    if other:
      out.violate('%s/extra_dominated.other' % routine,
                  '%s wrongly optimal idx=%r' % (info, other[:6]))
  if missing:
    out.violate('%s/missing_optimal' % routine,
                '%s wrongly dominated idx=%r' % (info, missing[:6]))


def _cmp_rank(out, np, routine, got, want, info):
  g = np.asarray(got)
  if g.shape != (len(want),):
    out.violate('%s/shape' % routine, '%s got shape %r want (%d,)' % (
        info, g.shape, len(want)))
    return
  gl = [float(x) for x in g]
  bad = [i for i, (a, b) in enumerate(zip(gl, want)) if a != b]
  if bad:
    zero_flip = any((gl[i] == 0) != (want[i] == 0) for i in bad)
    out.violate('%s/%s' % (routine, 'rank_zero_differs' if zero_flip
                           else 'rank_count_differs'),
                '%s idx=%r got=%r want=%r' % (
                    info, bad[:6], [gl[i] for i in bad[:6]],
                    [want[i] for i in bad[:6]]))


# ---------------------------------------------------------------------------
# numpy routines
# ---------------------------------------------------------------------------
def _np_routines(out, pts, agn, d, thresholds=THRESHOLDS, tag=''):
  import numpy as np
  from vizier._src.algorithms.evolution import nsga2
  from vizier._src.pyvizier.multimetric import pareto_optimal as po
  P = _arr(np, pts, d)
  A = _arr(np, agn, d)
  want = ref.optimal_mask(pts)
  info = 'pts=%s' % _rows(pts)
  naive = po.NaiveParetoOptimalAlgorithm()

  ok, got = _call(out, 'naive.is_pareto_optimal',
                  lambda: naive.is_pareto_optimal(P.copy()), info)
  if ok:
    _cmp_mask(out, np, 'naive.is_pareto_optimal', got, want, info)
  ok, got = _call(out, 'nsga2._pareto_rank',
                  lambda: nsga2._pareto_rank(P.copy()), info)
  if ok:
    _cmp_rank(out, np, 'nsga2._pareto_rank', got, ref.rank(pts), info)

  for t in thresholds:
    fast = po.FastParetoOptimalAlgorithm(recursive_threshold=t)
    inf_t = 'threshold=%d %s' % (t, info)
    ok, got = _call(out, 'fast.is_pareto_optimal',
                    lambda: fast.is_pareto_optimal(P.copy()), inf_t)
    if ok:
      _cmp_mask(out, np, 'fast.is_pareto_optimal', got, want, inf_t, pts=pts,
                col0_split=True)

  # is_pareto_optimal_against: (pts vs agn) and (pts vs pts)
  for name, B, b in (('agn', A, agn), ('self', P, pts)):
    for strict in (True, False):
      w = ref.against_mask(pts, b, strict)
      inf_a = 'strict=%s points=%s against(%s)=%s' % (
          strict, _rows(pts), name, _rows(b))
      ok, got = _call(
          out, 'naive.is_pareto_optimal_against',
          lambda: naive.is_pareto_optimal_against(P.copy(), B.copy(),
                                                  strict=strict), inf_a)
      if ok:
        _cmp_mask(out, np, 'naive.is_pareto_optimal_against(strict=%s)'
                  % strict, got, w, inf_a)
      for t in thresholds:
        fast = po.FastParetoOptimalAlgorithm(recursive_threshold=t)
        inf_t = 'threshold=%d %s' % (t, inf_a)
        ok, got = _call(
            out, 'fast.is_pareto_optimal_against',
            lambda: fast.is_pareto_optimal_against(P.copy(), B.copy(),
                                                   strict=strict), inf_t)
        if ok:
          _cmp_mask(out, np, 'fast.is_pareto_optimal_against(strict=%s)'
                    % strict, got, w, inf_t)

  # update_pareto_optimal: `current` is a true frontier (of agn) by construction
  cur = [a for a, o in zip(agn, ref.optimal_mask(agn)) if o]
  both = cur + pts
  wu = ref.optimal_mask(both)
  C = _arr(np, cur, d)
  inf_u = 'current=%s incremental=%s' % (_rows(cur), _rows(pts))
  ok, got = _call(out, 'naive.update_pareto_optimal',
                  lambda: naive.update_pareto_optimal(C.copy(), P.copy()),
                  inf_u)
  if ok:
    _cmp_idx(out, np, 'naive.update_pareto_optimal', got, wu, inf_u, both)
  for t in thresholds[:3]:
    fast = po.FastParetoOptimalAlgorithm(recursive_threshold=t)
    ok, got = _call(out, 'fast.update_pareto_optimal',
                    lambda: fast.update_pareto_optimal(C.copy(), P.copy()),
                    'threshold=%d %s' % (t, inf_u))
    if ok:
      _cmp_idx(out, np, 'fast.update_pareto_optimal', got, wu,
               'threshold=%d %s' % (t, inf_u), both)


# ---------------------------------------------------------------------------
# JAX routines
# ---------------------------------------------------------------------------
def _jax_routines(out, pts, agn, d, shards, fast_thresholds,
                  get_frontier_shards=None):
  import numpy as np
  from vizier._src.jax import xla_pareto
  from vizier._src.pyvizier.multimetric import pareto_optimal as po
  P = _arr(np, pts, d)
  A = _arr(np, agn, d)
  want = ref.optimal_mask(pts)
  info = 'pts=%s' % _rows(pts)
  if get_frontier_shards is None:
    get_frontier_shards = tuple(shards[:1])
  for s in shards:
    r = 'jax.is_frontier(num_shards=1)' if s == 1 else 'jax.is_frontier'
    inf_s = 'num_shards=%d %s' % (s, info)
    ok, got = _call(out, r, lambda: xla_pareto.is_frontier(
        P.copy(), num_shards=s), inf_s)
    if ok:
      _cmp_mask(out, np, r, got, want, inf_s)
    if s not in get_frontier_shards:
      continue
    r = 'jax.get_frontier(num_shards=1)' if s == 1 else 'jax.get_frontier'
    ok, got = _call(out, r, lambda: xla_pareto.get_frontier(
        P.copy(), num_shards=s, verbose=False), inf_s)
    if ok:
      g = np.asarray(got)
      wrows = [p for p, w in zip(pts, want) if w]
      if g.ndim != 2 or g.shape[1] != d:
        out.violate(r + '/shape', '%s got shape %r' % (inf_s, g.shape))
      else:
        grows = [[float(v) for v in row] for row in g]
        if grows != wrows:
          gset = sorted(map(tuple, grows))
          wset = sorted(map(tuple, wrows))
          if gset == wset:
            kind = 'order'
          elif len(grows) > len(wrows):
            kind = 'extra_dominated'
          elif len(grows) < len(wrows):
            kind = 'missing_optimal'
          else:
            kind = 'rows_differ'
          out.violate('%s/%s' % (r, kind), '%s got=%s want=%s' % (
              inf_s, _rows(grows), _rows(wrows)))
  ok, got = _call(out, 'jax.pareto_rank',
                  lambda: xla_pareto.pareto_rank(P.copy()), info)
  if ok:
    _cmp_rank(out, np, 'jax.pareto_rank', got, ref.rank(pts), info)

  jalg = xla_pareto.JaxParetoOptimalAlgorithm()
  ok, got = _call(out, 'jaxalg.is_pareto_optimal',
                  lambda: jalg.is_pareto_optimal(P.copy()), info)
  if ok:
    _cmp_mask(out, np, 'jaxalg.is_pareto_optimal', got, want, info)
  for strict in (True, False):
    w = ref.against_mask(pts, agn, strict)
    inf_a = 'strict=%s points=%s against=%s' % (strict, _rows(pts), _rows(agn))
    ok, got = _call(out, 'jaxalg.is_pareto_optimal_against',
                    lambda: jalg.is_pareto_optimal_against(
                        P.copy(), A.copy(), strict=strict), inf_a)
    if ok:
      _cmp_mask(out, np, 'jaxalg.is_pareto_optimal_against(strict=%s)'
                % strict, got, w, inf_a)
    for t in fast_thresholds:
      fast = po.FastParetoOptimalAlgorithm(jalg, recursive_threshold=t)
      ok, got = _call(out, 'fastjax.is_pareto_optimal_against',
                      lambda: fast.is_pareto_optimal_against(
                          P.copy(), A.copy(), strict=strict),
                      'threshold=%d %s' % (t, inf_a))
      if ok:
        _cmp_mask(out, np, 'fastjax.is_pareto_optimal_against(strict=%s)'
                  % strict, got, w, 'threshold=%d %s' % (t, inf_a))
  for t in fast_thresholds:
    fast = po.FastParetoOptimalAlgorithm(jalg, recursive_threshold=t)
    inf_t = 'threshold=%d %s' % (t, info)
    ok, got = _call(out, 'fastjax.is_pareto_optimal',
                    lambda: fast.is_pareto_optimal(P.copy()), inf_t)
    if ok:
      _cmp_mask(out, np, 'fastjax.is_pareto_optimal', got, want, inf_t,
                pts=pts, col0_split=True)
  cur = [a for a, o in zip(agn, ref.optimal_mask(agn)) if o]
  both = cur + pts
  C = _arr(np, cur, d)
  inf_u = 'current=%s incremental=%s' % (_rows(cur), _rows(pts))
  ok, got = _call(out, 'jaxalg.update_pareto_optimal',
                  lambda: jalg.update_pareto_optimal(C.copy(), P.copy()), inf_u)
  if ok:
    _cmp_idx(out, np, 'jaxalg.update_pareto_optimal', got,
             ref.optimal_mask(both), inf_u, both)


# ---------------------------------------------------------------------------
# point-set strategies
# ---------------------------------------------------------------------------
N_BUCKETS = (0, 1, 2, 3, 4, 5, 6, 8, 10, 12, 16, 20, 24, 32, 40)
N_BUCKETS_JAX = (0, 1, 2, 3, 4, 6, 8, 12, 16, 24, 40)
M_BUCKETS = (0, 1, 2, 4, 8, 16, 24)


def _cont(width):
  return st.floats(min_value=-2.0 ** 100, max_value=2.0 ** 100, allow_nan=False,
                   allow_infinity=False, allow_subnormal=False, width=width)


@st.composite
def _value_pool(draw, width):
  style = draw(st.sampled_from(
      ['grid2', 'grid3', 'grid3', 'grid4', 'mixed', 'mixed', 'inf', 'cont']))
  if style == 'cont':
    k = draw(st.integers(6, 12))
    return style, draw(st.lists(_cont(width), min_size=k, max_size=k))
  g = {'grid2': 2, 'grid3': 3, 'grid4': 4}.get(style, 3)
  pool = [float(i) for i in range(g)]
  if style in ('mixed', 'inf'):
    pool += draw(st.lists(_cont(width), min_size=1, max_size=3))
    if draw(st.booleans()):
      pool.append(-0.0)
  if style == 'inf' or (style == 'mixed' and draw(st.booleans())):
    pool += [INF, -INF]
  return style, pool


@st.composite
def _point_case(draw, width, n_buckets, m_buckets, extra):
  d = draw(st.integers(1, 4))
  n = draw(st.sampled_from(n_buckets))
  m = draw(st.sampled_from(m_buckets))
  style, pool = draw(_value_pool(width))
  share = 0.5 if KNOWN_FAST_TIES else 0.15
  col0_distinct = n >= 2 and draw(st.floats(0, 1)) < share
  idx = st.integers(0, len(pool) - 1)
  row = st.lists(idx, min_size=d, max_size=d)
  ndup = 0
  if n >= 2 and not col0_distinct:
    ndup = draw(st.integers(0, min(3, n // 2)))
  base = draw(st.lists(row, min_size=n - ndup, max_size=n - ndup))
  pts = [[pool[i] for i in r] for r in base]
  for _ in range(ndup):
    src = draw(st.integers(0, len(pts) - 1))
    pos = draw(st.integers(0, len(pts)))
    pts.insert(pos, list(pts[src]))
  if col0_distinct:
    perm = draw(st.permutations(list(range(n))))
    scale = draw(st.sampled_from([1.0, 0.5, -1.0, 1024.0]))
    for p, k in zip(pts, perm):
      p[0] = float(k) * scale
  agn = [[pool[i] for i in r]
         for r in draw(st.lists(row, min_size=m, max_size=m))]
  if pts and agn:
    # copies of points in `against`: equal points are what `strict` is about
    for _ in range(draw(st.integers(0, min(3, len(agn))))):
      src = draw(st.integers(0, len(pts) - 1))
      agn[draw(st.integers(0, len(agn) - 1))] = list(pts[src])
  case = {'d': d, 'pts': pts, 'agn': agn, 'style': style,
          'col0': 'distinct' if col0_distinct else 'free'}
  case.update(draw(extra))
  return case


def np_strategy():
  return _point_case(64, N_BUCKETS, M_BUCKETS, st.just({}))


def jax_strategy():
  if KNOWN_JAX_ONE_SHARD:
    shards = st.sampled_from([[2, 10], [3, 50], [2, 3], [10], [1, 2], [3, 10],
                              [50, 2], [1, 10]])
  else:
    shards = st.sampled_from([[1, 10], [2, 3], [1, 50], [3, 10], [1, 2]])
  extra = st.fixed_dictionaries({
      'shards': shards,
      'fast_thresholds': st.sampled_from([[2], [3], [5], [1], []]),
  })
  return _point_case(32, N_BUCKETS_JAX, (0, 1, 3, 8, 16), extra)


def _point_classes(out, case):
  cl, s = ref.classes(case['pts'])
  out.cls(*cl)
  out.cls('style_' + case.get('style', '?'))
  if case.get('col0') == 'distinct':
    out.cls('col0_distinct(avoids_known_fast_ties)')
  if case['agn']:
    pts = case['pts']
    if any(any(all(a == b for a, b in zip(p, q)) for q in case['agn'])
           for p in pts):
      out.cls('against_has_equal_point')
  out.nontrivial = s['nontrivial']
  return s


def check_np(case):
  out = core.Out()
  _point_classes(out, case)
  _np_routines(out, case['pts'], case['agn'], case['d'])
  return out


def check_jax(case):
  out = core.Out()
  _point_classes(out, case)
  for s in case['shards']:
    out.cls('num_shards=%d' % s)
  if case['fast_thresholds']:
    out.cls('fast_with_jax_base')
  _jax_routines(out, case['pts'], case['agn'], case['d'], case['shards'],
                case['fast_thresholds'])
  return out


# ---------------------------------------------------------------------------
# exhaustive small sets
# ---------------------------------------------------------------------------
def enum_small(tier):
  cases = []
  for d in (1, 2):
    grid = [list(map(float, p)) for p in itertools.product(range(3), repeat=d)]
    batch = []
    for n in range(0, 5):
      for tup in itertools.product(grid, repeat=n):
        batch.append([list(p) for p in tup])
        if len(batch) == 64:
          cases.append({'d': d, 'sets': batch})
          batch = []
    if batch:
      cases.append({'d': d, 'sets': batch})
  return cases


def check_enum(case):
  out = core.Out()
  d = case['d']
  nt = False
  for pts in case['sets']:
    s = ref.structure(pts)
    nt = nt or s['nontrivial']
    n = len(pts)
    k = (n + 1) // 2
    agn = pts[k:] + pts[:1]
    _np_routines(out, pts, agn, d, thresholds=(1, 2, 3, 10000))
    _jax_routines(out, pts, agn, d, shards=(1, 2, 3, 10),
                  fast_thresholds=(2,), get_frontier_shards=(1, 3))
    if s['tie_opt_nonopt']:
      out.cls('tie_opt_nonopt')
    if s['dup_optimal']:
      out.cls('dup_optimal')
    if n == 0:
      out.cls('n=0')
  out.cls('d=%d' % d)
  out.nontrivial = nt
  return out


# ---------------------------------------------------------------------------
# shared: metric configs and measurements
# ---------------------------------------------------------------------------
OBJ_NAMES = ['m', 'k', 'j']


def _metric_value(width, nan_ok):
  vals = [0.0, 1.0, 2.0, 1.0, 2.0, 0.0, -0.0, 3.0, INF, -INF]
  if nan_ok:
    vals += [NAN, NAN]
  # nearly equal but distinct values (also in float32): a tie is equality, not
  # closeness
  near = [1234567.0, 1234568.0, 100.0, 100.0005, 5e-9, 0.0, -5e-9]
  return st.one_of(st.sampled_from(vals), st.sampled_from(vals), _cont(width),
                   st.sampled_from(near))


@st.composite
def _metric_config(draw, safety_share=4):
  n = draw(st.sampled_from([1, 1, 2, 2, 2, 3]))
  goals = draw(st.lists(st.sampled_from(['MAXIMIZE', 'MINIMIZE']),
                        min_size=n, max_size=n))
  cfg = {'objectives': [[OBJ_NAMES[i], goals[i]] for i in range(n)],
         'safety': None}
  if draw(st.integers(0, safety_share - 1)) == 0:
    cfg['safety'] = ['s', draw(st.sampled_from(['MAXIMIZE', 'MINIMIZE'])), 1.0]
  return cfg


@st.composite
def _measurement(draw, cfg, width, complete_share=9, nan_ok=True,
                 always_complete=False):
  """{'metric': value}; configured metrics present with prob 1-1/share."""
  m = {}
  for name, _ in cfg['objectives']:
    if always_complete or draw(st.integers(0, complete_share)) > 0:
      m[name] = draw(_metric_value(width, nan_ok and not always_complete))
  if cfg['safety']:
    if always_complete or draw(st.integers(0, complete_share)) > 0:
      m['s'] = draw(st.sampled_from([0.0, 1.0, 2.0, 1.0, INF, -INF, 0.5]))
  if draw(st.integers(0, 4)) == 0:
    m['zz'] = draw(_metric_value(width, True))
  return m


def _flip(goal, v):
  return -v if goal == 'MINIMIZE' else v


def _isnan(v):
  return isinstance(v, float) and math.isnan(v)


# ---------------------------------------------------------------------------
# service
# ---------------------------------------------------------------------------
PLAN_KINDS = ['add', 'add', 'add', 'complete', 'complete', 'complete_auto',
              'stop_complete', 'infeasible', 'infeasible_nomeas', 'active',
              'requested', 'stopping']


@st.composite
def service_strategy(draw):
  cfg = draw(_metric_config())
  n = draw(st.integers(1, 12))
  plans = []
  for _ in range(n):
    kind = draw(st.sampled_from(PLAN_KINDS))
    meas = draw(_measurement(cfg, 64))
    plans.append([kind, meas])
  ndel = draw(st.sampled_from([0, 0, 1, 2]))
  deletes = draw(st.lists(st.integers(0, 11), min_size=ndel, max_size=ndel))
  return {'backend': draw(st.sampled_from(['ram', 'sqlmem'])),
          'config': cfg, 'plans': plans, 'deletes': deletes,
          # the same server earlier hosted - and deleted - a study of the same
          # name whose metrics had the opposite goals
          'predecessor': draw(st.sampled_from([False, False, True]))}


def _service_expected(cfg, trials, TS):
  """trials: raw protos. -> (expected optimal ids, eligible vectors by id,
  {id: reason} for ineligible trials)."""
  required = [n for n, _ in cfg['objectives']]
  goals = dict((n, g) for n, g in cfg['objectives'])
  if cfg['safety']:
    required.append(cfg['safety'][0])
    goals[cfg['safety'][0]] = cfg['safety'][1]
  elig = {}
  why = {}
  for t in trials:
    tid = int(t.id)
    vals = {}
    for m in t.final_measurement.metrics:
      vals[m.metric_id] = m.value
    if t.state != TS.SUCCEEDED:
      why[tid] = 'state_' + TS.Name(t.state)
    elif any(r not in vals for r in required):
      why[tid] = 'missing_metric'
    elif any(_isnan(vals[r]) for r in required):
      why[tid] = 'nan_objective'
    else:
      elig[tid] = [_flip(goals[r], vals[r]) for r in required]
  ids = sorted(elig)
  mask = ref.optimal_mask([elig[i] for i in ids])
  return [i for i, o in zip(ids, mask) if o], elig, why, required, goals


def check_service(case):
  from harness import svc
  from vizier import pyvizier as vz
  from vizier._src.service import clients, vizier_client
  vsp = svc.vsp
  TS = svc.TS
  out = core.Out()
  cfg = case['config']
  s = svc.make_servicer(case['backend'], policy_factory=svc.HarnessPolicyFactory(
      svc.Plan(write_md=False)))
  try:
    sc = svc.std_config(algorithm='HARNESS', metrics=tuple(
        (n, g) for n, g in cfg['objectives']))
    if cfg['safety']:
      sn, sg, sth = cfg['safety']
      sc.metric_information.append(vz.MetricInformation(
          sn, goal=getattr(vz.ObjectiveMetricGoal, sg), safety_threshold=sth))
    if case.get('predecessor'):
      out.cls('predecessor_with_opposite_goals')
      flip = {'MAXIMIZE': 'MINIMIZE', 'MINIMIZE': 'MAXIMIZE'}
      old_sc = svc.std_config(algorithm='HARNESS', metrics=tuple(
          (n, flip[g]) for n, g in cfg['objectives']))
      old_st = svc.create_study(s, 'o', 's', config=old_sc)
      for v_ in (1.0, 2.0):
        t_ = svc.params_to_trial_proto(svc.det_params(90))
        t_.state = TS.SUCCEEDED
        for n_, _g in cfg['objectives']:
          t_.final_measurement.metrics.add(metric_id=n_, value=v_)
        s.CreateTrial(vsp.CreateTrialRequest(parent=old_st.name, trial=t_))
      s.ListOptimalTrials(vsp.ListOptimalTrialsRequest(parent=old_st.name))
      s.DeleteStudy(vsp.DeleteStudyRequest(name=old_st.name))
    st_ = svc.create_study(s, 'o', 's', config=sc)
    client = vizier_client.VizierClient(st_.name, 'w', s)
    study = clients.Study(client)
    nt = False
    seen_would_be_optimal = False

    def judge(step):
      nonlocal nt, seen_would_be_optimal
      raw = list(s.ListTrials(vsp.ListTrialsRequest(parent=st_.name)).trials)
      want, elig, why, required, goals = _service_expected(cfg, raw, TS)
      try:
        got_trials = list(study.optimal_trials().get())
        got = [t.id for t in got_trials]
      except Exception as e:  # pylint: disable=broad-except
        out.violate('service/exception:%s' % type(e).__name__,
                    'step %s: %s' % (step, str(e)[:300]))
        return False
      by_id = dict((int(t.id), t) for t in raw)
      for t in got_trials:
        if t.id in by_id:
          a = sorted((m.metric_id, repr(m.value))
                     for m in by_id[t.id].final_measurement.metrics)
          fm = t.final_measurement
          b = sorted((k, repr(v.value)) for k, v in fm.metrics.items()) \
              if fm is not None else None
          if a != b:
            out.violate('service/reported_trial_differs',
                        'step %s trial %d listed=%r reported=%r' % (
                            step, t.id, a, b))
      listed = set(int(t.id) for t in raw)
      if len(set(got)) != len(got):
        out.violate('service/duplicate_reported', 'step %s got=%r' % (step, got))
      extra = sorted(set(got) - set(want))
      missing = sorted(set(want) - set(got))
      desc = 'step %s backend=%s metrics=%r trials=%s got=%r want=%r' % (
          step, case['backend'], cfg, _trial_brief(raw, TS), got, want)
      for tid in extra:
        if tid not in listed:
          reason = 'reported_ineligible/not_listed'
        elif tid in why:
          reason = 'reported_ineligible/' + why[tid]
        else:
          reason = 'extra_dominated'
        out.violate('service/' + reason, 'trial %d; %s' % (tid, desc))
      if missing:
        # An optimal trial is missing: say whether an ineligible trial with a
        # full vector would dominate it (the likely cause), for the bucket.
        out.violate('service/missing_optimal', 'trials %r; %s' % (
            missing, desc))
      # classes
      vecs = [elig[i] for i in sorted(elig)]
      s_ = ref.structure(vecs) if vecs else None
      if s_ and s_['nontrivial']:
        nt = True
      if s_ and s_['tie_opt_nonopt']:
        out.cls('tie_opt_nonopt')
      if s_ and s_['dup_optimal']:
        out.cls('dup_optimal')
      for t in raw:
        tid = int(t.id)
        if tid in why:
          out.cls('ineligible:' + why[tid])
          vals = {m.metric_id: m.value for m in t.final_measurement.metrics}
          if all(r in vals and not _isnan(vals[r]) for r in required):
            v = [_flip(goals[r], vals[r]) for r in required]
            if not any(ref.dominates(q, v) for q in vecs):
              out.cls('ineligible_would_be_optimal')
              seen_would_be_optimal = True
        else:
          if any(m.metric_id not in required
                 for m in t.final_measurement.metrics):
            out.cls('eligible_with_extra_metric')
      return not (extra or missing)

    counter = [0]

    def new_active():
      counter[0] += 1
      ts = study.suggest(count=1, client_id='c%d' % counter[0])
      return ts[0]

    def meas_of(m):
      return vz.Measurement(dict(m))

    step = 0
    for kind, m in case['plans']:
      step += 1
      out.cls('plan:' + kind)
      if kind == 'add':
        if not m:
          m = {'zz': 0.0}
        study.add_trial(vz.Trial(parameters=svc.det_params(step),
                                 final_measurement=meas_of(m)))
      elif kind == 'requested':
        study.request(vz.TrialSuggestion(svc.det_params(step)))
      elif kind == 'active':
        new_active()
      elif kind == 'stopping':
        new_active().stop()
      elif kind == 'complete':
        t = new_active()
        if not m:
          m = {'zz': 0.0}
        t.complete(meas_of(m))
      elif kind == 'complete_auto':
        t = new_active()
        if not m:
          m = {'zz': 0.0}
        t.add_measurement(vz.Measurement({'zz': 5.0}, steps=1))
        t.add_measurement(vz.Measurement(dict(m), steps=2))
        t.complete()
      elif kind == 'stop_complete':
        t = new_active()
        t.stop()
        if not m:
          m = {'zz': 0.0}
        t.complete(meas_of(m))
      elif kind == 'infeasible':
        t = new_active()
        t.complete(meas_of(m) if m else None, infeasible_reason='harness')
      elif kind == 'infeasible_nomeas':
        new_active().complete(infeasible_reason='harness')
      else:
        raise ValueError(kind)
      judge('%d(%s)' % (step, kind))
    if True:
      for dref in case['deletes']:
        raw = list(s.ListTrials(vsp.ListTrialsRequest(parent=st_.name)).trials)
        if not raw:
          break
        want, _, _, _, _ = _service_expected(cfg, raw, TS)
        # prefer deleting a currently optimal trial (changes the front)
        pool = want if (want and dref % 2 == 0) else [int(t.id) for t in raw]
        tid = pool[dref % len(pool)]
        study.get_trial(tid).delete()
        out.cls('deleted_optimal' if tid in want else 'deleted_other')
        judge('delete(%d)' % tid)
    out.nontrivial = nt
    out.cls(case['backend'], 'objectives=%d' % len(cfg['objectives']))
    if cfg['safety']:
      out.cls('safety_metric')
    goals_ = set(g for _, g in cfg['objectives'])
    if len(goals_) == 2:
      out.cls('mixed_goals')
    if 'MINIMIZE' in goals_:
      out.cls('has_minimize')
  finally:
    svc.close_servicer(s)
  return out


def _trial_brief(raw, TS):
  return '[' + '; '.join('%s %s %s' % (
      t.id, TS.Name(t.state),
      {m.metric_id: m.value for m in t.final_measurement.metrics})
                         for t in raw) + ']'


# ---------------------------------------------------------------------------
# in-RAM supporter
# ---------------------------------------------------------------------------
@st.composite
def inram_strategy(draw):
  cfg = draw(_metric_config(safety_share=3))
  share = 0.75 if KNOWN_INRAM_INELIGIBLE else 0.3
  eligible_only = draw(st.floats(0, 1)) < share
  n = draw(st.integers(0, 10))
  trials = []
  for _ in range(n):
    if eligible_only:
      kind = 'c'
    else:
      kind = draw(st.sampled_from(['c', 'c', 'c', 'c', 'i', 'i0', 'a', 'r',
                                   's', 'c_partial']))
    if kind == 'c':
      meas = draw(_measurement(cfg, 32, always_complete=True))
    elif kind in ('i', 'c_partial'):
      meas = draw(_measurement(cfg, 32, complete_share=2 if kind == 'c_partial'
                               else 9))
    else:
      meas = {}
    trials.append([kind, meas])
  return {'config': cfg, 'trials': trials,
          'mode': 'eligible_only' if eligible_only else 'mixed'}


def check_inram(case):
  from vizier import pyvizier as vz
  from vizier._src.pythia import local_policy_supporters as lps
  out = core.Out()
  cfg = case['config']
  ps = vz.ProblemStatement()
  ps.search_space.root.add_float_param('x', 0.0, 1.0)
  for n, g in cfg['objectives']:
    ps.metric_information.append(vz.MetricInformation(
        n, goal=getattr(vz.ObjectiveMetricGoal, g)))
  if cfg['safety']:
    sn, sg, sth = cfg['safety']
    ps.metric_information.append(vz.MetricInformation(
        sn, goal=getattr(vz.ObjectiveMetricGoal, sg), safety_threshold=sth))
  sup = lps.InRamPolicySupporter(ps)
  built = []
  for kind, m in case['trials']:
    if kind in ('c', 'c_partial'):
      t = vz.Trial(parameters={'x': 0.5})
      t.complete(vz.Measurement(dict(m)))
    elif kind == 'i':
      t = vz.Trial(parameters={'x': 0.5})
      t.complete(vz.Measurement(dict(m)), infeasibility_reason='harness')
    elif kind == 'i0':
      t = vz.Trial(parameters={'x': 0.5}, infeasibility_reason='harness')
    elif kind == 'a':
      t = vz.Trial(parameters={'x': 0.5})
    elif kind == 'r':
      t = vz.Trial(parameters={'x': 0.5}, is_requested=True)
    elif kind == 's':
      t = vz.Trial(parameters={'x': 0.5}, stopping_reason='harness')
    else:
      raise ValueError(kind)
    built.append(t)
  sup.AddTrials(built)
  ids = [t.id for t in built]
  if sorted(ids) != list(range(1, len(built) + 1)):
    raise AssertionError('unexpected ids %r' % ids)

  # oracle: eligibility, safety warping (SafetyChecker docstrings), definition
  names = [n for n, _ in cfg['objectives']]
  goals = dict((n, g) for n, g in cfg['objectives'])
  elig = {}
  any_inelig = False
  unsafe_seen = False
  for t, (kind, m) in zip(built, case['trials']):
    ok = kind in ('c', 'c_partial') and all(
        n in m and not _isnan(m[n]) for n in names)
    if ok and cfg['safety'] and cfg['safety'][0] not in m:
      ok = False  # statement: every configured metric
    if not ok:
      any_inelig = True
      out.cls('ineligible:' + ('partial_or_nan' if kind.startswith('c')
                               else kind))
      continue
    vec = [_flip(goals[n], m[n]) for n in names]
    if cfg['safety']:
      sn, sg, sth = cfg['safety']
      unsafe = (m[sn] < sth) if sg == 'MAXIMIZE' else (m[sn] > sth)
      if unsafe:
        unsafe_seen = True
        vec = [-INF] * len(names)
    elig[t.id] = vec
  eids = sorted(elig)
  vecs = [elig[i] for i in eids]
  mask = ref.optimal_mask(vecs)
  opt = [i for i, o in zip(eids, mask) if o]
  ctx = 'with_ineligible' if any_inelig else 'all_eligible'
  single = len(names) == 1
  kindtag = 'single' if single else 'multi'
  desc = 'config=%r trials=%r eligible_vectors=%r optimal=%r' % (
      cfg, case['trials'], elig, opt)
  nb = len(built)
  for count in (None, 1, 2, max(nb, 1), nb + 1):
    ctag = 'count_none' if count is None else 'count_k'
    base = 'inram/%s/%s' % (kindtag, ctag)
    try:
      got = [t.id for t in sup.GetBestTrials(count=count)]
    except Exception as e:  # pylint: disable=broad-except
      out.violate('%s/exception:%s' % (base, type(e).__name__),
                  'count=%r %s: %s' % (count, desc, str(e)[:200]))
      continue
    d2 = 'count=%r got=%r %s' % (count, got, desc)
    if len(set(got)) != len(got):
      out.violate('%s/duplicate_reported/%s' % (base, ctx), d2)
    inel = [i for i in got if i not in elig]
    if inel:
      out.violate('%s/reported_ineligible/%s' % (base, ctx), d2)
    if count is None:
      extra = [i for i in got if i in elig and i not in opt]
      missing = [i for i in opt if i not in got]
      if extra:
        out.violate('%s/extra_dominated/%s' % (base, ctx), d2)
      if missing:
        if single and not extra and len([i for i in got if i in opt]) == 1 \
            and len(opt) > 1:
          out.violate('%s/only_one_of_tied_optima/%s' % (base, ctx), d2)
        else:
          out.violate('%s/missing_optimal/%s' % (base, ctx), d2)
    elif single:
      want_len = min(count, len(eids))
      good = [i for i in got if i in elig]
      if len(got) != want_len:
        out.violate('%s/wrong_length/%s' % (base, ctx), d2)
      top = sorted((elig[i][0] for i in eids), reverse=True)[:len(good)]
      gotv = sorted((elig[i][0] for i in good), reverse=True)
      if gotv != top:
        out.violate('%s/not_top_values/%s' % (base, ctx), d2)
    else:
      want_len = min(count, len(opt))
      extra = [i for i in got if i in elig and i not in opt]
      if extra:
        out.violate('%s/extra_dominated/%s' % (base, ctx), d2)
      if len([i for i in got if i in opt]) != want_len:
        out.violate('%s/wrong_length/%s' % (base, ctx), d2)
  # the query must not change the study: trials keep what was reported
  for t, (kind, m) in zip(sup.trials, case['trials']):
    fm = t.final_measurement
    now = sorted((k, repr(v.value)) for k, v in fm.metrics.items()) \
        if fm is not None else None
    was = sorted((k, repr(float(v))) for k, v in m.items()) \
        if kind in ('c', 'c_partial', 'i') else None
    if now != was:
      out.violate('inram/study_trial_modified_by_query',
                  'trial %d was=%r now=%r %s' % (t.id, was, now, desc))
      break
  s_ = ref.structure(vecs) if vecs else None
  out.nontrivial = bool(s_ and s_['nontrivial'])
  if s_ and s_['tie_opt_nonopt']:
    out.cls('tie_opt_nonopt')
  if s_ and s_['dup_optimal']:
    out.cls('dup_optimal')
    if single:
      out.cls('single_objective_tied_optimum')
  out.cls(kindtag, ctx)
  if case['mode'] == 'eligible_only':
    out.cls('eligible_only(avoids_known_inram_ineligible)')
  if cfg['safety']:
    out.cls('safety_metric')
    if unsafe_seen:
      out.cls('unsafe_trial_warped')
  if 'MINIMIZE' in set(g for _, g in cfg['objectives']):
    out.cls('has_minimize')
  if nb == 0:
    out.cls('no_trials')
  return out


# ---------------------------------------------------------------------------
def families(tier):
  return [
      core.Family('enum_small', check_enum, enumerate=enum_small,
                  shards={'quick': 8, 'thorough': 8},
                  required_classes=('tie_opt_nonopt', 'dup_optimal', 'n=0',
                                    'd=1', 'd=2')),
      core.Family('pure_np', check_np, strategy=np_strategy,
                  budget={'quick': 3200, 'thorough': 150000},
                  shards={'quick': 8, 'thorough': 16},
                  required_classes=('tie_opt_nonopt', 'dup_optimal',
                                    'col0_ties', 'has_inf', 'n=0', 'n=13..40',
                                    'd=1', 'd=4', 'against_has_equal_point',
                                    'col0_distinct(avoids_known_fast_ties)')),
      core.Family('pure_jax', check_jax, strategy=jax_strategy,
                  budget={'quick': 800, 'thorough': 20000},
                  shards={'quick': 8, 'thorough': 16},
                  required_classes=('tie_opt_nonopt', 'dup_optimal', 'has_inf',
                                    'n=0', 'n=13..40', 'num_shards=1',
                                    'num_shards=2', 'num_shards=3',
                                    'num_shards=10', 'num_shards=50',
                                    'fast_with_jax_base',
                                    'against_has_equal_point')),
      core.Family('service', check_service, strategy=service_strategy,
                  budget={'quick': 640, 'thorough': 30000},
                  shards={'quick': 8, 'thorough': 16},
                  required_classes=(
                      'tie_opt_nonopt', 'dup_optimal', 'ram', 'sqlmem',
                      'ineligible:state_INFEASIBLE', 'ineligible:state_ACTIVE',
                      'ineligible:state_REQUESTED', 'ineligible:state_STOPPING',
                      'ineligible:missing_metric', 'ineligible:nan_objective',
                      'ineligible_would_be_optimal',
                      'eligible_with_extra_metric', 'mixed_goals',
                      'has_minimize', 'safety_metric', 'deleted_optimal',
                      'objectives=1', 'objectives=3')),
      core.Family('inram', check_inram, strategy=inram_strategy,
                  budget={'quick': 1200, 'thorough': 40000},
                  shards={'quick': 8, 'thorough': 16},
                  required_classes=(
                      'tie_opt_nonopt', 'dup_optimal',
                      'single_objective_tied_optimum', 'single', 'multi',
                      'all_eligible', 'with_ineligible', 'safety_metric',
                      'unsafe_trial_warped', 'has_minimize')),
  ]
