"""C15 Numeric encoding of trials is invertible and always decodes into the space.

Families
  roundtrip  (space, converter class + options, feasible points) -> encode,
             judge the feature blocks (layout, index / one-hot position, unit
             interval, reference scaling incl. lo->0, hi->1, monotone, midpoint
             identities), decode, compare with the points; inputs not mutated.
  decode     (space, converter class + options, abstract rows) -> arbitrary
             arrays of the converter's published output spec (in range, out of
             range, extremes, soft / tied / flat / OOV-dominated one-hot
             blocks, OOV index) -> to_parameters -> independent membership
             oracle (harness/spaces.member).  Secondary, from the docstrings
             ("convert and clip to the nearest feasible value", should_clip):
             a one-hot block with a unique largest valid entry decodes to that
             value; with clipping a feature outside the range decodes to the
             bound / extreme feasible value on that side; without clipping a
             feature distinctly outside the range is not truncated.
  metrics    metric configurations x sign-flip flag x dtype x missing values:
             DefaultModelOutputConverter.convert / to_metrics and the
             whole-converter label paths (to_labels, to_xy -> to_trials).

Converter classes: DefaultTrialConverter ('dict'), TrialToArrayConverter
('array'), PaddedTrialToArrayConverter ('padded'),
TrialToContinuousAndCategoricalConverter ('cc'), TrialToModelInputConverter
('model_input'), ProblemAndTrialsScaler ('scaler').
"""
import math

from hypothesis import strategies as st

from harness import core
from harness import spaces

ID = 'C15'
LEVEL = 'exploration'
RULE = (
    'Hypothesis-generated (flat space from harness/spaces.flat_space incl. '
    'degenerate ranges, LOG/REVERSE_LOG, tiny/wide/huge bounds, hostile names)'
    ' x (converter class, scale, onehot, pad_oovs, max_discrete_indices in '
    '{0,10,inf}, float32/float64, clip, padding schedule) x data. roundtrip: '
    '1-5 drawn feasible points plus the derived all-lo / all-hi / midpoint '
    'points; non-trivial = space mixes >=2 kinds and has a LOG/REVERSE_LOG '
    'scale or a continuified INTEGER/DISCRETE. decode: 1-6 abstract rows '
    'turned into arrays along the published output specs; non-trivial = same '
    'space rule and >=1 entry outside the spec bounds or a non-canonical '
    'one-hot block. metrics: non-trivial = a MINIMIZE objective with the flip '
    'flag set and >=2 distinct values. distinct = SHA-1 of the canonical JSON '
    'case.')
ASSUMPTIONS = [
    'membership of decoded parameters is judged by harness/spaces.member '
    '(written from the statement of C03/C16, not SearchSpace.contains)',
    'reference scaling = 50-digit decimal evaluation of (x-lo)/(hi-lo), '
    '(ln x-ln lo)/(ln hi-ln lo), 1-(ln(lo+hi-x)-ln lo)/(ln hi-ln lo); '
    'tolerances are K=8 ulp of the carrier dtype times the condition number '
    'of the formula at the point (harness/c15_model.py)',
    'the carrier precision is the dtype of the array that to_features '
    'returned (jax without x64 stores float32; ProblemAndTrialsScaler uses '
    'float32 internally); bounds are clamped to 1e-30..1e30 for float32 '
    'carriers, LOG/REVERSE_LOG ranges are strictly positive (documented)',
    'continuified INTEGER/DISCRETE values are required to come back exactly '
    'only when neighbouring feasible values are further apart than twice the '
    'accuracy granted to DOUBLE values in that dtype',
    'with should_clip=False membership is not demanded of out-of-range '
    'features (only that they are not truncated); an OOV *index* feature '
    'decodes to "parameter absent" as documented',
    'a range that is degenerate in the carrier dtype is encoded as '
    '0.5+(x-lo) (published output bounds (0.5,0.5)), so its round trip is '
    'accurate to 4 eps of max(|lo|, 0.5)',
    'safety metrics are excluded from the label round trip (documented shift)',
]

# Findings on the unchanged tree (see known_findings.d/C15.jsonl, replays in
# pinned/C15, patches in proposals/C15). They do not blind the search (every
# point / row / parameter is judged separately), so the generators keep
# producing their triggers; the shares are measured in the classes
# reverse_log_cancellation, unscale_overflow and nearest_absorbed.
KNOWN_REVERSE_LOG_CANCELLATION = 'unit/nonfinite/REVERSE_LOG_cancellation'
KNOWN_OVERFLOW_DROPS_PARAM = 'decode/missing/unscale_overflow'
KNOWN_NEAREST_ABSORBED = 'decode/nearest_lost_to_absorption'

MDI = (0, 10, 'inf')


# ---------------------------------------------------------------------------
# strategies
# ---------------------------------------------------------------------------
@st.composite
def conv_options(draw, classes=None):
  from harness import c15_conv as cc
  cls = draw(st.sampled_from(list(classes or cc.CLASSES)))
  conv = {
      'cls': cls,
      'scale': draw(st.booleans()) if cls == 'dict' else draw(
          st.sampled_from([True, True, False])),
      'onehot': draw(st.booleans()),
      'pad_oovs': draw(st.booleans()),
      'mdi': draw(st.sampled_from(MDI)),
      'dtype': draw(st.sampled_from(['float32', 'float64'])),
      'clip': draw(st.sampled_from([True, True, True, False])),
      'pad': [draw(st.sampled_from(cc.PADS)) for _ in range(3)],
      'flip': draw(st.booleans()),
  }
  return cc.effective(conv)


def fit_space(spec, conv):
  """float32 carriers: clamp DOUBLE bounds to the float32-safe range."""
  from harness import c15_conv as cc
  if not cc.f32_carrier(conv):
    return spec, False
  changed = False
  params = []
  for p in spec['params']:
    p = dict(p)
    if p['kind'] == 'DOUBLE':
      lo, hi = p['lo'], p['hi']

      def clamp(v):
        if v > 1e30:
          return 1e30
        if v < -1e30:
          return -1e30
        if 0 < v < 1e-30:
          return 1e-30
        if -1e-30 < v < 0:
          return -1e-30
        return v
      nlo, nhi = clamp(lo), clamp(hi)
      if (nlo, nhi) != (lo, hi):
        changed = True
        p['lo'], p['hi'] = nlo, nhi
        if 'default' in p:
          p['default'] = min(max(p['default'], nlo), nhi)
    params.append(p)
  return {'params': params}, changed


@st.composite
def space_and_conv(draw, classes=None, max_params=5):
  hostile = draw(st.sampled_from([False, False, True]))
  spec = draw(spaces.flat_space(1, max_params, hostile_names=hostile))
  conv = draw(conv_options(classes))
  # a parameter that already is in "model form" (plain DOUBLE on [0, 1],
  # DISCRETE spanning exactly [0, 1], INTEGER 0..1): a converter that treats
  # such a parameter as needing no conversion still has to clip / snap
  if draw(st.sampled_from([False, False, True])):
    k = draw(st.integers(0, len(spec['params']) - 1))
    nm = spec['params'][k]['name']
    spec['params'][k] = draw(st.sampled_from([
        {'name': nm, 'kind': 'DOUBLE', 'lo': 0.0, 'hi': 1.0, 'scale': None},
        {'name': nm, 'kind': 'DOUBLE', 'lo': 0.0, 'hi': 1.0,
         'scale': 'LINEAR'},
        {'name': nm, 'kind': 'DISCRETE', 'values': [0.0, 0.5, 1.0],
         'scale': None, 'auto_cast': False},
        {'name': nm, 'kind': 'DISCRETE', 'values': [0.0, 0.25, 1.0],
         'scale': 'LINEAR', 'auto_cast': True},
        {'name': nm, 'kind': 'INTEGER', 'lo': 0, 'hi': 1, 'scale': None},
    ]))
  spec, clamped = fit_space(spec, conv)
  return spec, conv, clamped


@st.composite
def roundtrip_case(draw):
  spec, conv, clamped = draw(space_and_conv())
  pts = draw(st.lists(spaces.point_in(spec), min_size=1, max_size=5))
  return {'space': spec, 'conv': conv, 'points': pts, 'clamped': clamped}


def roundtrip_strategy():
  return roundtrip_case()


DELTAS = [1e-9, 1e-6, 1e-3, 0.25, 1.0, 3.0, 20.0, 1e3, 1e9]


def _row_entry():
  unit = st.floats(0.0, 1.0, allow_nan=False)
  cont = st.fixed_dictionaries({
      'mode': st.sampled_from(['in', 'in', 'lo', 'hi', 'below', 'above',
                               'below', 'above', 'extreme+', 'extreme-']),
      'u': unit,
      'd': st.sampled_from(DELTAS),
      'rel': st.booleans(),
  })
  hot = st.fixed_dictionaries({
      'mode': st.sampled_from(['onehot', 'soft', 'ties', 'flat', 'oov_max',
                               'oov_max', 'oov_hot', 'neg', 'big']),
      'k': st.integers(0, 2000),
      'vals': st.lists(st.floats(-2.0, 2.0, allow_nan=False, width=32),
                       min_size=4, max_size=8),
  })
  return st.fixed_dictionaries({
      'c': cont, 'h': hot, 'i': st.integers(0, 2000),
      'oov': st.sampled_from([False, False, False, True])})


@st.composite
def decode_case(draw):
  spec, conv, clamped = draw(space_and_conv())
  n = len(spec['params'])
  rows = draw(st.lists(st.lists(_row_entry(), min_size=n, max_size=n),
                       min_size=1, max_size=6))
  return {'space': spec, 'conv': conv, 'rows': rows, 'clamped': clamped,
          'junk': draw(st.sampled_from([0.0, 7.5, -1e6, 1e30]))}


def decode_strategy():
  return decode_case()


METRIC_NAMES = ['m', 'loss', 'a:b', 'é', '', 'acc', 'x']
VALUES = [0.0, -0.0, 1.0, -1.0, 0.5, 3.0, -2.5, 1e-40, -1e-40, 1e-30, 1e30,
          -1e30, 123456.789, 1e-7]


@st.composite
def metrics_case(draw):
  n = draw(st.integers(1, 3))
  names = draw(st.lists(st.sampled_from(METRIC_NAMES), min_size=n, max_size=n,
                        unique=True))
  ms = []
  for nm in names:
    m = {'name': nm, 'goal': draw(st.sampled_from(['MAXIMIZE', 'MINIMIZE',
                                                   'MINIMIZE']))}
    if draw(st.integers(0, 4)) == 0:
      m['safety'] = draw(st.sampled_from([0.0, 0.3, -2.0, 10.0]))
    ms.append(m)
  val = st.one_of(st.sampled_from(VALUES),
                  st.floats(-1e30, 1e30, allow_nan=False))
  nrows = draw(st.integers(1, 5))
  rows = []
  for _ in range(nrows):
    kind = draw(st.integers(0, 9))
    if kind == 0:
      rows.append(None)  # trial without final measurement
      continue
    row = {}
    for m in ms:
      if kind == 1 and draw(st.booleans()):
        continue  # metric missing from the measurement
      row[m['name']] = draw(val)
    rows.append(row)
  via = draw(st.sampled_from(['output', 'output', 'dict', 'array', 'padded',
                              'cc', 'model_input']))
  from harness import c15_conv as cc
  return {
      'metrics': ms, 'rows': rows, 'via': via,
      'flip': draw(st.sampled_from([True, True, False])),
      'shift': draw(st.booleans()),
      'dtype': draw(st.sampled_from(['float32', 'float64'])),
      'raise_missing': draw(st.sampled_from([False, False, True])),
      'oned': draw(st.booleans()),
      'pad': [draw(st.sampled_from(cc.PADS)) for _ in range(3)],
  }


def metrics_strategy():
  return metrics_case()


# ---------------------------------------------------------------------------
# shared helpers
# ---------------------------------------------------------------------------
def _space_classes(out, spec, conv, lay):
  kinds = spaces.kinds_of(spec)
  nonlinear = any(p.get('scale') in ('LOG', 'REVERSE_LOG')
                  for p in spec['params'])
  contin = any(l['continuified'] for l in lay.values())
  out.cls(*spaces.classes_of(spec))
  out.cls('conv_' + conv['cls'], 'dtype_' + conv['dtype'],
          'mdi_%s' % conv['mdi'], 'scale_on' if conv['scale'] else 'scale_off')
  if conv['cls'] in ('dict', 'array'):
    out.cls('clip_on' if conv['clip'] else 'clip_off')
  if conv['cls'] in ('dict', 'array', 'padded'):
    if conv['onehot']:
      out.cls('onehot', 'pad_oovs_on' if conv['pad_oovs'] else 'pad_oovs_off')
    else:
      out.cls('index_features')
  if conv['cls'] in ('padded', 'model_input'):
    out.cls('pad_trials_' + conv['pad'][0], 'pad_features_' + conv['pad'][1])
  if contin:
    out.cls('continuified')
  if any(l['type'] == 'ONEHOT' for l in lay.values()):
    out.cls('has_onehot_block')
  if any(l['type'] == 'INDEX' for l in lay.values()):
    out.cls('has_index_feature')
  return len(kinds) >= 2 and (nonlinear or contin)


def _build(out, case):
  """-> (spec, conv, layouts, adapter) or None after recording a violation."""
  from harness import c15_conv as cc
  from harness import c15_model as M
  spec = case['space']
  conv = cc.effective(case['conv'])
  lay = {p['name']: M.layout(p, conv) for p in spec['params']}
  problem = spaces.problem(spec)
  try:
    ad = cc.Adapter(problem, conv)
  except Exception as e:  # pylint: disable=broad-except
    if conv['cls'] == 'scaler' and any(
        p['kind'] == 'DISCRETE'
        and not M.distinguishable(p, 'float32', True)
        for p in spec['params']):
      out.cls('scaler_indistinct_discrete')
      return None
    out.violate('exception/construct/%s/%s' % (conv['cls'],
                                                type(e).__name__), repr(e))
    return None
  return spec, conv, lay, ad


def _pyval(v):
  """ParameterValue.value -> plain python."""
  if isinstance(v, (str, bool, int, float)):
    return v
  try:
    return v.item()
  except AttributeError:
    return v


def _index_of(p, value):
  from harness import c15_model as M
  vals = M.feasible_of(p)
  for i, x in enumerate(vals):
    if (isinstance(x, str)) == isinstance(value, str) and x == value:
      return i
  raise ValueError('generator bug: %r not feasible for %r' % (value, p))


def _probes(spec):
  """Derived feasible points: all-lo, all-hi, midpoints of every scale."""
  from harness import c15_model as M
  lo_pt, hi_pt = {}, {}
  mids = {'LINEAR': {}, 'LOG': {}, 'REVERSE_LOG': {}}
  for p in spec['params']:
    if p['kind'] == 'DOUBLE':
      lo_pt[p['name']], hi_pt[p['name']] = p['lo'], p['hi']
      mp = M.midpoints(p)
      for s in mids:
        mids[s][p['name']] = mp.get(s, mp['LINEAR'])
    else:
      vals = M.feasible_of(p)
      if p['kind'] == 'INTEGER':
        pick = [p['lo'], p['hi'], p['lo'] + (p['hi'] - p['lo']) // 2]
      else:
        src = p['values'] if p['kind'] != 'BOOL' else vals
        srt = sorted(src)
        pick = [srt[0], srt[-1], srt[len(srt) // 2]]
      lo_pt[p['name']], hi_pt[p['name']] = pick[0], pick[1]
      for s in mids:
        mids[s][p['name']] = pick[2]
  pts = [('lo', lo_pt), ('hi', hi_pt)]
  if any(p['kind'] == 'DOUBLE' for p in spec['params']):
    pts += [('mid_' + s, mids[s]) for s in ('LINEAR', 'LOG', 'REVERSE_LOG')]
  return pts


def _carrier(block, conv):
  import numpy as np
  if conv['cls'] == 'scaler':
    return np.dtype('float32')
  return np.dtype(block.dtype)


# ---------------------------------------------------------------------------
# family: roundtrip
# ---------------------------------------------------------------------------
def check_roundtrip(case):
  import numpy as np
  from vizier import pyvizier as vz
  from harness import c15_model as M
  out = core.Out()
  built = _build(out, case)
  if built is None:
    return out
  spec, conv, lay, ad = built
  out.nontrivial = _space_classes(out, spec, conv, lay)
  if case.get('clamped'):
    out.cls('f32_bounds_clamped')
  cls = conv['cls']
  scaled = conv['scale']
  comp_dtype = np.dtype(conv['dtype'])

  probes = _probes(spec)
  labels = ['drawn'] * len(case['points']) + [k for k, _ in probes]
  points = list(case['points']) + [pt for _, pt in probes]
  # boolean parameters: every other trial carries a Python bool instead of the
  # string 'True' / 'False' (SearchSpace.contains accepts both)
  bool_names = [p['name'] for p in spec['params'] if p['kind'] == 'BOOL']
  if bool_names and len(points) > 1:
    out.cls('python_bool_values')
  trials = [vz.Trial(parameters={
      k: ((v == 'True') if (k in bool_names and i % 2 == 1) else v)
      for k, v in pt.items()}) for i, pt in enumerate(points)]
  n = len(trials)
  before = [{k: _pyval(v.value) for k, v in t.parameters.items()}
            for t in trials]
  try:
    raw, blocks, info = ad.encode(trials)
  except Exception as e:  # pylint: disable=broad-except
    out.violate('exception/encode/%s/%s' % (cls, type(e).__name__), repr(e))
    return out
  after = [{k: _pyval(v.value) for k, v in t.parameters.items()}
           for t in trials]
  if before != after:
    out.violate('mutation/to_features/trials', '%r -> %r' % (before, after))

  # ---- container shape
  if 'total_width' in info and info['total_width'][0] != info['total_width'][1]:
    out.violate('layout/total_width/' + cls, repr(info))
  if 'padded_shape' in info:
    if info['padded_shape'] != info['expect_shape']:
      out.violate('padding/shape/' + cls, repr(info))
    if info['unpad_shape'] != info['orig_shape']:
      out.violate('padding/unpad/' + cls, repr(info))
    if info.get('padding_is_fill') is False:
      out.violate('padding/fill/' + cls, repr(info))

  # ---- feature blocks
  pairs = {}  # name -> [(x, f)]
  for p in spec['params']:
    name = p['name']
    L = lay[name]
    b = blocks.get(name)
    if b is None:
      out.violate('layout/missing_block/' + cls, name)
      continue
    if cls == 'scaler':
      _judge_scaler_block(out, p, L, b, points, labels, pairs)
      continue
    if tuple(b.shape) != (n, L['width']):
      out.violate('layout/width/%s/%s' % (L['type'], p['kind']),
                  'param %r expected (n=%d,%d) got %r (mdi=%r, n_feasible=%r)'
                  % (name, n, L['width'], b.shape, conv['mdi'], L['n']))
      continue
    if L['type'] == 'INDEX':
      if b.dtype.kind != 'i':
        out.violate('layout/dtype/INDEX', '%r %r' % (name, b.dtype))
      for i, pt in enumerate(points):
        want = _index_of(p, pt[name])
        if int(b[i, 0]) != want:
          out.violate('index/position/' + p['kind'],
                      'param %r value %r -> index %r, expected %d' % (
                          name, pt[name], b[i, 0], want))
          break
      continue
    if b.dtype.kind != 'f' or (cls in ('dict', 'array', 'cc')
                               and b.dtype != comp_dtype):
      out.violate('layout/dtype/' + L['type'],
                  'param %r dtype %r requested %r' % (name, b.dtype,
                                                      conv['dtype']))
      continue
    if L['type'] == 'ONEHOT':
      for i, pt in enumerate(points):
        row = b[i]
        want = _index_of(p, pt[name])
        ones = [j for j, v in enumerate(row) if v == 1.0]
        zeros = sum(1 for v in row if v == 0.0)
        if len(ones) != 1 or zeros != len(row) - 1:
          out.violate('onehot/not_single_one/' + p['kind'],
                      'param %r value %r -> %r' % (name, pt[name],
                                                   row.tolist()))
          break
        if ones[0] != want:
          out.violate('onehot/position/' + p['kind'],
                      'param %r value %r -> active %d expected %d' % (
                          name, pt[name], ones[0], want))
          break
      continue
    # CONTINUOUS
    car = _carrier(b, conv)
    _judge_continuous(out, p, L, [float(v) for v in b[:, 0]], points, labels,
                      scaled, car, comp_dtype, pairs)

  # ---- monotone (scaled continuous features)
  if scaled:
    for p in spec['params']:
      name = p['name']
      if name not in pairs:
        continue
      car = pairs[name]['car']
      pr = sorted(pairs[name]['pts'])
      for (x1, f1), (x2, f2) in zip(pr, pr[1:]):
        if x1 < x2 and math.isfinite(f1) and math.isfinite(f2) and f1 > f2:
          slack = 2 * max(M.tol_feature(p, x1, car), M.tol_feature(p, x2, car))
          if f1 - f2 > slack:
            out.violate('orientation/not_monotone/' + M.scale_of(p),
                        'param %r: f(%r)=%r > f(%r)=%r' % (name, x1, f1, x2,
                                                           f2))
            break

  # ---- decode
  arg = ad.decode_input(raw)
  snap = ad.snapshot(arg)
  try:
    dec = ad.decode(arg)
  except Exception as e:  # pylint: disable=broad-except
    out.violate('exception/decode/%s/%s' % (cls, type(e).__name__), repr(e))
    return out
  if not ad.same(snap, ad.snapshot(arg)):
    out.violate('mutation/to_parameters/input', cls)
  want_n = info['padded_shape'][0] if cls == 'padded' else n
  if len(dec) != want_n:
    out.violate('roundtrip/count/' + cls,
                'decoded %d parameter dicts for %d rows' % (len(dec), want_n))
    if len(dec) < n:
      return out
  for i, pt in enumerate(points):
    got = {k: _pyval(v.value) for k, v in dec[i].items()}
    if set(got) != set(pt):
      miss = sorted(set(pt) - set(got))
      kinds = sorted({q['kind'] for q in spec['params'] if q['name'] in miss})
      out.violate('roundtrip/keys/missing_%s' % '+'.join(kinds or ['none']),
                  'point %r (%s) decoded keys %r' % (pt, labels[i],
                                                     sorted(got)))
      continue
    for p in spec['params']:
      name = p['name']
      L = lay[name]
      x, y = pt[name], got[name]
      if p['kind'] in ('CATEGORICAL', 'BOOL'):
        if p['kind'] == 'BOOL' and isinstance(y, bool) and cls == 'scaler':
          y = str(y)  # the scaler hands a categorical value back as it came
        if not (isinstance(y, str) and y == x):
          out.violate('roundtrip/value/' + p['kind'],
                      'param %r %r -> %r' % (name, x, y))
        continue
      if isinstance(y, str) or not math.isfinite(float(y)):
        out.violate('roundtrip/value_type/' + p['kind'],
                    'param %r %r -> %r' % (name, x, y))
        continue
      car = _carrier(blocks[name], conv)
      if p['kind'] == 'DOUBLE':
        tol = M.tol_value(p, x, car, scaled)
        if abs(float(y) - float(x)) > tol:
          out.violate('roundtrip/value/DOUBLE/%s' % (
              M.scale_of(p) if scaled else 'unscaled'),
                      'param %r %r -> %r (|diff|=%g tol=%g, %s, %s, %s)' % (
                          name, x, y, abs(float(y) - float(x)), tol,
                          labels[i], car, {k: p[k] for k in ('lo', 'hi')}))
        elif conv['clip'] and not p['lo'] <= y <= p['hi']:
          out.violate('roundtrip/out_of_bounds/DOUBLE',
                      'param %r %r -> %r' % (name, x, y))
        continue
      if L['continuified'] and not M.distinguishable(p, car, scaled):
        out.cls('continuified_indistinct_in_dtype')
        if not spaces.value_member(p, y):
          out.violate('roundtrip/not_feasible/' + p['kind'],
                      'param %r %r -> %r' % (name, x, y))
        continue
      if not y == x:
        out.violate('roundtrip/value/%s/%s' % (
            p['kind'], 'continuified' if L['continuified'] else L['type']),
                    'param %r %r -> %r (%s, %s)' % (name, x, y, labels[i],
                                                   car))
  return out


def _judge_continuous(out, p, L, feats, points, labels, scaled, car, comp,
                      pairs):
  """Judges the continuous feature column of one parameter."""
  from harness import c15_model as M
  name = p['name']
  s = M.scale_of(p)
  eps = M.eps_of(car)
  lo, hi = M.bounds_of(p)
  for i, pt in enumerate(points):
    x = float(pt[name])
    f = feats[i]
    if not scaled:
      if not (math.isfinite(f)
              and abs(f - x) <= 2 * eps * abs(x) + M.tiny_of(car)):
        out.violate('raw_feature/value/' + p['kind'],
                    'param %r value %r -> feature %r (%s)' % (name, x, f, car))
        break
      continue
    pairs.setdefault(name, {'car': car, 'pts': []})['pts'].append((x, f))
    ill = False
    if s == 'REVERSE_LOG' and lo < hi:
      u = max((lo + hi) - x, lo)
      ill = max(M.eps_of(comp), eps) * (lo + hi) / u > 0.25
    if not math.isfinite(f):
      if ill:
        out.cls('reverse_log_cancellation')
        out.violate(KNOWN_REVERSE_LOG_CANCELLATION,
                    'param %r bounds (%r,%r) %s: feasible value %r (%s) -> '
                    'feature %r' % (name, lo, hi, car, x, labels[i], f))
      else:
        out.violate('unit/nonfinite/' + s,
                    'param %r bounds (%r,%r) %s: value %r -> %r' % (
                        name, lo, hi, car, x, f))
      continue
    tu = M.tol_unit(p, car)
    if f < -tu or f > 1 + tu:
      out.violate('unit/outside/' + s,
                  'param %r bounds (%r,%r) %s: value %r (%s) -> %r, slack %g'
                  % (name, lo, hi, car, x, labels[i], f, tu))
      continue
    if ill:
      out.cls('reverse_log_cancellation')
      continue
    ref = M.ref_feature(p, x)
    tol = M.tol_feature(p, x, car)
    if abs(f - ref) > tol:
      if x == lo or x == hi:
        b = 'orientation/endpoint_%s/%s' % ('lo' if x == lo else 'hi', s)
      elif labels[i].startswith('mid_'):
        b = 'orientation/midpoint/' + s
      else:
        b = 'orientation/reference/' + s
      out.violate(b, 'param %r (%s) bounds (%r,%r) %s: value %r (%s) -> '
                  'feature %r, reference %r, tol %g' % (
                      name, p['kind'], lo, hi, car, x, labels[i], f, ref, tol))


def _judge_scaler_block(out, p, L, b, points, labels, pairs):
  """ProblemAndTrialsScaler.map output of one parameter."""
  import numpy as np
  name = p['name']
  if p['kind'] in ('CATEGORICAL', 'BOOL'):
    for i, pt in enumerate(points):
      if b[i, 0] != pt[name]:
        out.violate('scaler/categorical_changed', '%r -> %r' % (pt[name],
                                                                b[i, 0]))
        break
    return
  if b.dtype == object:
    out.violate('scaler/numeric_became_str', name)
    return
  _judge_continuous(out, p, L, [float(v) for v in b[:, 0]], points, labels,
                    True, np.dtype('float32'), np.dtype('float32'), pairs)


# ---------------------------------------------------------------------------
# family: decode (arbitrary arrays)
# ---------------------------------------------------------------------------
def _cont_value(rec, b0, b1, dtype):
  import numpy as np
  mode = rec['mode']
  fmax = float(np.finfo(dtype).max)
  span = (b1 - b0) if b1 > b0 else 1.0
  if mode == 'in':
    v = b0 + rec['u'] * (b1 - b0)
    return min(max(v, b0), b1)
  if mode == 'lo':
    return b0
  if mode == 'hi':
    return b1
  d = rec['d'] * (span if rec['rel'] else 1.0)
  if mode == 'below':
    v = b0 - d
  elif mode == 'above':
    v = b1 + d
  elif mode == 'extreme+':
    v = 0.9 * fmax
  else:
    v = -0.9 * fmax
  return min(max(v, -0.9 * fmax), 0.9 * fmax)


def _hot_block(rec, width, n):
  """-> (list of floats, canonical?)"""
  mode = rec['mode']
  k = rec['k'] % n
  vals = [float(rec['vals'][j % len(rec['vals'])]) for j in range(width)]
  has_oov = width > n
  if mode in ('oov_max', 'oov_hot') and not has_oov:
    mode = 'soft'
  if mode == 'onehot':
    return [1.0 if j == k else 0.0 for j in range(width)], True, mode
  if mode == 'oov_hot':
    return [1.0 if j == n else 0.0 for j in range(width)], False, mode
  if mode == 'flat':
    return [vals[0]] * width, False, mode
  if mode == 'ties':
    m = max(vals) + 0.5
    vals[k] = m
    vals[(k + 1 + rec['k'] // n) % n] = m
    return vals, False, mode
  if mode == 'oov_max':
    vals[n] = max(vals) + 1.0
    return vals, False, mode
  if mode == 'neg':
    return [-abs(v) - 0.25 for v in vals], False, mode
  if mode == 'big':
    return [v * 1e30 for v in vals], False, mode
  return vals, False, 'soft'


def check_decode(case):
  import numpy as np
  from vizier import pyvizier as vz
  from harness import c15_model as M
  out = core.Out()
  built = _build(out, case)
  if built is None:
    return out
  spec, conv, lay, ad = built
  space_nt = _space_classes(out, spec, conv, lay)
  if case.get('clamped'):
    out.cls('f32_bounds_clamped')
  cls = conv['cls']
  scaled = conv['scale']
  dtype = np.dtype(conv['dtype'])
  if cls == 'model_input':
    dtype = np.dtype('float32')  # jax (x64 off) stores the arrays as float32
  rows = case['rows']
  n = len(rows)
  T = ad.core.NumpyArraySpecType
  offbeat = False

  # what each entry is, for the verdict: name -> list per row of
  # ('cont', f, in_range) | ('index', i, oov) | ('hot', mode)
  meta = {p['name']: [] for p in spec['params']}
  if cls == 'scaler':
    emb = ad.c.problem_statement.search_space
    trials = []
    for r in rows:
      params = {}
      for j, p in enumerate(spec['params']):
        name = p['name']
        pc = emb.get(name)
        if pc.type == vz.ParameterType.DOUBLE:
          b0, b1 = (float(x) for x in pc.bounds)
          rec = dict(r[j]['c'])
          if rec['mode'].startswith('extreme'):
            rec['mode'] = 'above' if rec['mode'].endswith('+') else 'below'
          # an optimiser working in the embedded space may step outside it:
          # unmap clips (the converter behind it is built with clipping)
          v = float(_cont_value(rec, b0, b1, np.dtype('float32')))
          params[name] = v
          inr = b0 <= v <= b1
          offbeat = offbeat or not inr
          meta[name].append(('cont', v, inr, 'hi' if v > b1 else 'lo'))
        else:
          fv = list(pc.feasible_values)
          k = r[j]['i'] % len(fv)
          if r[j]['oov'] and len(fv) > 1 and all(
              isinstance(x, (int, float)) for x in fv):
            # between two embedded feasible values: snapped to a feasible one
            k = min(k, len(fv) - 2)
            params[name] = fv[k] + 0.3 * (fv[k + 1] - fv[k])
            offbeat = True
            out.cls('scaler_between_feasible_values')
          else:
            params[name] = fv[k]
          meta[name].append(('feasible', params[name], True))
      trials.append(vz.Trial(parameters=params))
    arg = trials
  else:
    blocks = {}
    for j, p in enumerate(spec['params']):
      name = p['name']
      s = ad.spec_of(name)
      L = lay[name]
      if s is None:
        out.violate('layout/missing_spec/' + cls, name)
        return out
      want_t = {'CONTINUOUS': T.CONTINUOUS, 'INDEX': T.DISCRETE,
                'ONEHOT': T.ONEHOT_EMBEDDING}[L['type']]
      if s.type != want_t or s.num_dimensions != L['width']:
        out.violate('layout/spec/%s/%s' % (L['type'], p['kind']),
                    'param %r spec %s x%d expected %s x%d' % (
                        name, s.type, s.num_dimensions, L['type'], L['width']))
        return out
      if L['type'] == 'CONTINUOUS':
        b0, b1 = float(s.bounds[0]), float(s.bounds[1])
        col = []
        for r in rows:
          v = float(np.asarray(_cont_value(r[j]['c'], b0, b1, dtype),
                               dtype=dtype))
          inr = b0 <= v <= b1
          offbeat = offbeat or not inr
          col.append(v)
          meta[name].append(('cont', v, inr, 'hi' if v > b1 else 'lo'))
        blocks[name] = np.asarray(col, dtype=dtype).reshape(n, 1)
      elif L['type'] == 'INDEX':
        col = []
        for r in rows:
          oov = r[j]['oov']
          i = L['n'] if oov else r[j]['i'] % L['n']
          col.append(i)
          meta[name].append(('index', i, oov))
        blocks[name] = np.asarray(col, dtype=s.dtype).reshape(n, 1)
      else:
        mat = []
        for r in rows:
          vals, canonical, mode = _hot_block(r[j]['h'], L['width'], L['n'])
          offbeat = offbeat or not canonical
          mat.append(vals)
          meta[name].append(('hot', mode, canonical))
        blocks[name] = np.asarray(mat, dtype=dtype).reshape(n, L['width'])
    junk = case.get('junk', 7.5)
    if dtype == np.dtype('float32'):
      junk = min(junk, 1e30)
    arg = ad.assemble(blocks, n, junk=junk)
  snap = ad.snapshot(arg)
  try:
    dec = ad.decode(arg)
  except Exception as e:  # pylint: disable=broad-except
    out.violate('exception/decode/%s/%s' % (cls, type(e).__name__), repr(e))
    return out
  if not ad.same(snap, ad.snapshot(arg)):
    out.violate('mutation/to_parameters/input', cls)
  if len(dec) != n:
    out.violate('decode/count/' + cls,
                'decoded %d parameter dicts for %d rows' % (len(dec), n))
    if len(dec) < n:
      return out

  for i in range(n):
    got = {k: _pyval(v.value) for k, v in dec[i].items()}
    extra = sorted(set(got) - set(meta))
    if extra:
      out.violate('decode/extra_param', repr(extra))
    for p in spec['params']:
      name = p['name']
      L = lay[name]
      m = meta[name][i]
      out.cls('entry_' + m[0] + ('' if m[0] != 'hot' else '_' + m[1]))
      if m[0] == 'cont' and not m[2]:
        out.cls('entry_cont_out_of_range')
      if m[0] == 'index' and m[2]:
        out.cls('entry_index_oov')
        if name in got and not spaces.value_member(p, got[name]):
          out.violate('decode/oov_index_not_feasible/' + p['kind'],
                      '%r -> %r' % (m, got[name]))
        continue
      if name not in got:
        if m[0] == 'cont' and M.unscale_overflows(
            p, m[1], np.dtype('float32') if cls == 'scaler' else dtype,
            scaled):
          out.cls('unscale_overflow')
          if conv['clip']:
            out.violate(KNOWN_OVERFLOW_DROPS_PARAM,
                        'param %r (%s, %s, bounds %r) %s: finite feature %r '
                        '-> parameter missing from the decoded ParameterDict'
                        % (name, p['kind'], M.scale_of(p), M.bounds_of(p),
                           dtype, m[1]))
          continue
        if m[0] == 'cont' and not conv['clip'] and not m[2]:
          continue  # nothing demanded of out-of-range features without clip
        out.violate('decode/missing/%s' % {
            'cont': 'continuous/' + (M.scale_of(p) if scaled else 'unscaled'),
            'hot': 'onehot', 'index': 'index',
            'feasible': 'embedded_value'}[m[0]],
                    'param %r (%s) entry %r -> absent; decoded %r' % (
                        name, p['kind'], m, got))
        continue
      y = got[name]
      if (m[0] == 'cont' and not m[2] and p['kind'] == 'DOUBLE'
          and not conv['clip']):
        _judge_unclipped(out, p, m, y, dtype, scaled)
        continue
      if spaces.value_member(p, y):
        _judge_nearest(out, p, L, m, y, conv, dtype, scaled,
                       None if cls == 'scaler' else blocks[name][i])
        continue
      if p['kind'] == 'DOUBLE' and not conv['clip']:
        lo, hi = M.bounds_of(p)
        if (isinstance(y, float) and math.isfinite(y)
            and lo - M.tol_value(p, lo, dtype, scaled) <= y
            <= hi + M.tol_value(p, hi, dtype, scaled)):
          out.cls('unclipped_within_tolerance')
          continue
      out.violate('decode/not_member/%s/%s' % (
          p['kind'], 'continuified' if L['continuified'] else L['type']),
                  'param %r (%s %s) entry %r -> %r outside %r' % (
                      name, p['kind'], M.scale_of(p) if scaled else 'unscaled',
                      m, y, {k: p[k] for k in ('lo', 'hi', 'values')
                             if k in p}))
  out.nontrivial = space_nt and offbeat
  if offbeat:
    out.cls('has_offbeat_entry')
  return out


def _judge_nearest(out, p, L, m, y, conv, dtype, scaled, row):
  """Documented "convert and clip to the nearest feasible value" (secondary)."""
  import numpy as np
  from harness import c15_model as M
  if m[0] == 'hot':
    valid = np.asarray(row[:L['n']])
    mx = valid.max()
    if int((valid == mx).sum()) == 1:
      want = M.feasible_of(p)[int(np.argmax(valid))]
      if not y == want:
        out.violate('decode/onehot_not_argmax',
                    'param %r block %r -> %r, largest valid entry is %r' % (
                        p['name'], row.tolist(), y, want))
    return
  if m[0] != 'cont' or m[2]:
    return
  f, s = m[1], m[3]
  if not conv['clip']:
    return
  if p['kind'] == 'DOUBLE':
    bound = p[s]
    if abs(y - bound) > M.tol_value(p, bound, dtype, scaled):
      out.violate('decode/clip_not_nearest_bound/DOUBLE',
                  'param %r bounds (%r,%r): feature %r lies %s the range but '
                  'decodes to %r' % (p['name'], p['lo'], p['hi'], f,
                                     'above' if s == 'hi' else 'below', y))
  elif L['continuified']:
    vals = [float(v) for v in M.feasible_of(p)]
    want = vals[-1] if s == 'hi' else vals[0]
    if not y == want:
      ref = M.ref_value(p, f) if scaled else f
      gap = min([b - a for a, b in zip(vals, vals[1:])] or [1.0])
      if (want != vals[0] and math.isfinite(ref)
          and M.eps_of(dtype) * abs(ref) >= 0.25 * gap):
        # |feasible - value| is the same float for every candidate
        out.cls('nearest_absorbed')
        out.violate(KNOWN_NEAREST_ABSORBED,
                    'param %r (%s %r..%r, %s): feature %r unscales to about '
                    '%r; decoded %r, nearest feasible is %r' % (
                        p['name'], p['kind'], vals[0], vals[-1], dtype, f,
                        ref, y, want))
        return
      out.violate('decode/clip_not_nearest_bound/' + p['kind'],
                  'param %r: feature %r lies %s the range but decodes to %r, '
                  'nearest feasible is %r' % (
                      p['name'], f, 'above' if s == 'hi' else 'below', y,
                      want))


def _judge_unclipped(out, p, m, y, dtype, scaled):
  """should_clip=False: a feature distinctly outside the range must not be
  truncated to the bound (documented meaning of the option; secondary)."""
  from harness import c15_model as M
  f = m[1]
  lo, hi = M.bounds_of(p)
  ref = M.ref_value(p, f) if scaled else f
  if not (isinstance(y, float) and math.isfinite(y) and math.isfinite(ref)):
    return
  if float(_np_cast(lo, dtype)) == float(_np_cast(hi, dtype)) and scaled:
    return
  if ref > hi + 4 * M.tol_value(p, hi, dtype, scaled) + 4 * M.eps_of(
      dtype) * abs(f) * abs(ref) and not y > hi:
    out.violate('decode/clip_off_but_truncated',
                'param %r bounds (%r,%r): feature %r (reference value %r) '
                'decoded to %r with should_clip=False' % (
                    p['name'], lo, hi, f, ref, y))
  elif ref < lo - 4 * M.tol_value(p, lo, dtype, scaled) - 4 * M.eps_of(
      dtype) * abs(f) * abs(ref) and not y < lo:
    out.violate('decode/clip_off_but_truncated',
                'param %r bounds (%r,%r): feature %r (reference value %r) '
                'decoded to %r with should_clip=False' % (
                    p['name'], lo, hi, f, ref, y))


def _np_cast(v, dtype):
  import numpy as np
  return np.asarray(v, dtype=dtype)


# ---------------------------------------------------------------------------
# family: metrics
# ---------------------------------------------------------------------------
def _metric_infos(case):
  from vizier import pyvizier as vz
  infos = []
  for m in case['metrics']:
    kw = {}
    if 'safety' in m:
      kw['safety_threshold'] = m['safety']
    infos.append(vz.MetricInformation(
        m['name'], goal=getattr(vz.ObjectiveMetricGoal, m['goal']), **kw))
  return infos


def _label_tol(v, dtype):
  import numpy as np
  fi = np.finfo(dtype)
  return float(fi.eps) * abs(v) + float(fi.tiny)


def check_metrics(case):
  import numpy as np
  from vizier import pyvizier as vz
  from vizier.pyvizier.converters import core as vcore
  out = core.Out()
  infos = _metric_infos(case)
  dtype = np.dtype(case['dtype'])
  flip = case['flip']
  via = case['via']
  rows = case['rows']
  out.cls('via_' + via, 'dtype_' + case['dtype'],
          'flip_on' if flip else 'flip_off')
  any_missing = any(r is None or any(m['name'] not in r
                                     for m in case['metrics']) for r in rows)
  if any_missing:
    out.cls('missing_metric')
  for m in case['metrics']:
    out.cls('safety_metric' if 'safety' in m else 'objective_' + m['goal'])
    vals = {r[m['name']] for r in rows if r and m['name'] in r}
    if (m['goal'] == 'MINIMIZE' and flip and 'safety' not in m
        and len(vals) >= 2):
      out.nontrivial = True
      out.cls('flipped_minimize_objective')

  def meas(r):
    if r is None:
      return None
    return vz.Measurement(metrics={k: v for k, v in r.items()})

  def judge_back(m, i, orig, back, where, dt):
    """orig: value or None(missing); back: vz.Metric or None."""
    if orig is None:
      if back is not None:
        out.violate('labels/missing_became_value/' + where,
                    'metric %r row %d -> %r' % (m['name'], i, back))
      return
    if back is None:
      out.violate('labels/value_became_missing/' + where,
                  'metric %r row %d value %r' % (m['name'], i, orig))
      return
    if abs(back.value - orig) > _label_tol(orig, dt):
      out.violate('labels/roundtrip/%s/%s%s' % (
          where, m['goal'], '_flip' if flip else ''),
                  'metric %r row %d: %r -> %r' % (m['name'], i, orig,
                                                  back.value))

  if via == 'output':
    ms = [meas(r) for r in rows]
    for m, mi in zip(case['metrics'], infos):
      conv = vcore.DefaultModelOutputConverter(
          mi, flip_sign_for_minimization_metrics=flip,
          shift_safe_metrics=case['shift'], dtype=dtype,
          raise_errors_for_missing_metrics=case['raise_missing'])
      snap = [None if x is None else {k: v.value for k, v in x.metrics.items()}
              for x in ms]
      try:
        labels = conv.convert(ms)
      except (KeyError, AttributeError) as e:
        if case['raise_missing'] and any_missing:
          out.cls('raise_on_missing')  # documented: "If True, raise errors"
          continue
        out.violate('exception/convert/' + type(e).__name__, repr(e))
        continue
      except Exception as e:  # pylint: disable=broad-except
        out.violate('exception/convert/' + type(e).__name__, repr(e))
        continue
      if snap != [None if x is None else
                  {k: v.value for k, v in x.metrics.items()} for x in ms]:
        out.violate('mutation/convert/measurements', m['name'])
      if labels.shape != (len(rows), 1) or labels.dtype != dtype:
        out.violate('labels/shape', '%r %r' % (labels.shape, labels.dtype))
        continue
      origs = [None if (r is None or m['name'] not in r) else r[m['name']]
               for r in rows]
      safety = 'safety' in m
      if not safety:
        sign = -1.0 if (m['goal'] == 'MINIMIZE' and flip) else 1.0
        for i, o in enumerate(origs):
          l = float(labels[i, 0])
          if o is None:
            if not math.isnan(l):
              out.violate('labels/missing_not_nan', '%r' % l)
          elif abs(l - sign * o) > _label_tol(o, dtype):
            out.violate('labels/sign/%s%s' % (m['goal'],
                                              '_flip' if flip else ''),
                        'value %r -> label %r' % (o, l))
            break
        mi2 = conv.metric_information
        want_goal = 'MAXIMIZE' if sign < 0 else m['goal']
        if mi2.goal.name != want_goal or mi2.name != m['name']:
          out.violate('labels/metric_information_goal',
                      '%r flip=%r -> %r' % (m, flip, mi2))
      arr = labels[:, 0].copy() if case['oned'] else labels.copy()
      keep = arr.copy()
      try:
        back = list(conv.to_metrics(arr))
      except Exception as e:  # pylint: disable=broad-except
        out.violate('exception/to_metrics/' + type(e).__name__, repr(e))
        continue
      if not np.array_equal(arr, keep, equal_nan=True):
        out.violate('mutation/to_metrics/labels',
                    '%r safety=%r' % (m['name'], safety))
      if len(back) != len(rows):
        out.violate('labels/count', '%d != %d' % (len(back), len(rows)))
        continue
      if safety:
        continue
      for i, o in enumerate(origs):
        judge_back(m, i, o, back[i], 'to_metrics', dtype)
    return out

  # whole-converter label paths over a fixed two-parameter space
  from harness import c15_conv as cc
  spec = {'params': [
      {'name': 'x', 'kind': 'DOUBLE', 'lo': 0.0, 'hi': 2.0, 'scale': None},
      {'name': 'c', 'kind': 'CATEGORICAL', 'values': ['a', 'b']}]}
  problem = vz.ProblemStatement()
  spaces.build(spec, problem.search_space)
  for mi in infos:
    problem.metric_information.append(mi)
  conv = cc.effective({
      'cls': via, 'scale': True, 'onehot': False, 'pad_oovs': True, 'mdi': 0,
      'dtype': case['dtype'], 'clip': True, 'pad': case['pad'], 'flip': flip})
  ad = cc.Adapter(problem, conv)
  trials = []
  for i, r in enumerate(rows):
    t = vz.Trial(parameters={'x': (i % 3) * 1.0, 'c': 'ab'[i % 2]})
    if r is not None:
      t.complete(meas(r))
    trials.append(t)
  n = len(rows)
  try:
    labels = ad.c.to_labels(trials)
  except Exception as e:  # pylint: disable=broad-except
    out.violate('exception/to_labels/%s/%s' % (via, type(e).__name__),
                repr(e))
    return out
  if via == 'dict':
    cols = {k: np.asarray(v) for k, v in labels.items()}
    car = dtype
  else:
    if via in ('padded', 'model_input'):
      full = np.asarray(labels.padded_array)
      want = (cc.padded_dim(n, case['pad'][0]),
              cc.padded_dim(len(infos), case['pad'][2]))
      if tuple(full.shape) != want:
        out.violate('padding/labels_shape/' + via,
                    '%r expected %r' % (full.shape, want))
      arr = np.asarray(labels.unpad())
    else:
      arr = np.asarray(labels)
    car = np.dtype(arr.dtype)
    if tuple(arr.shape) != (n, len(infos)):
      out.violate('labels/array_shape/' + via, repr(arr.shape))
      return out
    cols = {m['name']: arr[:, j:j + 1] for j, m in enumerate(case['metrics'])}
  if car.kind != 'f':
    out.violate('labels/dtype/' + via, repr(car))
    return out
  for m in case['metrics']:
    if 'safety' in m:
      continue
    col = cols.get(m['name'])
    if col is None or col.shape != (n, 1):
      out.violate('labels/column/' + via, '%r %r' % (
          m['name'], None if col is None else col.shape))
      continue
    sign = -1.0 if (m['goal'] == 'MINIMIZE' and flip) else 1.0
    for i, r in enumerate(rows):
      l = float(col[i, 0])
      if r is None or m['name'] not in r:
        if not math.isnan(l):
          out.violate('labels/missing_not_nan/' + via, repr(l))
      elif abs(l - sign * r[m['name']]) > _label_tol(r[m['name']], car):
        out.violate('labels/sign/%s%s' % (m['goal'], '_flip' if flip else ''),
                    '%s: value %r -> label %r' % (via, r[m['name']], l))
        break
  # inverse where the class offers one
  back_trials = None
  try:
    if via == 'dict':
      feats = ad.c.to_features(trials)
      back_trials = ad.c.to_trials(feats, labels)
    elif via == 'model_input':
      back_trials = list(ad.c.to_trials(ad.c.to_xy(trials)))
    elif via == 'cc':
      f, l = ad.c.to_xy(trials)
      back_trials = list(ad.c.to_trials(f, l))
  except Exception as e:  # pylint: disable=broad-except
    out.violate('exception/to_trials/%s/%s' % (via, type(e).__name__),
                repr(e))
    return out
  if back_trials is not None:
    out.cls('to_trials_roundtrip')
    if len(back_trials) != n:
      out.violate('labels/to_trials_count/' + via,
                  '%d != %d' % (len(back_trials), n))
      return out
    for m in case['metrics']:
      if 'safety' in m:
        continue
      for i, r in enumerate(rows):
        o = None if (r is None or m['name'] not in r) else r[m['name']]
        fm = back_trials[i].final_measurement
        b = None if fm is None else fm.metrics.get(m['name'], None)
        judge_back(m, i, o, b, 'to_trials', car)
  return out


# ---------------------------------------------------------------------------

# ---------------------------------------------------------------------------
# ContinuousCategoricalFeatureMapper (feature_mapper.py): split one-hot features
# of a TrialToArrayConverter into continuous + categorical-index arrays and back
# ---------------------------------------------------------------------------
@st.composite
def feature_mapper_case(draw):
  spec = draw(spaces.flat_space(1, 6, degenerate=False))
  # the declaration order decides where one-hot blocks and continuous columns
  # interleave: draw it explicitly
  order = draw(st.permutations(list(range(len(spec['params'])))))
  spec = {'params': [spec['params'][i] for i in order]}
  pts = draw(st.lists(spaces.point_in(spec), min_size=1, max_size=4))
  return {'space': spec, 'points': pts,
          'mdi': draw(st.sampled_from([0, 10]))}


def feature_mapper_strategy():
  return feature_mapper_case()


def check_feature_mapper(case):
  import numpy as np
  from vizier import pyvizier as vz
  from vizier.pyvizier import converters
  from vizier.pyvizier.converters import feature_mapper
  out = core.Out()
  spec = case['space']
  problem = spaces.problem(spec)
  conv = converters.TrialToArrayConverter.from_study_config(
      problem, max_discrete_indices=case['mdi'])
  trials = [vz.Trial(parameters=p) for p in case['points']]
  feats = np.asarray(conv.to_features(trials))
  mapper = feature_mapper.ContinuousCategoricalFeatureMapper(conv)
  # independent expectation from the published output specs
  cont_cols, blocks = [], []
  col = 0
  for spec_ in conv.output_specs:
    if spec_.type == converters.NumpyArraySpecType.CONTINUOUS:
      cont_cols.append(col)
      col += 1
    else:
      blocks.append((col, spec_.num_dimensions))
      col += spec_.num_dimensions
  mapped = mapper.map(feats)
  cont = np.asarray(mapped.continuous)
  cat = np.asarray(mapped.categorical)
  want_cont = feats[:, cont_cols]
  if cont.shape != want_cont.shape or not np.allclose(cont, want_cont,
                                                       rtol=2e-6, atol=1e-6):
    out.violate('feature_mapper/map/continuous',
                'got %r want %r' % (cont.tolist(), want_cont.tolist()))
  want_cat = np.array([[int(np.argmax(feats[r, c0:c0 + w]))
                        for c0, w in blocks] for r in range(len(feats))],
                      dtype=int).reshape(len(feats), len(blocks))
  if cat.shape != want_cat.shape or not np.array_equal(cat, want_cat):
    out.violate('feature_mapper/map/categorical',
                'got %r want %r' % (cat.tolist(), want_cat.tolist()))
  back = np.asarray(mapper.unmap(mapped))
  # unmap() returns a jax array (float32 unless x64 is enabled)
  if back.shape != feats.shape or not np.allclose(back, feats, rtol=2e-6,
                                                   atol=1e-6):
    out.violate('feature_mapper/unmap_not_inverse',
                'features=%r unmap(map(.))=%r' % (feats.tolist(),
                                                  back.tolist()))
  else:
    decoded = conv.to_parameters(back)
    for d, p in zip(decoded, case['points']):
      got = spaces.param_values_to_py(d)
      if not spaces.member(spec, got):
        out.violate('feature_mapper/decode_not_member',
                    spaces.member_reason(spec, got))
  if blocks:
    out.cls('fm_has_onehot')
  if cont_cols:
    out.cls('fm_has_continuous')
  if blocks and cont_cols and blocks[0][0] < max(cont_cols):
    out.cls('fm_onehot_before_continuous')
  if len(blocks) >= 2:
    out.cls('fm_two_blocks')
  out.nontrivial = bool(blocks and cont_cols)
  return out


def families(tier):
  conv_classes = tuple('conv_' + c for c in (
      'dict', 'array', 'padded', 'cc', 'model_input', 'scaler'))
  common = conv_classes + (
      'mixed_kinds', 'scale_LOG', 'scale_REVERSE_LOG', 'continuified',
      'degenerate', 'integer_gt10', 'discrete_gt10', 'dtype_float32',
      'dtype_float64', 'mdi_0', 'mdi_10', 'mdi_inf', 'scale_on', 'scale_off',
      'clip_on', 'clip_off', 'onehot', 'pad_oovs_on', 'pad_oovs_off',
      'index_features', 'has_onehot_block', 'has_index_feature',
      'pad_features_MULTIPLES_OF_10', 'pad_features_POWERS_OF_2',
      'pad_trials_MULTIPLES_OF_10', 'pad_trials_POWERS_OF_2',
      'f32_bounds_clamped')
  return [
      core.Family('roundtrip', check_roundtrip, strategy=roundtrip_strategy,
                  budget={'quick': 1400, 'thorough': 45000},
                  shards={'quick': 8, 'thorough': 16},
                  required_classes=common),
      core.Family('decode', check_decode, strategy=decode_strategy,
                  budget={'quick': 1200, 'thorough': 40000},
                  shards={'quick': 8, 'thorough': 16},
                  required_classes=common + (
                      'has_offbeat_entry', 'entry_cont_out_of_range',
                      'entry_hot_oov_max', 'entry_hot_ties', 'entry_hot_flat',
                      'entry_hot_soft', 'entry_hot_neg', 'entry_index_oov',
                      'entry_index')),
      core.Family('metrics', check_metrics, strategy=metrics_strategy,
                  budget={'quick': 400, 'thorough': 15000},
                  shards={'quick': 4, 'thorough': 16},
                  required_classes=(
                      'via_output', 'via_dict', 'via_array', 'via_padded',
                      'via_cc', 'via_model_input', 'flip_on', 'flip_off',
                      'objective_MINIMIZE', 'objective_MAXIMIZE',
                      'safety_metric', 'missing_metric',
                      'flipped_minimize_objective', 'to_trials_roundtrip',
                      'dtype_float32', 'dtype_float64')),
      core.Family('feature_mapper', check_feature_mapper,
                  strategy=feature_mapper_strategy,
                  budget={'quick': 600, 'thorough': 15000},
                  shards={'quick': 4, 'thorough': 16},
                  required_classes=('fm_has_onehot', 'fm_has_continuous',
                                    'fm_onehot_before_continuous',
                                    'fm_two_blocks')),
  ]
