"""C16 Search-space definitions are validated; membership is decided correctly.

Families
  member             Hypothesis: flat space x assignment; the assignment is a
                     by-construction member (plain or in a coerced / boundary
                     representation) or a single-coordinate near miss (value
                     just outside, wrong type, non-finite, missing / extra /
                     renamed key).  SearchSpace.contains, assert_contains and
                     ParameterConfig.contains are compared with the
                     independent oracle harness/c16_oracle.py.
  member_exhaustive  enumeration: 30 small spaces (0-3 params, every kind,
                     degenerate / LOG / huge bounds), the full product of a
                     candidate pool per parameter (members, coerced members,
                     near misses, MISSING) x {no extra key, 2 extra keys}.
  builder            Hypothesis: one add_*_param / ParameterConfig.factory
                     call on a prepared space (root or a child subspace);
                     valid, invalid in one respect of the statement's list,
                     or an argument combination the statement is silent on.
  cond_contains      conditional spaces depth <= 3: contains / assert_contains
                     must raise NotImplementedError whatever the assignment;
                     spaces that only look conditional (a selected but empty
                     subspace) must be answered as flat.
  walk               SequentialParameterBuilder in dfs and bfs order with drawn
                     value choices and skip()s against an independent walk of
                     the JSON spec.
  add_trial          clients.Study.add_trial on a served study (RAM datastore)
                     with members / near misses / conditional spaces.
"""
import copy
import math
import traceback

from hypothesis import strategies as st

from harness import c16_oracle as orc
from harness import core

ID = 'C16'
LEVEL = 'exploration'
RULE = (
    'member: flat_space (1-5 params, all kinds/scales, hostile names) x an '
    'assignment derived from a by-construction member by 0-2 drawn edits; '
    'non-trivial = exactly one edit (single-coordinate near miss, or a member '
    'in a coerced/boundary representation: bool, integral float, int for '
    'double, bound itself). member_exhaustive: every assignment of the '
    'candidate product of 30 small spaces (all non-trivial). builder: one '
    'builder call; non-trivial = invalid in exactly one respect of the '
    'statement list (empty name, duplicate name in the target subspace, '
    'duplicate feasible values incl. 1 vs 1.0, non-finite bounds, reversed '
    'bounds, child under DOUBLE) and no other oddity. cond_contains: '
    'non-trivial = the space is conditional. walk: non-trivial = a chosen '
    'value activates a child subspace and at least one declared parameter '
    'stays inactive. add_trial: non-trivial = the sequence holds a member and '
    'a non-member, or the space is conditional. distinct = SHA-1 of the '
    'canonical JSON case.')
ASSUMPTIONS = [
    'type compatibility is the coercion table of DESIGN.md C16: bool == equal '
    'int for numeric kinds and "True"/"False" for CATEGORICAL/BOOL, integral '
    'float is an INTEGER value, int is a DOUBLE/DISCRETE value, strings are '
    'never numeric, numbers never categorical, NaN/inf in no domain',
    'ints that a double cannot represent exactly are not offered to '
    'DOUBLE/DISCRETE parameters (vizier compares float(v) != v); only 10**400 '
    '(outside every domain) is',
    '"rejected when built" = the builder call raises any exception; for a '
    'call aimed at one subspace the space must also be unchanged afterwards',
    'argument combinations outside the statement list (negative index, '
    'non-string categories, empty feasible list, mixed int/float factory '
    'bounds, bounds and feasible values together, non-finite feasible values, '
    'fractional int bounds, infeasible parent value, a name that exists in '
    'another subspace) are recorded as odd:* classes and only the normal form '
    'of a successfully built config is judged',
    'add_trial: what is stored for a coerced member (e.g. bool for a '
    'CATEGORICAL) is C17 territory and not judged here',
]

SCALE_NAMES = (None, 'LINEAR', 'LOG', 'REVERSE_LOG')


# ---------------------------------------------------------------------------
# shared helpers
# ---------------------------------------------------------------------------
def _site(e):
  """Innermost vizier function in the traceback of e (root-cause key)."""
  tb = traceback.extract_tb(e.__traceback__)
  for fr in reversed(tb):
    if '/vizier/' in fr.filename:
      return fr.name
  return 'harness'


def _exc_key(e):
  return '%s/%s' % (type(e).__name__, _site(e))


def _build(out, spec, into=None):
  """spaces.build for a by-construction valid spec; a refusal is a violation

  (valid definitions must be accepted), never a harness error."""
  from harness import spaces
  try:
    return spaces.build(spec, into)
  except Exception as e:  # pylint: disable=broad-except
    out.violate('build/valid_space_rejected/%s' % _exc_key(e),
                'building %r raised %r' % (spec, e))
    return None


def _pd(vz, pairs):
  pd = vz.ParameterDict()
  for n, v in pairs:
    pd[n] = v
  return pd


def _snap(pd):
  return [(k, type(v.value).__name__, repr(v.value)) for k, v in pd.items()]


def _kind_of(spec, name):
  for p in spec['params']:
    if p['name'] == name:
      return p['kind']
  return 'none'


def _first_bad(spec, assignment):
  """(kind, python type) of the first parameter whose value the oracle or the

  key check objects to - used for stable bucket names."""
  for p in spec['params']:
    if p['name'] in assignment and not orc.value_member(
        p, assignment[p['name']]):
      return p['kind'], type(assignment[p['name']]).__name__
  return 'keys', '-'


# ---------------------------------------------------------------------------
# assignments (strategy side)
# ---------------------------------------------------------------------------
def _extra_names(names):
  n0 = names[0]
  pool = ['zz', n0 + ' ', n0 + '[0]', n0.upper(), n0.lower(), '', n0 + n0]
  return [x for x in dict.fromkeys(pool) if x not in names]


@st.composite
def _edit(draw, spec, pairs, want):
  """Applies one edit to pairs (list of [name, value]); returns op record.

  want: 'member' (stay inside, alternative representation) or 'near'.
  """
  names = [p['name'] for p in spec['params']]
  if want == 'near':
    op = draw(st.sampled_from(['value'] * 5 + ['drop', 'extra', 'rename']))
  else:
    op = 'value'
  if op == 'value':
    p = draw(st.sampled_from(spec['params']))
    cands = orc.value_candidates(p)
    ok = [c for c in cands if orc.value_member(p, c[1]) == (want == 'member')]
    if not ok:
      ok = cands
    groups = {}
    for lab, val in ok:
      cl = orc.value_classes(p, lab, val)
      groups.setdefault(cl[0] if cl else 'other', []).append([lab, val])
    g = draw(st.sampled_from(sorted(groups)))
    label, v = draw(st.sampled_from(groups[g]))
    for pr in pairs:
      if pr[0] == p['name']:
        pr[1] = v
    return ['value', p['name'], label]
  if op == 'drop':
    n = draw(st.sampled_from(names))
    pairs[:] = [pr for pr in pairs if pr[0] != n]
    return ['drop', n, '']
  extra = draw(st.sampled_from(_extra_names(names)))
  if op == 'extra':
    v = draw(st.sampled_from([0, 0.5, 'a', 'True', True]))
    pairs.append([extra, v])
    return ['extra', extra, '']
  n = draw(st.sampled_from(names))
  for pr in pairs:
    if pr[0] == n:
      pr[0] = extra
  return ['rename', n, extra]


@st.composite
def _assignment(draw, spec):
  """-> (pairs, ops) for a flat spec."""
  from harness import spaces
  base = draw(spaces.point_in(spec))
  pairs = [[p['name'], base[p['name']]] for p in spec['params']]
  mode = draw(st.sampled_from(
      ['near', 'member', 'plain', 'near', 'member', 'two', 'near', 'member',
       'near', 'member']))
  ops = []
  if mode == 'member':
    ops.append(draw(_edit(spec, pairs, 'member')))
  elif mode == 'near':
    ops.append(draw(_edit(spec, pairs, 'near')))
  elif mode == 'two':
    ops.append(draw(_edit(spec, pairs, draw(st.sampled_from(
        ['member', 'near'])))))
    ops.append(draw(_edit(spec, pairs, 'near')))
  if len(pairs) > 1 and draw(st.booleans()):
    pairs = list(draw(st.permutations(pairs)))
    ops.append(['permute', '', ''])
  return [[n, orc.enc(v)] for n, v in pairs], ops


def member_strategy():
  from harness import spaces

  @st.composite
  def case(draw):
    spec = draw(spaces.flat_space(1, 5, hostile_names=draw(st.booleans())))
    pairs, ops = draw(_assignment(spec))
    return {'space': spec, 'assignment': pairs, 'ops': ops}
  return case()


# ---------------------------------------------------------------------------
# membership judgement shared by member / member_exhaustive / cond_contains
# ---------------------------------------------------------------------------
def _judge_flat(out, vz, space, spec, pairs, tag='member'):
  """Compares contains / assert_contains / per-parameter contains with the

  oracle for one assignment. Returns the oracle verdict."""
  from vizier._src.pyvizier.shared import parameter_config as pc_lib
  assignment = dict(pairs)
  why = orc.reason(spec, assignment)
  expected = why is None
  pd = _pd(vz, pairs)
  before = _snap(pd)
  got = None
  try:
    got = space.contains(pd)
  except Exception as e:  # pylint: disable=broad-except
    out.violate('%s/raises/%s' % (tag, _exc_key(e)),
                'contains(%r) raised %r; oracle: %s; space=%r' % (
                    pairs, e, why or 'member', spec))
  if got is not None and got is not True and got is not False:
    out.violate('%s/not_bool' % tag, 'contains -> %r' % (got,))
  elif got is not None and got != expected:
    kind, ty = _first_bad(spec, assignment)
    if expected:
      # which parameter does vizier object to?
      for p in spec['params']:
        try:
          if not space.get(p['name']).contains(assignment[p['name']]):
            kind, ty = p['kind'], type(assignment[p['name']]).__name__
            break
        except Exception:  # pylint: disable=broad-except
          pass
      out.violate('%s/rejects_member/%s/%s' % (tag, kind, ty),
                  'contains(%r) is False but the assignment is a member of '
                  '%r' % (pairs, spec))
    else:
      out.violate('%s/accepts_nonmember/%s' % (tag, why),
                  'contains(%r) is True; oracle: %s; space=%r' % (
                      pairs, why, spec))
  # assert_contains: True or InvalidParameterError
  try:
    r = space.assert_contains(pd)
    if not expected and got is False:
      out.violate('%s/assert_contains_disagrees/accepts' % tag,
                  'assert_contains(%r) returned %r, contains False' % (
                      pairs, r))
    elif expected and r is not True:
      out.violate('%s/assert_contains_return' % tag, repr(r))
  except pc_lib.InvalidParameterError as e:
    if not isinstance(e, ValueError):
      out.violate('%s/invalid_parameter_error_not_valueerror' % tag, repr(e))
    if expected and got is True:
      out.violate('%s/assert_contains_disagrees/rejects' % tag,
                  'assert_contains(%r) raised %r, contains True' % (pairs, e))
  except Exception as e:  # pylint: disable=broad-except
    if got is not None:  # otherwise already reported above
      out.violate('%s/assert_contains_raises/%s' % (tag, _exc_key(e)),
                  '%r -> %r' % (pairs, e))
  if _snap(pd) != before:
    out.violate('%s/mutates_input' % tag, '%r -> %r' % (before, _snap(pd)))
  return expected, why


def _judge_params(out, vz, space, spec, pairs):
  """ParameterConfig.contains(raw) and contains(ParameterValue(raw))."""
  assignment = dict(pairs)
  for p in spec['params']:
    if p['name'] not in assignment:
      continue
    v = assignment[p['name']]
    exp = orc.value_member(p, v)
    cfg = space.get(p['name'])
    for form, arg in (('raw', v), ('wrapped', None)):
      try:
        if form == 'wrapped':
          arg = vz.ParameterValue(v)
        got = cfg.contains(arg)
      except Exception as e:  # pylint: disable=broad-except
        out.violate('param/raises/%s' % _exc_key(e),
                    '%s.contains(%r) [%s] raised %r; param=%r' % (
                        p['kind'], v, form, e, p))
        continue
      if got != exp:
        out.violate('param/%s/%s/%s' % (
            'rejects_member' if exp else 'accepts_nonmember', p['kind'],
            type(v).__name__),
                    'ParameterConfig.contains(%r) [%s] = %r, oracle %r (%s); '
                    'param=%r' % (v, form, got, exp,
                                  orc.value_reason(p, v), p))


def check_member(case):
  from harness import spaces
  from vizier import pyvizier as vz
  out = core.Out()
  spec = case['space']
  pairs = [[n, orc.dec(v)] for n, v in case['assignment']]
  space = _build(out, spec)
  if space is None:
    return out
  expected, why = _judge_flat(out, vz, space, spec, pairs)
  _judge_params(out, vz, space, spec, pairs)
  ops = case.get('ops', [])
  edits = [o for o in ops if o[0] != 'permute']
  out.nontrivial = len(edits) == 1
  out.cls('member' if expected else 'nonmember')
  if not expected:
    out.cls('why:' + why)
  for o in edits:
    out.cls('op:' + o[0])
    if o[0] == 'value':
      p = [q for q in spec['params'] if q['name'] == o[1]][0]
      v = dict(pairs).get(o[1])
      out.cls(*orc.value_classes(p, o[2], v))
  if len(edits) == 1:
    out.cls('single_edit_member' if expected else 'single_edit_near_miss')
  if any(o[0] == 'permute' for o in ops):
    out.cls('order_permuted')
  out.cls(*spaces.classes_of(spec))
  if any(p['name'] in spaces.HOSTILE_NAMES for p in spec['params']):
    out.cls('hostile_name')
  return out


# ---------------------------------------------------------------------------
# exhaustive small spaces
# ---------------------------------------------------------------------------
CHUNK = 3000


def enum_small(tier):
  cases = []
  for i, spec in enumerate(orc.small_spaces()):
    n = orc.exhaustive_size(spec)
    for a in range(0, n, CHUNK):
      cases.append({'space': spec, 'start': a, 'stop': min(n, a + CHUNK)})
  return cases


def check_exhaustive(case):
  from harness import spaces
  from vizier import pyvizier as vz
  out = core.Out()
  spec = case['space']
  space = _build(out, spec)
  if space is None:
    return out
  n_mem = n_non = 0
  for idx in range(case['start'], case['stop']):
    pairs = orc.exhaustive_assignment(spec, idx)
    if idx % 2:
      pairs = pairs[::-1]
    nv = len(out.violations)
    expected, _ = _judge_flat(out, vz, space, spec, pairs, tag='member')
    if len(spec['params']) <= 1:
      _judge_params(out, vz, space, spec, pairs)
    for v in out.violations[nv:]:
      v['detail'] = ('idx=%d ' % idx) + v['detail']
    if expected:
      n_mem += 1
    else:
      n_non += 1
    if len(out.violations) > 40:
      break
  out.nontrivial = True
  out.notes['assignments'] = case['stop'] - case['start']
  if n_mem:
    out.cls('has_members')
  if n_non:
    out.cls('has_nonmembers')
  out.cls('params_%d' % len(spec['params']))
  out.cls(*['kind_' + k for k in spaces.kinds_of(spec)])
  return out


# ---------------------------------------------------------------------------
# builders
# ---------------------------------------------------------------------------
ROOT_POOL = ['x', 'y', 'z', 'n', 'x[0]', 'lr[2]']
CHILD_POOL = ['k', 'm[0]', 'q']
FRESH_POOL = ['w', 'v', 'u', 'x', 'k', 'y', 'lr']
CATS = ['a', 'b', 'c', 'True', 'False', '', '0', 'é', 'a:b', 'B', '1.0']
NONFINITE = [float('nan'), float('inf'), float('-inf')]
INTENTS = (['valid'] * 6 + ['empty_name', 'dup_name', 'dup_name', 'dup_values',
                            'dup_values', 'nonfinite', 'nonfinite', 'reversed',
                            'reversed', 'child_double', 'child_double'] +
           ['odd'] * 4 + ['two'])
ODD = ['neg_index', 'nonstring_category', 'empty_values', 'mixed_bounds',
       'bounds_and_values', 'nonfinite_values', 'frac_int_bound',
       'infeasible_parent', 'empty_name_with_index', 'neither',
       'nonfinite_values', 'nonfinite_values']


def _split_index(name):
  if name.endswith(']') and '[' in name:
    b, i = name[:-1].rsplit('[', 1)
    if i.isdigit():
      return b, int(i)
  return name, None


@st.composite
def _numbers(draw, n):
  if draw(st.booleans()):
    vals = draw(st.lists(st.integers(-20, 200), min_size=n, max_size=n,
                         unique=True))
    k = draw(st.integers(0, 2))
    if k == 1:
      vals = [float(v) for v in vals]
    elif k == 2:
      vals = [float(v) if i % 2 else v for i, v in enumerate(vals)]
    return vals
  vals = draw(st.lists(
      st.floats(-100, 1e4, allow_nan=False).map(lambda v: round(v, 3)),
      min_size=n, max_size=n, unique=True))
  return vals


@st.composite
def builder_case(draw):
  from harness import spaces
  nb = draw(st.integers(1, 3))
  names = draw(st.lists(st.sampled_from(ROOT_POOL), min_size=nb, max_size=nb,
                        unique=True))
  params = []
  for nm in names:
    p = draw(spaces.param_spec(nm, defaults=False))
    pv = spaces.parent_values_of(p)
    if pv and draw(st.integers(0, 2)) == 0:
      sel = draw(st.lists(st.sampled_from(pv), min_size=1,
                          max_size=min(2, len(pv)), unique=True))
      cn = draw(st.sampled_from(CHILD_POOL))
      p['children'] = [{'parent_values': sel, 'params': [
          draw(spaces.param_spec(cn, defaults=False))]}]
    params.append(p)
  base = {'params': params}
  intents = [draw(st.sampled_from(INTENTS))]
  if intents[0] == 'two':
    intents = draw(st.lists(st.sampled_from(
        ['empty_name', 'dup_name', 'dup_values', 'nonfinite', 'reversed']),
        min_size=2, max_size=2, unique=True))
  odd = draw(st.sampled_from(ODD)) if intents[0] == 'odd' else None

  # ------------------------------------------------------------- function
  fns = ['float', 'int', 'discrete', 'categorical', 'bool', 'factory']
  if 'dup_values' in intents:
    fns = ['discrete', 'categorical', 'bool', 'factory']
  if 'nonfinite' in intents or 'reversed' in intents:
    fns = [f for f in fns if f in ('float', 'int', 'factory')] or ['float']
  if odd in ('nonstring_category',):
    fns = ['categorical']
  if odd in ('mixed_bounds', 'bounds_and_values', 'neither'):
    fns = ['factory']
  if odd == 'nonfinite_values':
    fns = ['discrete', 'factory']
  if odd == 'empty_values':
    fns = ['discrete', 'categorical']
  if odd == 'frac_int_bound':
    fns = ['int']
  if odd in ('neg_index', 'empty_name_with_index'):
    fns = ['float', 'int', 'discrete', 'categorical', 'bool']
  if len(fns) == 6:
    fns = fns + ['factory', 'discrete', 'categorical']
  fn = draw(st.sampled_from(fns))

  # --------------------------------------------------------------- target
  target = None
  tmode = draw(st.sampled_from(['root'] * 5 + ['child'] * 4))
  if 'child_double' in intents:
    tmode = 'child_double' if (fn != 'factory' or draw(st.booleans())) \
        else 'factory_children'
  if odd == 'infeasible_parent':
    tmode = 'child_infeasible'
  if tmode in ('child', 'child_infeasible'):
    elig = [p for p in params if spaces.parent_values_of(p)]
    if elig:
      par = draw(st.sampled_from(elig))
      pv = spaces.parent_values_of(par)
      if tmode == 'child':
        vals = draw(st.lists(st.sampled_from(pv), min_size=1,
                             max_size=min(2, len(pv)), unique=True))
        if par['kind'] == 'BOOL' and draw(st.booleans()):
          vals = ['True' if v else 'False' for v in vals]
        elif par['kind'] == 'INTEGER' and draw(st.integers(0, 3)) == 0:
          vals = [float(v) for v in vals]
      else:
        vals = [{'INTEGER': par.get('hi', 0) + 1, 'BOOL': 'maybe',
                 'CATEGORICAL': 'nope'}.get(par['kind'], 12345.5)]
      target = {'parent': par['name'], 'values': vals,
                'via': draw(st.sampled_from(['select', 'select_values']))}
  elif tmode == 'child_double':
    dbl = [p for p in params if p['kind'] == 'DOUBLE']
    if not dbl:
      dbl = [{'name': params[0]['name'], 'kind': 'DOUBLE', 'lo': 0.0,
              'hi': 1.0, 'scale': None}]
      params[0] = dbl[0]
    par = draw(st.sampled_from(dbl))
    target = {'parent': par['name'],
              'values': [draw(st.sampled_from([par['lo'], par['hi'],
                                               par['lo'] / 2 + par['hi'] / 2]))],
              'via': draw(st.sampled_from(['select', 'select_values']))}

  # ----------------------------------------------------------------- name
  name = draw(st.sampled_from(FRESH_POOL))
  index = draw(st.sampled_from([None, None, None, 0, 1, 3]))
  if 'dup_name' in intents:
    existing, _ = orc.subspace_names(base, target)
    flat = [n for ns in existing for n in ns]
    if flat:
      full = draw(st.sampled_from(flat))
      name, index = (full, None) if draw(st.booleans()) else _split_index(full)
  if 'empty_name' in intents:
    name, index = '', None
  if odd == 'empty_name_with_index':
    name, index = '', 0
  if odd == 'neg_index':
    index = draw(st.sampled_from([-1, -3]))
  if fn == 'factory':
    if index is not None:
      name, index = '%s[%d]' % (name, index), None
  call = {'fn': fn, 'name': name, 'index': index}

  # ------------------------------------------------------------ arguments
  scale = draw(st.sampled_from(SCALE_NAMES))
  positive = scale in ('LOG', 'REVERSE_LOG')

  def bounds_float():
    lo, hi = draw(spaces.double_bounds(positive=positive))
    if 'reversed' in intents and lo == hi:
      hi = lo + 1.0
    if lo == math.floor(lo) and hi == math.floor(hi) and abs(hi) < 1e6 \
        and abs(lo) < 1e6 and fn == 'float' and draw(st.booleans()):
      lo, hi = int(lo), int(hi)
    return lo, hi

  def bounds_int():
    lo = draw(st.integers(1, 50)) if positive else draw(
        st.sampled_from([0, 1, -3, -100, 7, 10 ** 6]))
    width = draw(st.sampled_from([0, 1, 2, 5, 10, 1000]))
    if 'reversed' in intents and width == 0:
      width = 1
    return lo, lo + width

  def damage(lo, hi, as_float):
    if 'nonfinite' in intents:
      bad = draw(st.sampled_from(NONFINITE))
      which = draw(st.integers(0, 2))
      if which == 0:
        lo = bad
      elif which == 1:
        hi = bad
      else:
        lo, hi = float('-inf'), float('inf')
      if as_float:
        lo, hi = float(lo), float(hi)
    if 'reversed' in intents and not (
        orc._nonfinite(lo) or orc._nonfinite(hi)):
      lo, hi = hi, lo
    return lo, hi

  def default_of(choices):
    return draw(st.sampled_from([None, None] + list(choices)))

  if fn == 'float':
    lo, hi = bounds_float()
    dflt = default_of([lo, hi, float(lo) / 2 + float(hi) / 2])
    lo, hi = damage(lo, hi, False)
    call.update(lo=lo, hi=hi, scale=scale, default=dflt)
  elif fn == 'int':
    lo, hi = bounds_int()
    dflt = default_of([lo, hi])
    lo, hi = damage(lo, hi, False)
    if odd == 'frac_int_bound':
      hi = hi + 0.5
    call.update(lo=lo, hi=hi, scale=scale, default=dflt)
  elif fn in ('discrete', 'categorical') or (
      fn == 'factory' and (
          'dup_values' in intents or odd == 'nonfinite_values' or (
              not ({'nonfinite', 'reversed'} & set(intents))
              and odd not in ('mixed_bounds', 'neither')
              and draw(st.booleans())))):
    numeric = fn == 'discrete' or (fn == 'factory' and (
        odd == 'nonfinite_values' or draw(st.booleans())))
    n = draw(st.integers(1, 6))
    if numeric:
      vals = draw(_numbers(n))
      if positive:
        vals = [abs(v) + 1 for v in vals]
        vals = list(dict.fromkeys(vals))
    else:
      vals = draw(st.lists(st.sampled_from(CATS), min_size=n, max_size=n,
                           unique=True))
    dflt = default_of(vals)
    if 'dup_values' in intents:
      v = draw(st.sampled_from(vals))
      twin = v
      if numeric and v == math.floor(v) and draw(st.integers(0, 2)) > 0:
        twin = float(v) if isinstance(v, int) else int(v)
      vals.insert(draw(st.integers(0, len(vals))), twin)
    if odd == 'nonfinite_values':
      # anywhere, also between two finite values (sorted() leaves a NaN where
      # it stands)
      while len(vals) < 2:
        vals.append(max(vals) + 1)
      vals.insert(draw(st.sampled_from([1, 1, 0, len(vals)] + list(range(
          len(vals) + 1)))), draw(st.sampled_from(NONFINITE + NONFINITE[:1])))
    if odd == 'empty_values':
      vals, dflt = [], None
    if odd == 'nonstring_category':
      vals.insert(draw(st.integers(0, len(vals))),
                  draw(st.sampled_from([1, 2.5, True])))
    call.update(values=vals, default=dflt,
                as_tuple=draw(st.booleans()))
    if fn == 'discrete':
      call.update(scale=scale, auto_cast=draw(st.booleans()))
    elif fn == 'factory':
      call.update(bounds=None, scale=scale if numeric else None)
      if odd == 'bounds_and_values':
        call['bounds'] = [0, 3]
    else:
      call.update(scale=None)
  elif fn == 'bool':
    bv = draw(st.sampled_from([None, None, [True, False], [False, True],
                               [True], [False]]))
    dflt = default_of(bv if bv else [True, False])
    if 'dup_values' in intents:
      bv = draw(st.sampled_from([[True, True], [False, False],
                                 [True, False, True], [False, True, True]]))
    call.update(bool_values=bv, default=dflt)
  else:  # factory with bounds
    if draw(st.booleans()):
      lo, hi = bounds_float()
      lo, hi = float(lo), float(hi)
      dflt = default_of([lo, hi])
      lo, hi = damage(lo, hi, True)
    else:
      lo, hi = bounds_int()
      dflt = default_of([lo, hi])
      lo, hi = damage(lo, hi, False)
    if odd == 'mixed_bounds':
      lo, hi = (float(lo), int(hi)) if draw(st.booleans()) else (
          int(lo), float(hi))
    call.update(bounds=[lo, hi], values=None, scale=scale, default=dflt)
    if odd == 'neither':
      call.update(bounds=None, default=None)
  if fn == 'factory':
    call['children'] = None
    kind = orc.factory_kind(call)
    if tmode == 'factory_children':
      call.update(bounds=[0.0, 1.0], values=None, default=None)
      call['children'] = {'values': [draw(st.sampled_from([0.0, 0.5, 1.0]))],
                          'child': {'name': 'cc', 'bounds': [0, 3]}}
    elif kind in ('INTEGER', 'DISCRETE', 'CATEGORICAL') and not (
        set(intents) - {'valid'}) and odd is None and draw(st.booleans()):
      me = orc.factory_spec(call, kind)
      pv = spaces.parent_values_of(me)
      cv = draw(st.lists(st.sampled_from(pv), min_size=1,
                         max_size=min(2, len(pv)), unique=True))
      call['children'] = {'values': cv,
                          'child': {'name': 'cc', 'bounds': [0, 3]}}
  return {'base': base, 'target': target, 'call': call,
          'intent': intents + ([odd] if odd else [])}


def _enc_call(call):
  c = dict(call)
  for k in ('lo', 'hi'):
    if k in c:
      c[k] = orc.enc(c[k])
  for k in ('bounds', 'values'):
    if c.get(k) is not None:
      c[k] = [orc.enc(v) for v in c[k]]
  return c


def _dec_call(call):
  c = dict(call)
  for k in ('lo', 'hi'):
    if k in c:
      c[k] = orc.dec(c[k])
  for k in ('bounds', 'values'):
    if c.get(k) is not None:
      c[k] = [orc.dec(v) for v in c[k]]
  return c


def builder_strategy():
  def fin(case):
    case = dict(case)
    case['call'] = _enc_call(case['call'])
    return case
  return builder_case().map(fin)


def _structure(space):
  """Names per (sub)space, recursively, ignoring empty subspaces."""
  d = {}
  for pc in space.parameters:
    subs = {}
    for v, sub in pc.subspaces():
      if sub.parameters:
        subs[repr(v)] = _structure(sub)
    d[pc.name] = (pc.type.name, subs)
  return d


def _scale(vz, s):
  return None if s is None else getattr(vz.ScaleType, s)


def _do_call(vz, space, target, call):
  """Executes the builder call; returns the list of created configs."""
  fn = call['fn']
  if fn == 'factory':
    kw = {}
    if call.get('bounds') is not None:
      kw['bounds'] = tuple(call['bounds'])
    if call.get('values') is not None:
      kw['feasible_values'] = (tuple(call['values']) if call.get('as_tuple')
                               else list(call['values']))
    if call.get('scale') is not None:
      kw['scale_type'] = _scale(vz, call['scale'])
    if call.get('default') is not None:
      kw['default_value'] = call['default']
    if call.get('children'):
      ch = call['children']
      child = vz.ParameterConfig.factory(
          ch['child']['name'], bounds=tuple(ch['child']['bounds']))
      kw['children'] = [(list(ch['values']), child)]
    pc = vz.ParameterConfig.factory(call['name'], **kw)
    if target is None:
      return [space.add(pc)]
    added = []
    parent = space.get(target['parent'])
    for v in target['values']:
      added.append(parent.subspace(v).add(copy.deepcopy(pc)))
    return added
  sel = space.root
  if target is not None:
    if target['via'] == 'select':
      sel = sel.select(target['parent'], list(target['values']))
    else:
      sel = sel.select(target['parent']).select_values(
          list(target['values']))
  kw = {}
  if call.get('index') is not None:
    kw['index'] = call['index']
  if call.get('default') is not None:
    kw['default_value'] = call['default']
  if fn in ('float', 'int', 'discrete') and call.get('scale') is not None:
    kw['scale_type'] = _scale(vz, call['scale'])
  if fn == 'float':
    r = sel.add_float_param(call['name'], call['lo'], call['hi'], **kw)
  elif fn == 'int':
    r = sel.add_int_param(call['name'], call['lo'], call['hi'], **kw)
  elif fn == 'discrete':
    vals = tuple(call['values']) if call.get('as_tuple') else list(
        call['values'])
    r = sel.add_discrete_param(call['name'], vals,
                               auto_cast=call.get('auto_cast', True), **kw)
  elif fn == 'categorical':
    vals = tuple(call['values']) if call.get('as_tuple') else list(
        call['values'])
    r = sel.add_categorical_param(call['name'], vals, **kw)
  elif fn == 'bool':
    if call.get('bool_values') is not None:
      r = sel.add_bool_param(call['name'], list(call['bool_values']), **kw)
    else:
      r = sel.add_bool_param(call['name'], **kw)
  else:
    raise ValueError(fn)
  return list(r)


def _normal_form(out, vz, pc, fn):
  """Clauses every successfully built config must satisfy."""
  t = pc.type.name
  if t in ('DOUBLE', 'INTEGER', 'DISCRETE'):
    lo, hi = pc.bounds
    if not (math.isfinite(lo) and math.isfinite(hi)):
      out.violate('builder/normal_form/bounds_not_finite/' + fn,
                  '%r' % (pc.bounds,))
    elif not lo <= hi:
      out.violate('builder/normal_form/bounds_not_ordered/' + fn,
                  '%r' % (pc.bounds,))
  if t in ('DISCRETE', 'CATEGORICAL'):
    fv = list(pc.feasible_values)
    if not all(a < b for a, b in zip(fv, fv[1:])):
      out.violate('builder/normal_form/feasible_not_sorted_unique/' + fn,
                  '%r' % (fv,))
    if t == 'DISCRETE' and not all(
        isinstance(v, (int, float)) and math.isfinite(v) for v in fv):
      out.violate('builder/normal_form/feasible_not_finite/' + fn,
                  '%r' % (fv,))


def _expect_built(out, vz, pc, call, fname):
  """Full comparison for a valid call without oddities."""
  fn = call['fn']
  t = pc.type.name
  if pc.name != fname:
    out.violate('builder/built/name/' + fn, '%r != %r' % (pc.name, fname))
  if fn == 'factory':
    kind = orc.factory_kind(call)
  else:
    kind = {'float': 'DOUBLE', 'int': 'INTEGER', 'discrete': 'DISCRETE',
            'categorical': 'CATEGORICAL', 'bool': 'CATEGORICAL'}[fn]
  if kind is not None and t != kind:
    out.violate('builder/built/type/%s/%s' % (fn, kind),
                'inferred %s for %r' % (t, call))
    return
  spec = None
  if fn in ('float', 'int') or (fn == 'factory' and kind in ('DOUBLE',
                                                             'INTEGER')):
    lo, hi = (call['lo'], call['hi']) if fn != 'factory' else call['bounds']
    want = (float(lo), float(hi)) if kind == 'DOUBLE' else (int(lo), int(hi))
    got = pc.bounds
    if tuple(got) != want or [type(x) for x in got] != [type(x) for x in want]:
      out.violate('builder/built/bounds/' + fn, '%r != %r' % (got, want))
    spec = {'name': fname, 'kind': kind, 'lo': want[0], 'hi': want[1]}
  elif kind in ('DISCRETE', 'CATEGORICAL') and fn != 'bool':
    vals = list(call['values'])
    fv = list(pc.feasible_values)
    if len(fv) != len(vals) or not all(
        a == b for a, b in zip(fv, sorted(vals))):
      out.violate('builder/built/feasible_values/' + fn,
                  '%r from %r' % (fv, vals))
    if kind == 'DISCRETE':
      want = (min(vals), max(vals))
      if tuple(pc.bounds) != want:
        out.violate('builder/built/bounds/' + fn,
                    '%r != %r' % (pc.bounds, want))
    spec = {'name': fname, 'kind': kind, 'values': sorted(vals)}
  elif fn == 'bool':
    bv = call.get('bool_values')
    want = sorted('True' if b else 'False' for b in (
        bv if bv is not None else [True, False]))
    if list(pc.feasible_values) != want:
      out.violate('builder/built/feasible_values/bool',
                  '%r != %r' % (pc.feasible_values, want))
    if pc.external_type != vz.ExternalType.BOOLEAN:
      out.violate('builder/built/external_type/bool', repr(pc.external_type))
    spec = {'name': fname, 'kind': 'CATEGORICAL', 'values': want}
  if fn == 'discrete':
    integral = all(v == round(v) for v in call['values'])
    want = (vz.ExternalType.INTEGER if (call.get('auto_cast', True) and
                                        integral) else vz.ExternalType.FLOAT)
    if pc.external_type != want:
      out.violate('builder/built/external_type/discrete',
                  '%r != %r for %r' % (pc.external_type, want, call))
  # default value
  d = call.get('default')
  if d is None:
    if pc.default_value is not None:
      out.violate('builder/built/default/' + fn,
                  'unexpected default %r' % (pc.default_value,))
  else:
    if fn == 'bool':
      want = 'True' if d else 'False'
    elif kind in ('DOUBLE', 'DISCRETE'):
      want = float(d)
    else:
      want = d
    if pc.default_value != want or type(pc.default_value) is not type(want):
      out.violate('builder/built/default/' + fn,
                  '%r != %r' % (pc.default_value, want))
  # scale type, when given
  if call.get('scale') is not None and fn in ('float', 'int', 'discrete',
                                              'factory'):
    if pc.scale_type != _scale(vz, call['scale']):
      out.violate('builder/built/scale/' + fn,
                  '%r != %s' % (pc.scale_type, call['scale']))
  # the built config decides membership of its own domain correctly
  if spec is not None:
    for label, v in orc.value_candidates(spec, huge=False):
      exp = orc.value_member(spec, v)
      try:
        got = pc.contains(v)
      except OverflowError:
        continue  # the known inf-on-INTEGER defect is judged in `member`
      except Exception as e:  # pylint: disable=broad-except
        out.violate('builder/built/domain_raises/%s' % _exc_key(e),
                    '%r contains(%r): %r' % (spec, v, e))
        continue
      if got != exp:
        out.violate('builder/built/domain/%s/%s' % (kind, label),
                    'built %r: contains(%r) = %r, oracle %r' % (
                        spec, v, got, exp))


def check_builder(case):
  from harness import spaces
  from vizier import pyvizier as vz
  out = core.Out()
  base, target = case['base'], case['target']
  call = _dec_call(case['call'])
  fn = call['fn']
  invalid, odd = orc.builder_verdict(base, target, call)
  space = _build(out, base)
  if space is None:
    return out
  before = _structure(space)
  raised = None
  pcs = None
  try:
    pcs = _do_call(vz, space, target, call)
  except Exception as e:  # pylint: disable=broad-except
    raised = e
  after = _structure(space)
  ntargets = 1 if target is None else len(target['values'])
  if invalid:
    if raised is None:
      for r in sorted(invalid):
        out.violate('builder/invalid_accepted/%s/%s' % (r, fn),
                    'call %r on target %r of %r was accepted' % (
                        call, target, base))
    elif ntargets == 1 and after != before:
      out.violate('builder/rejected_but_changed/%s/%s' % (
          sorted(invalid)[0], fn),
                  'raised %r yet the space changed: %r -> %r' % (
                      raised, before, after))
  elif not odd:
    if raised is not None:
      out.violate('builder/valid_rejected/%s/%s' % (fn, _exc_key(raised)),
                  'call %r on target %r of %r raised %r' % (
                      call, target, base, raised))
  if raised is None:
    if len(pcs) != ntargets:
      out.violate('builder/built/count/' + fn,
                  '%d configs for %d subspaces' % (len(pcs), ntargets))
    for pc in pcs:
      _normal_form(out, vz, pc, fn)
    if not invalid and not odd:
      fname = orc.final_name(call)
      for pc in pcs:
        _expect_built(out, vz, pc, call, fname)
      # the new name is in every targeted subspace, nothing else moved
      want = copy.deepcopy(before)
      kind_name = pcs[0].type.name if pcs else '?'
      entry = (kind_name, {})
      ch = call.get('children')
      if ch:
        entry = (kind_name, {})
        for pc in pcs[:1]:
          subs = {}
          for v, sub in pc.subspaces():
            if sub.parameters:
              subs[repr(v)] = _structure(sub)
          entry = (kind_name, subs)
          got_vals = sorted(subs)
          exp_vals = sorted(repr(x) for x in _cast_values(pc, ch['values']))
          if got_vals != exp_vals or any(
              list(s) != ['cc'] for s in subs.values()):
            out.violate('builder/built/children/factory',
                        '%r for %r' % (subs, ch))
      if target is None:
        want[fname] = entry
      else:
        parent = space.get(target['parent'])
        for v in _cast_values(parent, target['values']):
          want[target['parent']][1].setdefault(repr(v), {})[fname] = entry
      if after != want:
        out.violate('builder/built/space_structure/' + fn,
                    'after %r, expected %r' % (after, want))
  # classes
  out.cls('fn:' + fn)
  out.cls('target:root' if target is None else 'target:child')
  if ntargets > 1:
    out.cls('target:multi')
  for r in sorted(invalid):
    out.cls('invalid:' + r)
  for r in sorted(odd):
    out.cls('odd:' + r)
    out.cls('odd:%s:%s' % (r, 'raised' if raised is not None else 'accepted'))
  if not invalid and not odd:
    out.cls('valid')
    if call.get('children'):
      out.cls('valid_factory_children')
    if fn in ('discrete', 'categorical', 'factory') and call.get('values') \
        and list(call['values']) != sorted(call['values']):
      out.cls('valid_unsorted_values')
  if raised is not None:
    out.cls('raised:' + type(raised).__name__)
  if 'dup_values' in invalid and call.get('values') and any(
      type(a) is not type(b) and a == b
      for i, a in enumerate(call['values'])
      for b in call['values'][i + 1:]):
    out.cls('dup_values_int_vs_float')
  out.nontrivial = len(invalid) == 1 and not odd
  return out


def _cast_values(pc, values):
  """Keys under which vizier files the subspaces of parent config pc.

  Uses only the documented internal types: INTEGER->int, DISCRETE->float,
  CATEGORICAL->str ('True'/'False' for bools)."""
  t = pc.type.name
  res = []
  for v in values:
    if t == 'INTEGER':
      res.append(int(v))
    elif t == 'DISCRETE':
      res.append(float(v))
    elif isinstance(v, bool):
      res.append('True' if v else 'False')
    else:
      res.append(v)
  return res


# ---------------------------------------------------------------------------
# conditional spaces: contains is refused
# ---------------------------------------------------------------------------
def _all_params(params):
  for p in params:
    yield p
    for ch in p.get('children', ()):
      yield from _all_params(ch['params'])


@st.composite
def _cond_space(draw, max_depth=3):
  """spaces.conditional_space, made conditional by construction."""
  from harness import spaces
  spec = draw(spaces.conditional_space(max_depth=max_depth))
  if spaces.is_conditional(spec):
    return spec
  child = {'parent_values': None, 'params': [
      draw(spaces.param_spec('q1', defaults=False))]}
  elig = [p for p in spec['params'] if spaces.parent_values_of(p)]
  if elig:
    p = draw(st.sampled_from(elig))
  else:
    p = {'name': 'q0', 'kind': 'CATEGORICAL', 'values': ['a', 'b']}
    spec['params'].insert(draw(st.integers(0, len(spec['params']))), p)
  pv = spaces.parent_values_of(p)
  child['parent_values'] = draw(st.lists(
      st.sampled_from(pv), min_size=1, max_size=min(2, len(pv)), unique=True))
  p['children'] = [child]
  return spec


def cond_strategy():
  from harness import spaces

  @st.composite
  def case(draw):
    if draw(st.sampled_from([True, False, False, False])):
      spec = draw(spaces.flat_space(1, 4, defaults=False))
      elig = [p for p in spec['params'] if spaces.parent_values_of(p)]
      touch = None
      if elig:
        p = draw(st.sampled_from(elig))
        v = draw(st.sampled_from(spaces.parent_values_of(p)))
        if p['kind'] == 'BOOL':
          v = 'True' if v else 'False'
        touch = [p['name'], v]
      pairs, ops = draw(_assignment(spec))
      return {'space': spec, 'touch': touch, 'assignment': pairs,
              'mode': 'flat'}
    spec = draw(_cond_space(max_depth=3))
    mode = draw(st.sampled_from(['active', 'active', 'all', 'empty', 'near']))
    if mode == 'empty':
      pairs = []
    elif mode == 'all':
      pairs = [[p['name'], draw(spaces.value_in(p))]
               for p in _all_params(spec['params'])]
    else:
      pt = draw(spaces.point_in(spec))
      pairs = [[k, v] for k, v in pt.items()]
      if mode == 'near' and pairs:
        i = draw(st.integers(0, len(pairs) - 1))
        if draw(st.booleans()):
          del pairs[i]
        else:
          pairs[i][1] = draw(st.sampled_from(['nope', -12345.5, True]))
    return {'space': spec, 'touch': None,
            'staged': draw(st.booleans()),
            'assignment': [[n, orc.enc(v)] for n, v in pairs], 'mode': mode}
  return case()


def _build_staged(out, spec):
  """Builds the top level first, queries it while it is still flat, then
  attaches the children through selectors on the same object (the order in
  which a user grows a conditional space)."""
  from harness import spaces
  from vizier import pyvizier as vz
  try:
    space = vz.SearchSpace()
    for p in spec['params']:
      spaces.add_param(vz, space.root, p)
    # membership / conditionality asked while the space is still flat
    _ = space.is_conditional
    try:
      space.contains(vz.ParameterDict())
    except NotImplementedError:
      out.violate('cond/flat_stage_refused',
                  'contains() raised NotImplementedError on a flat space')

    def rec(selector, params):
      for p in params:
        for ch in p.get('children', ()):
          pvals = ch['parent_values']
          if p['kind'] == 'BOOL':
            pvals = ['True' if v else 'False' for v in pvals]
          sub = selector.select(p['name'], pvals)
          for c in ch['params']:
            spaces.add_param(vz, sub, c)
          rec(sub, ch['params'])
    rec(space.root, spec['params'])
    return space
  except Exception as e:  # pylint: disable=broad-except
    out.violate('build/valid_space_rejected/staged/%s' % _exc_key(e),
                'staged building of %r raised %r' % (spec, e))
    return None


def check_cond(case):
  from harness import spaces
  from vizier import pyvizier as vz
  out = core.Out()
  spec = case['space']
  pairs = [[n, orc.dec(v)] for n, v in case['assignment']]
  if case.get('staged') and spaces.is_conditional(spec):
    space = _build_staged(out, spec)
    out.cls('staged_build')
  else:
    space = _build(out, spec)
  if space is None:
    return out
  if case.get('touch'):
    try:
      space.root.select(case['touch'][0], [case['touch'][1]])
    except Exception as e:  # pylint: disable=broad-except
      out.violate('build/valid_select_rejected/%s' % _exc_key(e),
                  'select(%r) on %r raised %r' % (case['touch'], spec, e))
      return out
    out.cls('empty_subspace_selected')
  if not spaces.is_conditional(spec):
    expected, _ = _judge_flat(out, vz, space, spec, pairs, tag='flatlike')
    out.cls('flat', 'member' if expected else 'nonmember')
    out.nontrivial = bool(case.get('touch'))
    return out
  pd = _pd(vz, pairs)
  for meth in ('contains', 'assert_contains'):
    try:
      r = getattr(space, meth)(pd)
      out.violate('cond/answered/' + meth,
                  '%s(%r) -> %r on conditional space %r' % (
                      meth, pairs, r, spec))
    except NotImplementedError:
      pass
    except Exception as e:  # pylint: disable=broad-except
      out.violate('cond/raises/%s/%s' % (meth, _exc_key(e)),
                  '%s(%r) raised %r on conditional space %r' % (
                      meth, pairs, e, spec))
  out.nontrivial = True
  out.cls('conditional', 'assignment:' + case['mode'])
  depth = _depth(spec['params'])
  out.cls('depth_%d' % depth)
  if not any(p.get('children') for p in spec['params'][:1]):
    out.cls('first_param_childless')
  return out


def _depth(params):
  d = 1
  for p in params:
    for ch in p.get('children', ()):
      d = max(d, 1 + _depth(ch['params']))
  return d


# ---------------------------------------------------------------------------
# SequentialParameterBuilder
# ---------------------------------------------------------------------------
def walk_strategy():
  from harness import spaces

  @st.composite
  def case(draw):
    spec = draw(_cond_space(max_depth=3))
    choices = {}

    def rec(params):
      for p in params:
        kids = p.get('children', [])
        r = draw(st.integers(0, 9))
        if r == 0:
          choices[p['name']] = ['skip']
        else:
          if kids and r <= 7:
            pool = [v for ch in kids for v in ch['parent_values']]
            v = draw(st.sampled_from(pool))
            if p['kind'] == 'BOOL':
              v = 'True' if v else 'False'
          else:
            v = draw(spaces.value_in(p))
          alt = draw(st.integers(0, 2))
          if alt == 0:
            if p['kind'] == 'INTEGER':
              v = bool(v) if v in (0, 1) and draw(st.booleans()) else float(v)
            elif p['kind'] == 'DISCRETE' and v == math.floor(v):
              v = float(v) if isinstance(v, int) else int(v)
            elif p['kind'] in ('BOOL', 'CATEGORICAL') and v in ('True',
                                                                'False'):
              v = v == 'True'
          choices[p['name']] = ['val', v]
        for ch in kids:
          rec(ch['params'])
    rec(spec['params'])
    return {'space': spec, 'choices': choices}
  return case()


def _model_walk(spec, order, choices):
  queue = list(spec['params'])
  visited, chosen, activated = [], {}, 0
  while queue:
    p = queue.pop(0)
    visited.append(p['name'])
    ch = choices[p['name']]
    if ch[0] == 'skip':
      continue
    v = ch[1]
    chosen[p['name']] = v
    kids = []
    for grp in p.get('children', ()):
      if any(orc.pv_eq(p, v, pv) for pv in grp['parent_values']):
        kids += grp['params']
    if kids:
      activated += 1
    queue = kids + queue if order == 'dfs' else queue + kids
  return visited, chosen, activated


def _walk_once(out, pi, space, spec, order, choices, kinds):
  exp_visited, exp_chosen, activated = _model_walk(spec, order, choices)
  nv = len(out.violations)
  visited = []
  limit = 4 * len(kinds) + 4
  got_params = None
  try:
    builder = pi.SequentialParameterBuilder(space, traverse_order=order)
    for pc in builder:
      visited.append(pc.name)
      if len(visited) > limit:
        out.violate('walk/nonterminating/' + order, repr(visited[:20]))
        break
      ch = choices.get(pc.name)
      if ch is None:
        out.violate('walk/unknown_parameter/' + order, repr(pc.name))
        break
      want_type = {'DOUBLE': 'DOUBLE', 'INTEGER': 'INTEGER',
                   'DISCRETE': 'DISCRETE', 'CATEGORICAL': 'CATEGORICAL',
                   'BOOL': 'CATEGORICAL'}[kinds[pc.name]]
      if pc.type.name != want_type:
        out.violate('walk/wrong_config/' + order,
                    '%s yielded as %s' % (pc.name, pc.type.name))
      if ch[0] == 'skip':
        builder.skip()
      else:
        builder.choose_value(ch[1])
    got_params = builder.parameters
  except Exception as e:  # pylint: disable=broad-except
    out.violate('walk/raises/%s/%s' % (order, _exc_key(e)),
                'visited %r then %r; choices=%r' % (visited, e, choices))
  if len(out.violations) == nv:
    if sorted(visited) != sorted(exp_visited):
      missing = [n for n in exp_visited if n not in visited]
      extra = [n for n in visited if n not in exp_visited]
      kind = 'missing' if missing else 'extra' if extra else 'repeated'
      out.violate('walk/visited_set/%s/%s' % (kind, order),
                  'visited %r, active %r' % (visited, exp_visited))
    elif visited != exp_visited:
      out.violate('walk/order/' + order,
                  'visited %r, expected %r' % (visited, exp_visited))
    got = {k: v.value for k, v in got_params.items()}
    if set(got) != set(exp_chosen) or any(
        got[k] != exp_chosen[k] or type(got[k]) is not type(exp_chosen[k])
        for k in got):
      out.violate('walk/parameters/' + order,
                  'built %r, chosen %r' % (got, exp_chosen))
  return exp_visited, activated


def check_walk(case):
  from harness import spaces
  from vizier._src.pyvizier.shared import parameter_iterators as pi
  out = core.Out()
  spec, choices = case['space'], case['choices']
  space = _build(out, spec)
  if space is None:
    return out
  before = _structure(space)
  kinds = {p['name']: p['kind'] for p in _all_params(spec['params'])}
  orders = [case['order']] if case.get('order') else ['dfs', 'bfs']
  for order in orders:
    exp_visited, activated = _walk_once(out, pi, space, spec, order, choices,
                                        kinds)
    if _structure(space) != before:
      out.violate('walk/mutates_space/' + order, '')
      break
    out.cls(order)
  inactive = len(kinds) - len(exp_visited)
  out.nontrivial = activated > 0 and inactive > 0
  if activated:
    out.cls('activates_child')
  if inactive:
    out.cls('inactive_present')
  skipped = [n for n in exp_visited if choices[n][0] == 'skip']
  if skipped:
    out.cls('skip_used')
  by_name = {p['name']: p for p in _all_params(spec['params'])}
  if any(by_name[n].get('children') for n in skipped):
    out.cls('skip_parent_with_children')
  if any(isinstance(c[1], bool) for c in choices.values() if c[0] == 'val'):
    out.cls('bool_choice')
  d = _depth(spec['params'])
  out.cls('depth_%d' % d)
  top = {p['name'] for p in spec['params']}
  lvl2 = {q['name'] for p in spec['params'] for ch in p.get('children', ())
          for q in ch['params']}
  if any(n not in top and n not in lvl2 for n in exp_visited):
    out.cls('reached_depth_3')
  return out


# ---------------------------------------------------------------------------
# clients.Study.add_trial
# ---------------------------------------------------------------------------
def add_trial_strategy():
  from harness import spaces

  @st.composite
  def case(draw):
    if draw(st.sampled_from([True, False, False, False])):
      spec = draw(_cond_space(max_depth=2))
      trials = []
      for _ in range(draw(st.integers(1, 2))):
        pt = draw(spaces.point_in(spec))
        trials.append([[k, v] for k, v in pt.items()])
      return {'space': spec, 'trials': trials}
    spec = draw(spaces.flat_space(1, 4, hostile_names=draw(st.booleans())))
    trials = []
    for _ in range(draw(st.integers(1, 4))):
      pairs, _ = draw(_assignment(spec))
      trials.append(pairs)
    # the trial object's own status must not matter for the membership check
    return {'space': spec, 'trials': trials,
            # add through a second handle obtained with from_study_config and
            # a DIFFERENT (wider) config: the stored study's space decides
            'second_handle': draw(st.sampled_from([False, False, True])),
            'status': draw(st.lists(st.sampled_from(
                ['active', 'requested', 'completed']), min_size=4,
                                    max_size=4))}
  return case()


_CASES = [0]


def check_add_trial(case):
  from harness import spaces
  from harness import svc
  from vizier import pyvizier as vz
  from vizier.service import pyvizier as svz
  from vizier._src.service import clients, vizier_client
  out = core.Out()
  spec = case['space']
  conditional = spaces.is_conditional(spec)
  sc = svz.StudyConfig(algorithm='RANDOM_SEARCH')
  if _build(out, spec, sc.search_space) is None:
    return out
  sc.metric_information.append(vz.MetricInformation(
      'm', goal=vz.ObjectiveMetricGoal.MAXIMIZE))
  s = svc.make_servicer('ram')
  try:
    if case.get('second_handle') and not conditional:
      # the implicit in-process service, as a user gets it
      from vizier._src.service import constants
      import copy as _copy
      env = clients.environment_variables
      env.server_endpoint = constants.NO_ENDPOINT
      env.servicer_kwargs = {'database_url': None}
      vizier_client._create_local_vizier_servicer.cache_clear()  # pylint: disable=protected-access
      _CASES[0] += 1
      owner = 'c16-%d' % _CASES[0]
      first = clients.Study.from_study_config(sc, owner=owner, study_id='s')
      wide = _copy.deepcopy(spec)
      for p in wide['params']:
        if p['kind'] in ('DOUBLE', 'INTEGER') and p.get('scale') not in (
            'LOG', 'REVERSE_LOG'):
          p['lo'], p['hi'] = p['lo'] - 1000000, p['hi'] + 1000000
          p.pop('default', None)
        if p['kind'] == 'CATEGORICAL':
          p['values'] = sorted(set(p['values']) | {'nope', 'zzz', 'other'})
      sc2 = svz.StudyConfig(algorithm='RANDOM_SEARCH')
      if _build(out, wide, sc2.search_space) is None:
        return out
      sc2.metric_information.append(vz.MetricInformation(
          'm', goal=vz.ObjectiveMetricGoal.MAXIMIZE))
      study = clients.Study.from_study_config(sc2, owner=owner, study_id='s')
      out.cls('second_handle_with_wider_config')
      del first
    else:
      st_ = svc.create_study(s, 'o', 's', config=sc)
      client = vizier_client.VizierClient(st_.name, 'w', s)
      study = clients.Study(client)
    stored = 0
    n_mem = n_non = 0
    for ti, pairs in enumerate(case['trials']):
      pairs = [[n, orc.dec(v)] for n, v in pairs]
      assignment = dict(pairs)
      why = None if conditional else orc.reason(spec, assignment)
      trial = vz.Trial(parameters=_pd(vz, pairs))
      status = (case.get('status') or ['active'] * 4)[ti % 4]
      if status == 'requested':
        trial.is_requested = True
      elif status == 'completed':
        trial.complete(vz.Measurement({'m': 1.0}))
      out.cls('trial_status_' + status)
      err = None
      res = None
      try:
        res = study.add_trial(trial)
      except Exception as e:  # pylint: disable=broad-except
        err = e
      now = len(list(study.trials().get()))
      if conditional:
        if not isinstance(err, NotImplementedError):
          out.violate('add_trial/conditional_not_refused/%s' % (
              'accepted' if err is None else _exc_key(err)),
                      'add_trial(%r) -> %r' % (pairs, err))
        if now != stored:
          out.violate('add_trial/stored_on_refusal/conditional', repr(pairs))
          stored = now
        continue
      if why is None:
        n_mem += 1
        if err is not None:
          kind, ty = 'keys', '-'
          out.violate('add_trial/member_refused/%s' % _exc_key(err),
                      'add_trial(%r) raised %r; space=%r' % (
                          pairs, err, spec))
        else:
          if now != stored + 1:
            out.violate('add_trial/member_not_stored',
                        '%d -> %d trials after %r' % (stored, now, pairs))
          plain = all(not isinstance(v, bool) for _, v in pairs)
          if plain and res is not None:
            got = res.materialize().parameters.as_dict()
            if set(got) != set(assignment) or any(
                got[k] != assignment[k] for k in got):
              out.violate('add_trial/stored_parameters_differ',
                          'stored %r for %r' % (got, pairs))
      else:
        n_non += 1
        if err is None:
          out.violate('add_trial/nonmember_accepted/' + why,
                      'add_trial(%r) accepted; space=%r' % (pairs, spec))
        elif not isinstance(err, ValueError):
          out.violate('add_trial/raises/%s' % _exc_key(err),
                      'add_trial(%r) raised %r (not a ValueError); oracle: '
                      '%s' % (pairs, err, why))
        if now != stored and err is not None:
          out.violate('add_trial/stored_on_refusal/' + why, repr(pairs))
      stored = now
    out.nontrivial = conditional or (n_mem > 0 and n_non > 0)
    out.cls('conditional' if conditional else 'flat')
    if n_mem:
      out.cls('has_member')
    if n_non:
      out.cls('has_nonmember')
    if not conditional:
      out.cls(*spaces.classes_of(spec))
  finally:
    svc.close_servicer(s)
  return out


# ---------------------------------------------------------------------------
def families(tier):
  return [
      core.Family(
          'member', check_member, strategy=member_strategy,
          budget={'quick': 6000, 'thorough': 150000},
          shards={'quick': 8, 'thorough': 16},
          required_classes=(
              'member', 'nonmember', 'single_edit_member',
              'single_edit_near_miss', 'op:drop', 'op:extra', 'op:rename',
              'op:value', 'bool_value', 'integral_float_for_integer',
              'non_integral_float_for_integer',
              'int_for_float', 'nonfinite_value', 'str_for_numeric',
              'number_for_categorical', 'boundary_inside', 'boundary_outside',
              'kind_DOUBLE', 'kind_INTEGER', 'kind_DISCRETE',
              'kind_CATEGORICAL', 'kind_BOOL', 'order_permuted',
              'hostile_name', 'degenerate')),
      core.Family(
          'member_exhaustive', check_exhaustive, enumerate=enum_small,
          shards={'quick': 8, 'thorough': 8},
          required_classes=('has_members', 'has_nonmembers', 'params_0',
                            'params_1', 'params_2', 'params_3')),
      core.Family(
          'builder', check_builder, strategy=builder_strategy,
          budget={'quick': 3000, 'thorough': 60000},
          shards={'quick': 8, 'thorough': 16},
          required_classes=(
              'valid', 'invalid:empty_name', 'invalid:dup_name',
              'invalid:dup_values', 'invalid:nonfinite_bounds',
              'invalid:reversed_bounds', 'invalid:child_under_double',
              'dup_values_int_vs_float', 'fn:float', 'fn:int', 'fn:discrete',
              'fn:categorical', 'fn:bool', 'fn:factory', 'target:child',
              'target:multi', 'valid_factory_children',
              'valid_unsorted_values')),
      core.Family(
          'cond_contains', check_cond, strategy=cond_strategy,
          budget={'quick': 1200, 'thorough': 15000},
          shards={'quick': 4, 'thorough': 8},
          required_classes=('conditional', 'flat', 'empty_subspace_selected',
                            'staged_build',
                            'depth_2', 'depth_3', 'first_param_childless')),
      core.Family(
          'walk', check_walk, strategy=walk_strategy,
          budget={'quick': 2000, 'thorough': 30000},
          shards={'quick': 8, 'thorough': 16},
          required_classes=('dfs', 'bfs', 'activates_child',
                            'inactive_present', 'skip_used',
                            'skip_parent_with_children', 'reached_depth_3',
                            'bool_choice')),
      core.Family(
          'add_trial', check_add_trial, strategy=add_trial_strategy,
          budget={'quick': 1000, 'thorough': 15000},
          shards={'quick': 8, 'thorough': 16},
          required_classes=('flat', 'conditional', 'has_member',
                            'has_nonmember')),
  ]
