"""C12 Algorithms get each completed trial exactly once, and all active trials.

Families (one per host of DESIGN.md C12)
  service        real VizierServicer (RAM / in-memory SQL / SQLite file with
                 servicer restarts); the policy is rebuilt on every request by
                 PythiaServicer through a harness PolicyFactory that returns
                 PartiallySerializableDesignerPolicy or DesignerPolicy around
                 the recording designer (harness/c12_rec.py).
  service_alive  the same real servicer, but the PolicyFactory keeps ONE
                 PartiallySerializableDesignerPolicy (and the
                 ServicePolicySupporter it was built with) alive per study and
                 re-uses it for every request; dropped on rebuild_policy /
                 lose_state / servicer restart.
  inram_alive    InRamPolicySupporter + InRamDesignerPolicy kept alive (the
                 benchmark host, PolicySuggester.from_designer_factory).
  inram_rebuilt  InRamPolicySupporter + PartiallySerializableDesignerPolicy,
                 re-created on a rule, state restored from study metadata.

Every trial carries a unique token parameter, so a re-used trial id is still
a different trial for the oracle.  The oracle is evaluated inside every
Designer.update() against the ground truth of that moment (service: the
datastore's trial protos; in-RAM: the driver's bookkeeping).
"""
from harness import core

ID = 'C12'
LEVEL = 'exploration'
RULE = ('Hypothesis op lists (8..40 ops): suggest(worker,n) / complete '
        '(feasible|infeasible, any open trial) / add completed trial / request '
        '/ delete one trial or the newest k trials (service) or replace an '
        'ACTIVE trial by id (in-RAM, the only documented removal) / stop / lose_state (clear or make undecodable '
        'the cache part, the designer part or all of the stored policy state) '
        '/ restart (SQLite file: new servicer) / rebuild_policy (in-RAM); the '
        'recording designer over- or under-delivers by a drawn amount. '
        'non-trivial = a trial is completed while a trial with a smaller id '
        'is still open AND a trial is deleted (in-RAM: replaced or added '
        'externally) AND the policy/designer object is rebuilt at least once '
        'after that (inram_alive: >=3 updates instead, it is never rebuilt). '
        'distinct = SHA-1 of the canonical JSON case.')
ASSUMPTIONS = [
    'the datastore trial protos (state, parameters, final measurement) read '
    'inside Designer.update are the ground truth of "that moment" on the '
    'service host; on the in-RAM hosts it is the driver\'s own record of what '
    'it did to each trial (cross-checked against Trial.status)',
    'the recording designer persists the tokens it received through '
    'dump()/load(); losing state = removing or overwriting (with a value that '
    'is not JSON) the stored keys, through datastore.update_study / the '
    'UpdateMetadata RPC / the in-RAM study_config.metadata',
    'InRamPolicySupporter documents that trials are never removed: no delete '
    'rule on the in-RAM hosts (AddTrials replacing an ACTIVE id is used)',
]

# Known finding (pinned/C12/*.json): IdDeduplicatingTrialLoader dedups by id
# and short-cuts on len(ids)==max_trial_id.  It needs a deletion; cases are
# not stopped by it (each withheld trial is reported once), so the generator
# does not avoid the trigger; the share of cases that hit it is measured in
# class `known_trial_cache_hit`.
KNOWN_TRIAL_CACHE = True

ROOT = 'designer_policy_v0'
CACHE_KEY = 'incorporated_completed_trials_ids'
LOSE_KINDS = ['clear_all', 'clear_cache', 'clear_designer', 'corrupt_all',
              'corrupt_cache', 'corrupt_designer']


# ----------------------------------------------------------------- strategies
def _weighted(st, table):
  idx = [i for i, (k, _) in enumerate(table) for _ in range(k)]
  return st.sampled_from(idx).flatmap(lambda i: table[i][1]).map(list)


def service_strategy(policies=('ps', 'ps', 'ps', 'dp')):
  from hypothesis import strategies as st
  worker = st.sampled_from(['w1', 'w1', 'w2', 'w3', 'new', 'new'])
  ref = st.integers(0, 7)

  def ops(backend, policy):
    table = [
        (8, st.tuples(st.just('suggest'), worker, st.integers(1, 3))),
        (8, st.tuples(st.just('complete'), ref, st.sampled_from(
            [False, False, False, True]))),
        # CreateTrial keeps only SUCCEEDED: the flag is unused on this host
        (2, st.tuples(st.just('add_completed'), st.booleans())),
        (2, st.tuples(st.just('request'))),
        (2, st.tuples(st.just('delete'), st.one_of(st.just('max'), ref))),
        (3, st.tuples(st.just('delete_tail'), st.sampled_from(
            [1, 2, 2, 3, 3, 4, 5, 6]))),
        (2, st.tuples(st.just('stop'), ref)),
    ]
    if policy in ('ps', 'ka'):
      table.append((2, st.tuples(st.just('lose_state'),
                                 st.sampled_from(LOSE_KINDS))))
    if policy == 'ka':
      table.append((2, st.tuples(st.just('rebuild_policy'))))
    if backend == 'sqlfile':
      table.append((2, st.tuples(st.just('restart'))))
    return st.lists(_weighted(st, table), min_size=8, max_size=40)

  return st.tuples(
      st.sampled_from(['ram', 'ram', 'sqlmem', 'sqlmem', 'sqlfile']),
      st.sampled_from(list(policies))).flatmap(
          lambda bp: st.fixed_dictionaries({
              'backend': st.just(bp[0]), 'policy': st.just(bp[1]),
              'deliveries': st.lists(st.sampled_from(
                  [0, 0, 0, 0, 1, 2, -1]), min_size=10, max_size=10),
              'ops': ops(*bp)}))


def service_alive_strategy():
  return service_strategy(policies=('ka',))


def inram_strategy(rebuilt):
  def make():
    from hypothesis import strategies as st
    ref = st.integers(0, 7)
    table = [
        (8, st.tuples(st.just('suggest'), st.integers(1, 3))),
        (8, st.tuples(st.just('complete'), ref, st.sampled_from(
            [False, False, False, True]))),
        (2, st.tuples(st.just('add_completed'), st.booleans())),
        (1, st.tuples(st.just('add_active'))),
        (2, st.tuples(st.just('request'))),
        (3, st.tuples(st.just('replace'), ref, st.sampled_from(
            ['active', 'completed', 'infeasible']))),
        (2, st.tuples(st.just('stop'), ref)),
    ]
    if rebuilt:
      table.append((5, st.tuples(st.just('rebuild_policy'))))
      table.append((2, st.tuples(st.just('lose_state'),
                                 st.sampled_from(LOSE_KINDS))))
    return st.fixed_dictionaries({
        'deliveries': st.lists(st.sampled_from([0, 0, 0, 0, 1, 2, -1]),
                               min_size=10, max_size=10),
        'ops': st.lists(_weighted(st, table), min_size=8, max_size=40)})
  return make


# ------------------------------------------------------------ shared helpers
class _Scratch:
  """Per-case directory for the SQLite file (tmpfs when there is one: the
  fsyncs of a disk file cost ~1 s per case)."""

  def __init__(self):
    self.dir = None

  def path(self, name):
    import os
    import tempfile
    if self.dir is None:
      base = '/dev/shm' if os.path.isdir('/dev/shm') and os.access(
          '/dev/shm', os.W_OK) else None
      self.dir = tempfile.mkdtemp(prefix='verif-c12-', dir=base)
    return os.path.join(self.dir, name)

  def close(self):
    if self.dir is not None:
      import shutil
      shutil.rmtree(self.dir, ignore_errors=True)
      self.dir = None


class _Flags:
  """History facts used by the non-triviality rule and the classes."""

  def __init__(self):
    self.out_of_order = False
    self.removed = False  # delete / replace / externally added
    self.rebuilt_after = False  # policy (or designer) rebuilt after both
    self.armed = False

  def arm(self):
    if self.out_of_order and self.removed:
      self.armed = True


def _reuses_given_id(rec, ts):
  """Would the next CreateTrial get an id that was given to the algorithm
  and that no update since could have seen to be free?"""
  nxt = (int(ts[-1].id) if ts else 0) + 1
  return nxt in rec.epoch_ids and nxt not in rec.prunable_ids


def _finish(out, rec, flags, min_updates=2):
  if rec.known_hits:
    out.cls('known_trial_cache_hit')
    for h in sorted(rec.known_hits):
      out.cls('known_' + h)
  if rec.seen_stopping:
    out.cls('update_while_stopping_trial')
  if rec.seen_requested:
    out.cls('update_while_requested_trial')
  if rec.seen_fresh_after_loss:
    out.cls('restart_from_lost_state')
  if flags.out_of_order:
    out.cls('out_of_order_completion')
  if flags.removed:
    out.cls('removed_or_external_trial')
  out.count('updates', rec.updates)
  out.nontrivial = bool(flags.rebuilt_after and rec.updates >= min_updates)


# --------------------------------------------------------------- service host
def check_service(case):
  from harness import svc
  from harness import c12_rec as R
  from vizier import pythia
  from vizier import pyvizier as vz
  from vizier._src.algorithms.policies import designer_policy as dp
  from vizier._src.service import key_value_pb2
  vsp = svc.vsp
  TS = svc.TS
  out = core.Out()
  policy = case['policy']
  host = 'service_' + policy
  rec = R.Recorder(out, host, incremental=(policy != 'dp'),
                   deliveries=case['deliveries'])
  factory = R.make_factory(rec)
  kept = {}  # study name -> policy object kept alive ('ka')

  class Factory(pythia.PolicyFactory):
    """ps/dp: a new policy per request (what the service does by default);
    ka: one policy object (with the supporter it was built with) per study,
    re-used for every request until the driver drops it."""

    def __call__(self, problem_statement, algorithm, policy_supporter,
                 study_name):
      if policy == 'dp':
        return dp.DesignerPolicy(policy_supporter, factory)
      if policy == 'ka' and study_name in kept:
        out.cls('kept_policy_reused')
        return kept[study_name]
      pol = dp.PartiallySerializableDesignerPolicy(
          problem_statement, policy_supporter, factory)
      if policy == 'ka':
        kept[study_name] = pol
      return pol

  tmp = _Scratch()
  backend = case['backend']
  dbpath = tmp.path('c12.db') if backend == 'sqlfile' else None
  s = svc.make_servicer(backend, policy_factory=Factory(), dbpath=dbpath)
  flags = _Flags()
  box = {'s': s}
  try:
    cfg = R.study_config()
    sname = svc.create_study(s, 'o', 's', config=cfg).name

    def trials():
      return sorted(box['s'].datastore.list_trials(sname),
                    key=lambda t: int(t.id))

    def tok(t):
      for p in t.parameters:
        if p.parameter_id == R.TOK:
          return int(p.value.number_value)
      raise AssertionError('trial without token: %s' % t)

    def truth():
      d = {}
      for t in trials():
        if t.state in (TS.SUCCEEDED, TS.INFEASIBLE):
          state = 'COMPLETED'
        else:
          state = TS.Name(t.state)
        val = None
        for m in t.final_measurement.metrics:
          if m.metric_id == 'm':
            val = m.value
        k = tok(t)
        if k in d:
          raise AssertionError('harness: token %d twice in the study' % k)
        d[k] = R.Truth(int(t.id), state, t.state == TS.INFEASIBLE, val)
      return d
    rec.truth_fn = truth

    def tname(t):
      return svc.trial_name('o', 's', int(t.id))

    def new_trial_proto(k):
      return svc.params_to_trial_proto({R.TOK: k, 'x': (k * 0.37) % 10.0})

    def suggest(worker, n):
      """Returns False when the case cannot go on."""
      before = rec.updates
      try:
        o = box['s'].SuggestTrials(vsp.SuggestTrialsRequest(
            parent=sname, suggestion_count=n, client_id=worker))
      except Exception as e:  # pylint: disable=broad-except
        rec.raise_harness_error()
        out.violate('suggest_raised/%s/%s' % (host, type(e).__name__), repr(e))
        return False
      rec.raise_harness_error()
      if not o.done or o.HasField('error'):
        out.violate('suggest_failed/%s' % host, str(o)[:800])
        return False
      if rec.updates > before:
        out.cls('pythia_invoked')
        if flags.armed:
          flags.rebuilt_after = True
        rec.md_lost = False  # a fresh dump has been stored (ps)
      return True

    n_new = 0
    alive = True
    for op in case['ops']:
      kind = op[0]
      ts = trials()
      if kind == 'suggest':
        w = op[1]
        if w == 'new':
          n_new += 1
          w = 'n%d' % n_new
        if any(t.state == TS.REQUESTED for t in ts):
          out.cls('requested_pool_nonempty_at_suggest')
        if not suggest(w, op[2]):
          alive = False
          break
      elif kind == 'complete':
        open_ = [t for t in ts if t.state in (TS.ACTIVE, TS.STOPPING)]
        if not open_:
          continue
        t = open_[op[1] % len(open_)]
        if any(int(u.id) < int(t.id) for u in open_):
          flags.out_of_order = True
        k = tok(t)
        req = vsp.CompleteTrialRequest(name=tname(t))
        if op[2]:
          req.trial_infeasible = True
          req.infeasible_reason = 'harness'
          out.cls('infeasible_completion')
        else:
          req.final_measurement.CopyFrom(svc.measurement(R.value_of(k)))
        box['s'].CompleteTrial(req)
      elif (kind in ('add_completed', 'request') and policy == 'ka'
            and KNOWN_TRIAL_CACHE and _reuses_given_id(rec, ts)):
        # known finding missed/service_ps/id_reused_after_delete (the cache
        # dedups by id): not re-reported for this host, the trigger - a
        # CreateTrial that is handed an id already given to the algorithm, with
        # no request in between at which the loader could forget it - is
        # avoided instead.
        out.cls('avoided_known_id_reuse')
        continue
      elif kind == 'add_completed':
        k = rec.new_token()
        t = new_trial_proto(k)
        t.state = TS.SUCCEEDED
        t.final_measurement.CopyFrom(svc.measurement(R.value_of(k)))
        box['s'].CreateTrial(vsp.CreateTrialRequest(parent=sname, trial=t))
        out.cls('external_completed_trial')
      elif kind == 'request':
        k = rec.new_token()
        box['s'].CreateTrial(vsp.CreateTrialRequest(
            parent=sname, trial=new_trial_proto(k)))
      elif kind in ('delete', 'delete_tail'):
        if not ts:
          continue
        if kind == 'delete_tail':  # discard the newest k trials
          victims = ts[-op[1]:][::-1]
        else:
          victims = [ts[-1] if op[1] == 'max' else ts[op[1] % len(ts)]]
        for t in victims:
          if t is ts[-1]:
            out.cls('delete_max_id')
          if tok(t) in rec.epoch:
            out.cls('delete_already_given_trial')
            if t is ts[-1] or kind == 'delete_tail':
              out.cls('delete_given_trial_at_tail')
          box['s'].DeleteTrial(vsp.DeleteTrialRequest(name=tname(t)))
        rec.deleted_any = True
        flags.removed = True
        out.cls('delete')
      elif kind == 'stop':
        act = [t for t in ts if t.state == TS.ACTIVE]
        if not act:
          continue
        box['s'].StopTrial(vsp.StopTrialRequest(
            name=tname(act[op[1] % len(act)])))
      elif kind == 'lose_state':
        lk = op[1]
        how, part = lk.split('_')
        targets = []
        if part in ('all', 'cache'):
          targets.append(((ROOT, 'cache'), CACHE_KEY))
        if part in ('all', 'designer'):
          targets.append(((ROOT, 'designer'), R.KEY))
        if how == 'corrupt':
          req = vsp.UpdateMetadataRequest(name=sname)
          for ns, key in targets:
            u = req.delta.add()
            u.metadatum.CopyFrom(key_value_pb2.KeyValue(
                ns=vz.Namespace(ns).encode(), key=key, value=R.LOST))
          resp = box['s'].UpdateMetadata(req)
          if resp.error_details:
            raise AssertionError('harness: UpdateMetadata: %s' % resp)
        else:
          study = box['s'].datastore.load_study(sname)
          drop = {(vz.Namespace(ns).encode(), key) for ns, key in targets}
          keep = [kv for kv in study.study_spec.metadata
                  if (kv.ns, kv.key) not in drop]
          del study.study_spec.metadata[:]
          study.study_spec.metadata.extend(keep)
          box['s'].datastore.update_study(study)
        rec.md_lost = True
        kept.clear()  # ka: the process that held the policy is gone too
        out.cls('lose_state', 'lose_' + lk)
      elif kind == 'rebuild_policy':
        if kept:
          out.cls('rebuild_policy')
        kept.clear()
      elif kind == 'restart':
        kept.clear()  # a new server process holds no policy objects
        svc.close_servicer(box['s'])
        box['s'] = svc.make_servicer(backend, policy_factory=Factory(),
                                     dbpath=dbpath)
        out.cls('servicer_restart')
      flags.arm()
      if len(set(int(t.id) for t in trials())) != len(trials()):
        raise AssertionError('harness: duplicate ids')
    # re-used id measurement: a live trial whose id was given under another
    # token
    for k, v in truth().items():
      if rec.epoch_ids.get(v.id, set()) - {k}:
        out.cls('trial_id_reused_after_given')
    if alive:
      # flush: force one more invocation of the algorithm
      rec.force_exact = True
      ts = trials()
      n_req = sum(1 for t in ts if t.state == TS.REQUESTED)
      # DesignerPolicy (use_seeding) answers the first request of an empty
      # study itself and asks the designer only for the rest.
      n_seed = 1 if (policy == 'dp' and not ts) else 0
      before = rec.updates
      if suggest('flush', n_req + 1 + n_seed):
        if rec.updates == before:
          raise AssertionError('harness: flush did not reach the algorithm')
        rec.final_check()
    out.cls(host, backend)
    _finish(out, rec, flags)
  finally:
    svc.close_servicer(box['s'])
    tmp.close()
  return out


# ---------------------------------------------------------------- in-RAM hosts
def _check_inram(case, rebuilt):
  from harness import c12_rec as R
  from vizier import pythia
  from vizier import pyvizier as vz
  from vizier._src.algorithms.policies import designer_policy as dp
  out = core.Out()
  host = 'inram_rebuilt' if rebuilt else 'inram_alive'
  rec = R.Recorder(out, host, incremental=True, deliveries=case['deliveries'])
  factory = R.make_factory(rec)
  problem = R.problem()
  sup = pythia.InRamPolicySupporter(problem)
  flags = _Flags()
  model = {}  # token -> dict(trial=, state=, infeasible=, value=)

  def make_policy():
    if rebuilt:
      return dp.PartiallySerializableDesignerPolicy(
          sup.study_config, sup, factory)
    return dp.InRamDesignerPolicy(sup.study_config, sup, factory)

  def truth():
    d = {}
    for k, m in model.items():
      want = {'ACTIVE': vz.TrialStatus.ACTIVE,
              'COMPLETED': vz.TrialStatus.COMPLETED,
              'STOPPING': vz.TrialStatus.STOPPING,
              'REQUESTED': vz.TrialStatus.REQUESTED}[m['state']]
      if m['trial'].status != want:
        raise AssertionError('harness: bookkeeping out of sync for token %d: '
                             '%s vs %s' % (k, m['trial'].status, want))
      d[k] = R.Truth(m['trial'].id, m['state'], m['infeasible'], m['value'])
    live = {R.token_of(t) for t in sup.trials}
    if live != set(model):
      raise AssertionError('harness: supporter trials %r, bookkeeping %r' % (
          sorted(live), sorted(model)))
    return d
  rec.truth_fn = truth

  def new_trial(k, **kw):
    return vz.Trial(parameters={R.TOK: k, 'x': (k * 0.37) % 10.0}, **kw)

  def complete(t, k, infeasible):
    if infeasible:
      t.complete(vz.Measurement(), infeasibility_reason='harness')
      model[k].update(state='COMPLETED', infeasible=True, value=None)
      out.cls('infeasible_completion')
    else:
      t.complete(vz.Measurement(metrics={'m': R.value_of(k)}))
      model[k].update(state='COMPLETED', infeasible=False,
                      value=R.value_of(k))

  def by_state(*states):
    return sorted((m['trial'].id, k) for k, m in model.items()
                  if m['state'] in states)

  box = {'policy': make_policy()}

  def suggest(n):
    before = rec.updates
    try:
      got = sup.SuggestTrials(box['policy'], n)
    except Exception as e:  # pylint: disable=broad-except
      rec.raise_harness_error()
      out.violate('suggest_raised/%s/%s' % (host, type(e).__name__), repr(e))
      return False
    for t in got:
      model[R.token_of(t)] = dict(trial=t, state='ACTIVE', infeasible=False,
                                  value=None)
    if rec.updates != before + 1:
      out.violate('suggest_without_update/%s' % host,
                  '%d updates' % (rec.updates - before))
    if flags.armed and (not rebuilt or box.get('fresh_policy')):
      flags.rebuilt_after = True
    box['fresh_policy'] = False
    rec.md_lost = False  # state dumped into study_config.metadata again
    return True

  def host_in_sync(op):
    """The supporter holds exactly what the documented AddTrials / in-place
    completion semantics say (ids are kept, an ACTIVE trial with the incoming
    id is replaced, new trials are appended)."""
    have = {R.token_of(t): (t.id, t.status.name) for t in sup.trials}
    want = {k: (m['trial'].id, m['state']) for k, m in model.items()}
    if have == want:
      return True
    out.violate('host/%s/supporter_state_after_%s' % (host, op[0]),
                'after %r the supporter holds {token: (id, status)} %r; the '
                'documented AddTrials semantics give %r' % (
                    op, sorted(have.items()), sorted(want.items())))
    return False

  alive = True
  for op in case['ops']:
    kind = op[0]
    if kind != 'suggest' and not host_in_sync(['before'] + list(op)):
      alive = False
      break
    if kind == 'suggest':
      if not suggest(op[1]):
        alive = False
        break
    elif kind == 'complete':
      open_ = by_state('ACTIVE', 'STOPPING')
      if not open_:
        continue
      tid, k = open_[op[1] % len(open_)]
      if any(i < tid for i, _ in open_):
        flags.out_of_order = True
      complete(model[k]['trial'], k, op[2])
    elif kind == 'add_completed':
      k = rec.new_token()
      t = new_trial(k)
      model[k] = dict(trial=t, state='ACTIVE', infeasible=False, value=None)
      complete(t, k, op[1])
      sup.AddTrials([t])
      flags.removed = True
      out.cls('external_completed_trial')
    elif kind == 'add_active':
      k = rec.new_token()
      t = new_trial(k)
      model[k] = dict(trial=t, state='ACTIVE', infeasible=False, value=None)
      sup.AddTrials([t])
      flags.removed = True
    elif kind == 'request':
      k = rec.new_token()
      t = new_trial(k, is_requested=True)
      model[k] = dict(trial=t, state='REQUESTED', infeasible=False, value=None)
      sup.AddTrials([t])
    elif kind == 'replace':
      act = by_state('ACTIVE')
      if not act:
        continue
      tid, old = act[op[1] % len(act)]
      k = rec.new_token()
      t = new_trial(k, id=tid)
      model[k] = dict(trial=t, state='ACTIVE', infeasible=False, value=None)
      if op[2] != 'active':
        complete(t, k, op[2] == 'infeasible')
      sup.AddTrials([t])
      del model[old]
      flags.removed = True
      out.cls('replace_active_trial')
    elif kind == 'stop':
      act = by_state('ACTIVE')
      if not act:
        continue
      _, k = act[op[1] % len(act)]
      model[k]['trial'].stopping_reason = 'harness'
      model[k]['state'] = 'STOPPING'
    elif kind == 'rebuild_policy':
      box['policy'] = make_policy()
      box['fresh_policy'] = True
      out.cls('rebuild_policy')
    elif kind == 'lose_state':
      how, part = op[1].split('_')
      md = sup.study_config.metadata
      targets = []
      if part in ('all', 'cache'):
        targets.append((md.abs_ns((ROOT, 'cache')), CACHE_KEY))
      if part in ('all', 'designer'):
        targets.append((md.abs_ns((ROOT, 'designer')), R.KEY))
      for ns, key in targets:
        if how == 'corrupt':
          ns[key] = R.LOST
        elif key in ns:
          del ns[key]
      rec.md_lost = True
      out.cls('lose_state', 'lose_' + op[1])
    flags.arm()
    if kind != 'suggest' and not host_in_sync(op):
      alive = False
      break
  if alive:
    rec.force_exact = True
    if suggest(1):
      rec.final_check()
  out.cls(host)
  _finish(out, rec, flags, min_updates=2 if rebuilt else 3)
  return out


# ------------------------------------------------- another worker mid-request
def midread_strategy():
  from hypothesis import strategies as st
  ref = st.integers(0, 7)
  op = st.one_of(
      st.tuples(st.just('suggest'), st.integers(1, 3),
                st.one_of(st.none(), ref, ref)),   # victim completed mid-read
      st.tuples(st.just('suggest'), st.integers(1, 3),
                st.one_of(st.none(), ref, ref)),
      st.tuples(st.just('complete'), ref, st.sampled_from(
          [False, False, True])))
  return st.fixed_dictionaries({
      'rebuilt': st.booleans(),
      'ops': st.lists(op, min_size=4, max_size=24)})


def check_midread(case):
  """Another worker completes a trial between the reads of one policy
  invocation (the supporter does it after the first GetTrials of a request).

  Oracle (holds for whatever the order of the reads is, as long as each
  update is consistent): no trial is given as completed and as active in the
  same update; active given is between "ACTIVE at the end" and "ACTIVE at the
  start" of the request; completed given were completed by the time of the
  update and not given before; after a final undisturbed request every
  completed trial has been given exactly once."""
  from harness import c12_rec as R
  from vizier import pythia
  from vizier import pyvizier as vz
  from vizier._src.algorithms.policies import designer_policy as dp
  out = core.Out()
  rebuilt = case['rebuilt']
  host = 'midread_rebuilt' if rebuilt else 'midread_alive'
  out.cls(host)

  class Rec:
    deliveries = ()
    force_exact = True

    def __init__(self):
      self.suggests = 0
      self.next_token = 1
      self.updates = []

    def new_token(self):
      self.next_token += 1
      return self.next_token - 1

    def on_update(self, designer, completed, active):
      self.updates.append(([R.token_of(t) for t in completed],
                           [R.token_of(t) for t in active]))

  rec = Rec()
  factory = R.make_factory(rec)
  inner = pythia.InRamPolicySupporter(R.problem())

  class Sup(pythia.PolicySupporter):
    calls = 0
    victim = None
    fired = False

    @property
    def study_guid(self):
      return inner.study_guid

    def GetStudyConfig(self, study_guid=None):
      return inner.GetStudyConfig(study_guid)

    def GetTrials(self, **kw):
      got = inner.GetTrials(**kw)
      self.calls += 1
      if self.calls == 1 and self.victim is not None:
        v, self.victim = self.victim, None
        if v.status == vz.TrialStatus.ACTIVE:
          v.complete(vz.Measurement(metrics={'m': 1.0}))
          self.fired = True
      return got

  sup = Sup()

  def make_policy():
    cls = (dp.PartiallySerializableDesignerPolicy if rebuilt
           else dp.InRamDesignerPolicy)
    return cls(inner.study_config, sup, factory)

  policy = make_policy()
  given = {}   # token -> number of times given as completed

  def tokens(status):
    return {R.token_of(t) for t in inner.trials if t.status == status}

  def request(n, victim):
    nonlocal policy
    if rebuilt:
      policy = make_policy()
    a0 = tokens(vz.TrialStatus.ACTIVE)
    sup.calls, sup.victim, sup.fired = 0, victim, False
    before = len(rec.updates)
    try:
      inner.SuggestTrials(policy, n)
    except Exception as e:  # pylint: disable=broad-except
      out.violate('suggest_raised/%s/%s' % (host, type(e).__name__), repr(e))
      return False
    if sup.fired:
      out.cls('completed_between_reads')
    if len(rec.updates) != before + 1:
      out.violate('suggest_without_update/%s' % host,
                  '%d updates' % (len(rec.updates) - before))
      return False
    comp, act = rec.updates[-1]
    a1 = a0 - ({R.token_of(victim)} if sup.fired else set())
    c1 = tokens(vz.TrialStatus.COMPLETED) - a0 | (
        {R.token_of(victim)} if sup.fired else set())
    both = set(comp) & set(act)
    if both:
      out.violate('update/%s/completed_and_active_at_once' % host,
                  'tokens %r: completed %r active %r (another worker '
                  'completed a trial between the reads: %s)' % (
                      sorted(both), comp, act, sup.fired))
      return False
    if len(set(act)) != len(act) or not a1 <= set(act) <= a0:
      out.violate('update/%s/active_set' % host,
                  'given %r; ACTIVE at start %r, at end %r' % (
                      sorted(act), sorted(a0), sorted(a1)))
      return False
    if not set(comp) <= c1:
      out.violate('update/%s/completed_not_completed' % host,
                  'given %r; completed %r' % (sorted(comp), sorted(c1)))
      return False
    for k in comp:
      given[k] = given.get(k, 0) + 1
      if given[k] > 1:
        out.violate('update/%s/completed_given_twice' % host,
                    'token %d' % k)
        return False
    early = c1 - ({R.token_of(victim)} if sup.fired else set())
    missed = {k for k in early if k not in given}
    if missed:
      out.violate('update/%s/completed_missed' % host,
                  'tokens %r completed before the request and never given'
                  % sorted(missed))
      return False
    return True

  fired_any = False
  for op in case['ops']:
    act = sorted((t.id, t) for t in inner.trials
                 if t.status == vz.TrialStatus.ACTIVE)
    if op[0] == 'suggest':
      victim = act[op[2] % len(act)][1] if (op[2] is not None and act) else None
      if not request(op[1], victim):
        return out
      fired_any = fired_any or sup.fired
    elif act:
      t = act[op[1] % len(act)][1]
      if op[2]:
        t.complete(vz.Measurement(), infeasibility_reason='harness')
      else:
        t.complete(vz.Measurement(metrics={'m': 2.0}))
  # a final undisturbed request: everything completed has been given once
  if not request(1, None):
    return out
  done = tokens(vz.TrialStatus.COMPLETED)
  wrong = {k: given.get(k, 0) for k in done if given.get(k, 0) != 1}
  if wrong:
    out.violate('life/%s/not_exactly_once' % host, 'token -> times: %r' % wrong)
    return out
  out.count('updates', len(rec.updates))
  out.nontrivial = fired_any
  return out


def check_inram_alive(case):
  return _check_inram(case, False)


def check_inram_rebuilt(case):
  return _check_inram(case, True)


def families(tier):
  return [
      core.Family('service', check_service, strategy=service_strategy,
                  budget={'quick': 2400, 'thorough': 50000},
                  shards={'quick': 12, 'thorough': 32},
                  required_classes=(
                      'service_ps', 'service_dp', 'ram', 'sqlmem', 'sqlfile',
                      'delete', 'delete_max_id', 'delete_already_given_trial',
                      'out_of_order_completion', 'lose_state',
                      'restart_from_lost_state', 'servicer_restart',
                      'delete_given_trial_at_tail',
                      'update_while_stopping_trial',
                      'external_completed_trial', 'infeasible_completion',
                      'trial_id_reused_after_given', 'pythia_invoked')),
      core.Family('service_alive', check_service,
                  strategy=service_alive_strategy,
                  budget={'quick': 1000, 'thorough': 20000},
                  shards={'quick': 5, 'thorough': 16},
                  required_classes=(
                      'service_ka', 'kept_policy_reused', 'rebuild_policy',
                      'lose_state', 'restart_from_lost_state', 'ram', 'sqlmem',
                      'sqlfile', 'servicer_restart', 'delete',
                      'out_of_order_completion', 'external_completed_trial',
                      'update_while_stopping_trial', 'pythia_invoked')),
      core.Family('inram_alive', check_inram_alive,
                  strategy=inram_strategy(False),
                  budget={'quick': 3000, 'thorough': 100000},
                  shards={'quick': 2, 'thorough': 8},
                  required_classes=(
                      'out_of_order_completion', 'replace_active_trial',
                      'external_completed_trial',
                      'update_while_stopping_trial',
                      'update_while_requested_trial')),
      core.Family('inram_rebuilt', check_inram_rebuilt,
                  strategy=inram_strategy(True),
                  budget={'quick': 3000, 'thorough': 100000},
                  shards={'quick': 2, 'thorough': 8},
                  required_classes=(
                      'out_of_order_completion', 'replace_active_trial',
                      'rebuild_policy', 'lose_state',
                      'restart_from_lost_state',
                      'update_while_stopping_trial',
                      'update_while_requested_trial')),
      core.Family('inram_midread', check_midread, strategy=midread_strategy,
                  budget={'quick': 1500, 'thorough': 40000},
                  shards={'quick': 2, 'thorough': 8},
                  required_classes=('midread_alive', 'midread_rebuilt',
                                    'completed_between_reads')),
  ]
