#!/usr/bin/env python3
"""usage: mark_fixed.py CXX '<substring of replay or bucket>' <commit>  -> flips a known finding in known_findings.d/CXX.jsonl to fixed."""
import json, sys
pid, key, commit = sys.argv[1:4]
p = '/verif/known_findings.d/%s.jsonl' % pid
out = []; n = 0
for line in open(p):
  if not line.strip():
    continue
  r = json.loads(line)
  if r.get('status') == 'known' and (key in r.get('replay', '') or key in r.get('bucket', '')):
    r['status'] = 'fixed'; r['commit'] = commit
    w = r['what']
    for pre in ('known: property=%s ' % pid, 'known: '):
      if w.startswith(pre):
        w = w[len(pre):]
    r['what'] = 'fixed: property=%s %s %s' % (pid, commit, w)
    n += 1
  out.append(json.dumps(r))
open(p, 'w').write('\n'.join(out) + '\n')
print('marked', n)
