#!/venv/bin/python
"""Runs repository test modules that cannot import in the bare sandbox (no pb2,
equinox broken) after installing the harness bootstrap. For validating fix:
commits only; not part of any registered check."""
import os, sys
sys.path.insert(0, os.path.dirname(os.path.dirname(os.path.abspath(__file__))))
from harness import boot
boot.init()
import pytest
sys.exit(pytest.main(['-q', '-p', 'no:cacheprovider', '-x'] + sys.argv[1:]))
