#!/bin/sh
# usage: apply_fix.sh <diff> "<commit subject>" "<commit body>"
set -e
cd /repo
git apply --check "$1"
git apply "$1"
git add -A vizier
git commit -q -m "$2" -m "$3"
git log --oneline | head -1
