HOOKS = {
    'guard': 'GOOGLE_VIZIER_VERIF',
    'enable': 'no source hooks are needed: checks import /repo directly through harness/boot.py (pb2 modules compiled in memory from the working tree .proto files); the guard name is reserved and unused',
    'baseline_off_cmd': 'cd /repo && /venv/bin/python -m pytest -ra -q -p no:cacheprovider --timeout=900 --continue-on-collection-errors',
    'source_commits': [],
    'add_only': True,
}
NOTES = ('All checks: ./check <ID> --tier quick|thorough; VERIF_SEED selects the Hypothesis seed. '
         'Exit 0 held, 1 VIOLATION, 2 harness error. known_findings.jsonl lists fixed/known findings; '
         'pinned/ holds their regression replays which every run executes first.')
NOT_APPLICABLE = {}
EXPL = 'exploration'
CHECKS = {
    'C01': dict(
        category=EXPL,
        technique='Hypothesis-generated RPC histories vs sequential reference model (model-based testing) + history invariants',
        text='Generated histories of all 16 RPCs (+GetOperation) with concrete small ids (existing and missing), all argument variants and both datastores are executed against a real VizierServicer; after every call the response, the error class, the full ListStudies/GetStudy/ListTrials snapshot and model-free lifecycle invariants are compared with an independent sequential reference model; erroring calls must leave the snapshot byte-identical; requests and responses are scribbled over after use to expose pass-by-reference. Sampling of histories (thousands per run), no exhaustiveness claim.',
        note='trusts harness/service_model.py (second implementation written from proto comments/docstrings; documented decisions in DESIGN.md C01), the deterministic harness policy, timestamp blanking'),
    'C02': dict(
        category=EXPL,
        technique='Hypothesis-generated suggest/complete/request/delete histories with drawn delivery profiles vs three-source-fill reference model',
        text='Histories of suggest (raw RPC and clients.Study path, 1-4 workers, n 1..5), complete, request, add-completed, delete and stop against a real servicer (RAM and SQL) whose harness policy over-/under-/exactly delivers per a drawn profile; every suggest is compared with the reference model (count, ACTIVE + client_id, operation name, snapshot) and with model-free clauses: stickiness on repeat (same trials, nothing created, policy not invoked), no trial active for two workers, surplus conserved as REQUESTED, fresh increasing ids. Sampling of histories.',
        note='trusts harness/service_model.py; which REQUESTED trial is handed out and which suggestion lands on which new id is adopted from the implementation after validating it is an allowed choice'),
    'C04': dict(
        category=EXPL,
        technique='harness-owned cooperative scheduler: enumerated <=2-pre-emption schedules + Hypothesis random schedules; serial-order differential oracle up to trial-id bijection',
        text='2-3 concurrent RPCs (11 kinds) after generated sequential prefixes run as threads under a deterministic scheduler whose scheduling points are every datastore call and every service-lock acquire/release; per (prefix, call set) all schedules with at most two pre-emptions (capped) plus drawn random schedules are executed on RAM and SQL. Each outcome (result class per call, trials handed out by suggest/add-trial, final studies/trials/operations) must equal that of one of the k! serial orders up to a renumbering of the trials created during the run; plus deadlock/livelock detection, unique ids, every operation done. Violations in 3-call sets are attributed to a pair when the pair alone reproduces the clause.',
        note='granularity = datastore calls and service locks (each datastore call is atomic under its own lock); pre-emption bound 2 + random schedules, not all schedules; a defect present in all serial orders is invisible; DeleteStudy racing calls on the same study is a listed known finding and excluded by construction from generated call sets (pinned replays still execute it)'),
    'C05': dict(
        category='fault_enumeration',
        technique='Hypothesis-generated (prefix, victim RPC) x exhaustive enumeration of the victim\'s SQL statement/commit crash points via fork + os._exit; reopen-and-compare oracle',
        text='For each generated history the victim RPC is executed once per crash point (before/after every non-SELECT statement, before every commit, and after the RPC returned) in a forked child that dies with os._exit at that point; a fresh engine + VizierServicer reopens the SQLite file and the check compares with the crash-free pre/post snapshots: single-resource victims are all-or-nothing, acknowledged data is still there, every row deserialises, no orphan trial/operation rows, unique ids, legal states, and suggest (same and new worker) + complete still work. Crash points are enumerated exhaustively per history; histories are sampled.',
        note='crash = process death at a statement/commit boundary seen through SQLAlchemy events; durability of a single SQLite commit and torn pages are trusted to SQLite; the operation abandoned by a crash inside SuggestTrials is a listed known finding'),
    'C06': dict(
        category='fault_enumeration',
        technique='Hypothesis-generated fault plans (exception type x position x delivery count) x follow-up histories; bounded-liveness oracle',
        text='A harness policy raises one of nine exception types or delivers 0..n+3 suggestions at drawn Pythia invocations (suggest and early stop); each fault is followed by generated calls of the same and other workers. Oracle: the faulty call reports (done operation with error, or raised error), no operation of the worker stays done=False / ACTIVE in the datastore, the next call that needs the algorithm reaches it (invocation counter), clients.get_suggestions returns within 5 polls, stored trials keep the lifecycle invariants. In-process Pythia and Pythia behind a real gRPC hop; RAM and SQL.',
        note='fault positions and types are sampled, not exhaustive; liveness is checked as bounded termination of the next call'),
    'C07': dict(
        category=EXPL,
        technique='differential testing of three backends on Hypothesis-generated service histories and raw DataStore call sequences',
        text='The C01 history generator is replayed on RAM, in-memory SQLite and file SQLite servicers; responses, error classes, snapshots, every GetOperation name of the universe and the policy invocation counts must agree after each call. A second family drives all 21 DataStore methods directly (under the callers\' preconditions) with a pass-by-value probe.',
        note='a defect common to all backends is invisible here (C01 covers it); early-stopping recycle period is pinned to 0 or 1 day to remove wall-clock dependence'),
    'C08': dict(
        category=EXPL,
        technique='differential testing of three deployments x two datastores on Hypothesis-generated client programs; promised-exception oracle per deployment',
        text='Generated programs of clients.Study / clients.Trial calls (suggest, complete incl. twice, measure, stop, early-stop, delete, metadata, add_trial in/out of space, request, optimal, set_state, from_resource_name / from_owner_and_id on missing studies, delete + reload) run against the implicit in-process servicer, a DefaultVizierServer and a DistributedPythiaVizierServer (real gRPC over loopback), each on RAM and in-memory SQL; after every call the observation (return value or client-visible exception class / status) and the stored trials must agree across the six, and the exceptions client_abc promises (ResourceNotFoundError, ValueError for add_trial outside the space, [] from suggest on a finished study) are checked in every deployment on their own.',
        note='stock GRID_SEARCH algorithm; NotFoundError (KeyError) in-process and StatusCode.NOT_FOUND over gRPC are treated as the same documented error class; servers are shared by the cases of a worker process'),
    'C10': dict(
        category=EXPL,
        technique='exhaustive namespace enumeration + Hypothesis op-list histories vs dict reference model',
        text='Namespace encode/decode round trip enumerated exhaustively over all tuples of <=3 components of <=2 chars from an adversarial alphabet (30 754 namespaces) plus random unicode tuples; metadata store compared after every step of generated update histories (user, policy, batched, missing-trial deltas; RAM and SQL; raw RPC and client API) with a last-writer-wins dict model. Sampling, not proof: absence of violations beyond the enumerated alphabet is not established.',
        note='trusts the harness dict model, protobuf Any packing and the bootstrap; the policy used for algorithm writes is a harness policy writing under its own root'),
    'C16': dict(
        category=EXPL,
        technique='independent membership oracle vs SearchSpace.contains on exhaustive small-space products + Hypothesis single-edit near-miss cases; builder validity oracle; independent dfs/bfs walk',
        text='Membership of flat spaces is compared with a vizier-free oracle over ~9e4 exhaustively enumerated assignments of 30 small spaces plus thousands of generated single-edit near-miss / coerced-member cases (wrong types, bools vs True/False strings, ints as floats, missing/extra keys, non-finite and huge values); builder calls (add_*_param, ParameterConfig.factory) are judged against the statement\'s list of invalid definitions and the normal form of what was built; conditional spaces must refuse contains; SequentialParameterBuilder (dfs and bfs, with skips) is compared with an independent walk of the JSON spec; clients.Study.add_trial must raise ValueError exactly for non-members and store nothing.',
        note='trusts the coercion table of DESIGN C16 (bool = int = True/False strings, integral float = int, str never numeric), harness/spaces.py builders; add_trial exercised in-process on RAM'),
    'C11': dict(
        category=EXPL,
        technique='brute-force dominance definition vs every Pareto routine: exhaustive small point lists + Hypothesis tie-heavy multisets; served histories and in-RAM queries vs the same definition',
        text='All 7 502 ordered point lists with n<=4, d<=2 over a 3-value grid are enumerated exhaustively against the naive, divide-and-conquer (thresholds 1,2,3,5,1e4), JAX (num_shards 1,2,3,10,50, rank) routines and nsga2._pareto_rank; Hypothesis adds tie-heavy multisets (n<=40, d<=4, +-inf, -0.0). Service histories on RAM and SQL (mixed goals, safety metric, succeeded / infeasible / active / requested / stopping / deleted trials, missing, extra, NaN and infinite metrics) compare clients.Study.optimal_trials() with the definition after every step; InRamPolicySupporter.GetBestTrials is checked for every count incl. None and for side effects.',
        note='trusts harness/c11_ref.py (plain-float brute force), float32-exact inputs for the JAX and in-RAM routines, recursive_threshold>=1 and num_shards>=1 as preconditions'),
    'C18': dict(
        category=EXPL,
        technique='Hypothesis-generated label arrays x warper pipelines/components vs order / finiteness / no-mutation / round-trip oracle',
        text='Label arrays (length 1..60, magnitudes 1e-30..1e30, engineered duplicates and constants, outliers up to 1e80, NaN and -inf in 0-90 percent of positions, re-use of one warper object) are pushed through create_default_warper and create_warp_outliers_warper in every flag combination and through each component alone (on the inputs its docstring admits). Oracle independent of the implementation: same shape, finite output, input arrays unchanged (warp and unwarp), infeasible entries no higher than the worst feasible one, the default pipeline preserves ranking strictly (equal stay equal, distinct stay distinct, up to the stated float resolution), no warper reverses two observed values, documented shortcuts for constant / all-infeasible input, unwarp(warp(y)) returns y.',
        note='float-resolution allowances are listed in props/c18.py ASSUMPTIONS; float64 labels only; unwarp checked at warped observed values'),
    'C13': dict(
        category=EXPL,
        technique='A/B differential: live designer vs designer rebuilt by dump -> fresh instance -> load at Hypothesis-generated restart masks, over three serialization paths',
        text='For grid, shuffled grid, quasi-random, eagle, NSGA-II and CMA-ES a live instance and one rebuilt (dump, fresh instance with the same constructor arguments, load) after the steps of a generated restart mask receive identical generated histories (batches 1..5, ties, infeasible and pending trials); the dump travels as a Metadata object, as StudyConfig proto bytes, or through a real service on a re-created SQLite file; time.time is patched to changing values. Deterministic designers: suggestions, suggestion metadata and dump() equal at every step. NSGA-II: public population arrays, phase and trials-seen counter via an injected recording Mutation / adaptation_callable. CMA-ES: dumped state (incl. PRNG key) and suggestions. Service clause: GRID / SHUFFLED_GRID / QUASI_RANDOM / EAGLE hosted with the default policy factory across servicer re-creations; suggestions and saved state equal a live designer\'s and the first G<=48 grid suggestions are distinct and cover the independently computed grid.',
        note='run A (the live instance) is the reference; NSGA-II sampler RNG is not part of the documented state; flat spaces; bounds tamed to what the designers accept'),
    'C15': dict(
        category=EXPL,
        technique='Hypothesis search over spaces x 6 converter classes x options x data; round-trip, 50-digit reference scaling and independent membership oracle',
        text='Flat spaces x {DefaultTrialConverter, TrialToArrayConverter, TrialToModelInputConverter, TrialToContinuousAndCategoricalConverter, PaddedTrialToArrayConverter, ProblemAndTrialsScaler} x options (scale, onehot, pad_oovs, max_discrete_indices 0/10/inf, float32/64, clipping, padding schedules). Encode then decode is exact for INTEGER / DISCRETE / CATEGORICAL and within a condition-scaled ulp bound for DOUBLE; scaled features are compared with a 50-digit decimal reference of the LINEAR / LOG / REVERSE_LOG formulas (endpoints, midpoints, monotone); one-hot blocks and index positions exact; arbitrary arrays of the published spec (out of range, extremes, degenerate one-hot blocks, OOV indices) decode to members per the independent membership oracle of harness/spaces.py; objective labels round-trip under both sign conventions; inputs are not mutated.',
        note='trusts harness/spaces.member, the decimal reference and tolerance model in harness/c15_model.py, carrier dtype of returned arrays, bounds clamped to 1e+-30 for float32 carriers, strictly positive LOG ranges; flat spaces only'),
    'C17': dict(
        category=EXPL,
        technique='Hypothesis-generated builder specs x trials vs expectation computed from the spec alone (active set, key set, index order, value, exact Python type)',
        text='Builder specs (all kinds, auto_cast on/off/default, boolean feasible subsets, gapped and unsorted indexed name[i] families, conditional depth <= 3, shared child names, hostile names) x valid / unknown-parameter / inactive-child / incomplete trials. Every read through StudyConfig.trial_parameters (config built directly, via from_problem, or re-read through to_proto/from_proto) and through clients.Trial.parameters on RAM and SQL servicers (trials stored by add_trial, request, raw CreateTrial or suggest; read from the returned handle, get_trial, trials() iteration) is compared with the expectation: only active parameters, bool / int / float / str exactly as declared, indexed families grouped into one list in index order, unknown or inactive parameters reported as ValueError.',
        note='in-process servicer only (no gRPC transport); INTEGER parameters: any integral int or float accepted (the statement does not demand int)'),
    'C20': dict(
        category=EXPL,
        technique='exhaustive base-experimenter enumeration + Hypothesis-generated wrapper stacks; per-layer algebraic / metamorphic oracle through a pass-through probe',
        text='400 exhaustively enumerated base configurations (24 BBOB functions x dims x construction paths, offset / log / reverse-log spaces, Branin, Hartmann 3/6, all 48 SimpleKD settings, DTLZ / WFG / ZDT / DH problems) are cross-checked by direct numpy / optproblems calls; Hypothesis draws 0-3-layer stacks of Shifting, SignFlip, Permuting, Discretizing, HyperCube, Normalizing, Noisy (10 noise types), Sparse, Switch, MultiObjective, Hashing- and ParamRegion-Infeasible wrappers with valid arguments and batches of 1..8 suggestions (with duplicates), plus SingleObjectiveExperimenterFactory configurations. At every layer boundary a transparent probe checks: every trial completed with all metrics of the problem statement or infeasible; parameters as suggested; problem statement by value; shift evaluates at x-s; sign flip negates objectives and goals and is an involution; permutation is the constructed bijection; discretize / hypercube embed into the inner space; normalising preserves order; seeded noise / infeasibility reproducible across fresh instances.',
        note='trusts the base objective functions (cross-checked against direct calls), the HyperCube affine/log embedding to 1e-5, Permuting\'s private permutation dict, the factory composition order; hash verdicts only checked for determinism'),
}
