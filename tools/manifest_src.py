HOOKS = {
    'guard': 'GOOGLE_VIZIER_VERIF',
    'enable': 'no source hooks are needed: checks import /repo directly through harness/boot.py (pb2 modules compiled in memory from the working tree .proto files); the guard name is reserved and unused',
    'baseline_off_cmd': 'cd /repo && /venv/bin/python -m pytest -ra -q -p no:cacheprovider --timeout=900 --continue-on-collection-errors',
    'source_commits': [],
    'add_only': True,
}
NOTES = ('All checks: ./check <ID> --tier quick|thorough; VERIF_SEED selects the Hypothesis seed. '
         'Exit 0 held, 1 VIOLATION, 2 harness error. known_findings.jsonl lists fixed/known findings; '
         'pinned/ holds their regression replays which every run executes first.')
NOT_APPLICABLE = {}
EXPL = 'exploration'
CHECKS = {
    'C01': dict(
        category=EXPL,
        technique='Hypothesis-generated RPC histories vs sequential reference model (model-based testing) + history invariants',
        text='Generated histories of all 16 RPCs (+GetOperation) with concrete small ids (existing and missing), all argument variants and both datastores are executed against a real VizierServicer; after every call the response, the error class, the full ListStudies/GetStudy/ListTrials snapshot and model-free lifecycle invariants are compared with an independent sequential reference model; erroring calls must leave the snapshot byte-identical; requests and responses are scribbled over after use to expose pass-by-reference. Sampling of histories (thousands per run), no exhaustiveness claim.',
        note='trusts harness/service_model.py (second implementation written from proto comments/docstrings; documented decisions in DESIGN.md C01), the deterministic harness policy, timestamp blanking'),
    'C10': dict(
        category=EXPL,
        technique='exhaustive namespace enumeration + Hypothesis op-list histories vs dict reference model',
        text='Namespace encode/decode round trip enumerated exhaustively over all tuples of <=3 components of <=2 chars from an adversarial alphabet (30 754 namespaces) plus random unicode tuples; metadata store compared after every step of generated update histories (user, policy, batched, missing-trial deltas; RAM and SQL; raw RPC and client API) with a last-writer-wins dict model. Sampling, not proof: absence of violations beyond the enumerated alphabet is not established.',
        note='trusts the harness dict model, protobuf Any packing and the bootstrap; the policy used for algorithm writes is a harness policy writing under its own root'),
}
