#!/usr/bin/env python3
"""Evaluates an independently produced breaking change.

usage: eval_seeded.py <dir with patch.diff, demo.py, meta.json> [--checks C05,C07] [--tier quick] [--baseline]

1. copies /repo (working tree) to /tmp/vz-seed-<name>, applies patch.diff;
2. runs demo.py on the clean tree (expects exit 0) and on the patched copy
   (expects exit 1);
3. optionally runs the pinned baseline test command on the patched copy and
   compares the number of passing tests with BASELINE.json;
4. runs the named checks (default: the property in meta.json) against the copy
   and records caught / missed with the buckets;
5. writes <dir>/evaluation.json and removes the copy.
"""
import argparse
import json
import os
import re
import subprocess
import sys
import time

VERIF = os.path.dirname(os.path.dirname(os.path.abspath(__file__)))


def sh(cmd, env=None, cwd=None, timeout=3600):
  e = dict(os.environ)
  e.update(env or {})
  p = subprocess.run(cmd, shell=isinstance(cmd, str), env=e, cwd=cwd,
                     capture_output=True, text=True, timeout=timeout)
  return p.returncode, p.stdout + p.stderr


def main():
  ap = argparse.ArgumentParser()
  ap.add_argument('dir')
  ap.add_argument('--checks')
  ap.add_argument('--tier', default='quick')
  ap.add_argument('--baseline', action='store_true')
  ap.add_argument('--ncpu', default='8')
  a = ap.parse_args()
  d = os.path.abspath(a.dir)
  name = os.path.basename(d)
  meta = json.load(open(os.path.join(d, 'meta.json')))
  prop = meta['property']
  checks = a.checks.split(',') if a.checks else [prop]
  copy = '/tmp/vz-seed-' + name
  sh(['rm', '-rf', copy])
  os.makedirs(copy)
  sh('rsync -a --exclude .git --exclude "*.egg-info" /repo/ %s/' % copy)
  # the demonstration runs on the (still clean) copy first, never on /repo
  # itself: some demos create files next to the sources
  demo = os.path.join(d, 'demo.py')
  rc0, o0 = sh(['/venv/bin/python', demo], env={'VERIF_REPO': copy},
               cwd='/tmp', timeout=1800)
  sh('find %s -name "*.db" -newer %s -delete' % (copy, demo))
  rc, out = sh('patch -p1 --no-backup-if-mismatch < %s' % os.path.join(
      d, 'patch.diff'), cwd=copy)
  ev = {'name': name, 'property': prop, 'patch_applies': rc == 0,
        'repo_head': sh('git -C /repo rev-parse --short HEAD')[1].strip()}
  if rc != 0:
    ev['patch_output'] = out[-800:]
  else:
    rc1, o1 = sh(['/venv/bin/python', demo], env={'VERIF_REPO': copy},
                 cwd='/tmp', timeout=1800)
    ev['demo_clean'] = {'exit': rc0, 'tail': o0.strip()[-300:]}
    ev['demo_patched'] = {'exit': rc1, 'tail': o1.strip()[-300:]}
    ev['demo_ok'] = (rc0 == 0 and rc1 == 1)
    if a.baseline:
      t0 = time.time()
      rcb, ob = sh('/venv/bin/python -m pytest -q -p no:cacheprovider '
                   '--timeout=900 --continue-on-collection-errors 2>&1 | tail -3',
                   cwd=copy, timeout=3000)
      m = re.search(r'(\d+) passed', ob)
      f = re.search(r'(\d+) failed', ob)
      ev['baseline'] = {'passed': int(m.group(1)) if m else None,
                        'failed': int(f.group(1)) if f else 0,
                        'tail': ob.strip()[-200:], 'wall_s': time.time() - t0}
    ev['checks'] = {}
    for c in checks:
      t0 = time.time()
      rc, out = sh([os.path.join(VERIF, 'check'), c, '--tier', a.tier],
                   env={'VERIF_REPO': copy, 'VERIF_NCPU': a.ncpu},
                   cwd=VERIF, timeout=7200)
      buckets = sorted(set(re.findall(r'bucket=(\S+)', out)))
      ev['checks'][c] = {'exit': rc, 'caught': rc == 1, 'buckets': buckets[:12],
                         'wall_s': round(time.time() - t0, 1),
                         'harness_error': out[-600:] if rc == 2 else None}
  sh(['rm', '-rf', copy])
  sh(['rm', '-rf', os.path.join(VERIF, 'replays', prop)])
  json.dump(ev, open(os.path.join(d, 'evaluation.json'), 'w'), indent=1)
  print(json.dumps(ev, indent=1)[:3000])


if __name__ == '__main__':
  main()
