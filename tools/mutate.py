#!/usr/bin/env python3
"""usage: mutate.py NAME FILE 'old' 'new' [FILE old new ...] -- cmd...
Creates /tmp/vz-mut-NAME, applies exact-string replacements (each must match once), runs cmd with VERIF_REPO set, removes the copy."""
import os, subprocess, sys
args = sys.argv[1:]
name = args[0]; rest = args[1:]
i = rest.index('--'); edits, cmd = rest[:i], rest[i+1:]
d = '/tmp/vz-mut-' + name
subprocess.check_call(['/verif/tools/scratch.sh', name], stdout=subprocess.DEVNULL)
try:
  for j in range(0, len(edits), 3):
    f, old, new = edits[j:j+3]
    p = os.path.join(d, f); s = open(p).read()
    n = s.count(old)
    if n != 1:
      print('MUTATION ERROR: %r occurs %d times in %s' % (old, n, f)); sys.exit(3)
    open(p, 'w').write(s.replace(old, new))
  env = dict(os.environ, VERIF_REPO=d)
  rc = subprocess.call(cmd, env=env, cwd='/verif')
  print('exit code', rc)
finally:
  subprocess.call(['/verif/tools/scratch.sh', name, '--rm'])
