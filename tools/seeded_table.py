#!/usr/bin/env python3
"""Writes seeded/README.md (one row per independently seeded breaking change) from meta.json + evaluation.json
and copies the evaluation summary into each meta.json under 'confirmed'."""
import glob, json, os
rows = []
for d in sorted(glob.glob('/verif/seeded/C*_*')):
  try:
    m = json.load(open(d + '/meta.json'))
    e = json.load(open(d + '/evaluation.json'))
  except Exception:
    continue
  name = os.path.basename(d)
  b = e.get('baseline') or {}
  checks = e.get('checks', {})
  caught = [c for c, v in checks.items() if v.get('caught')]
  missed = [c for c, v in checks.items() if not v.get('caught')]
  m['confirmed'] = {
      'patch_applies_on': e.get('repo_head'),
      'demo_exit_clean_tree': (e.get('demo_clean') or {}).get('exit'),
      'demo_exit_patched_tree': (e.get('demo_patched') or {}).get('exit'),
      'pinned_test_suite_on_patched_tree': b,
      'checks_run': {c: {'caught': v.get('caught'), 'buckets': v.get('buckets', [])[:6]} for c, v in checks.items()},
      'how': 'tools/eval_seeded.py %s --checks %s --baseline (scratch copy of /repo + patch; /repo itself never modified)' % (name, ','.join(checks)),
  }
  json.dump(m, open(d + '/meta.json', 'w'), indent=1)
  rows.append((name, m.get('property'), (m.get('summary') or '')[:150].replace('|', '/').replace('\n', ' '),
               (m.get('needs_to_manifest') or '')[:110].replace('|', '/').replace('\n', ' '),
               'yes' if e.get('demo_ok') else 'NO', b.get('passed'), ', '.join(caught) or '-', ', '.join(missed) or '-'))
with open('/verif/seeded/README.md', 'w') as f:
  f.write('# Independently seeded breaking changes\n\nEach directory: patch.diff, demo.py (exit 0 on the unchanged tree, 1 with the patch), meta.json (incl. `confirmed`), evaluation.json.\n'
          'Produced by fresh sub-agents that saw only the property text and a scratch worktree; confirmed with tools/eval_seeded.py.\n\n')
  f.write('| id | property | change | needs | demo confirmed | pinned tests pass | caught by (quick tier) | not caught by |\n|---|---|---|---|---|---|---|---|\n')
  for r in rows:
    f.write('| %s | %s | %s | %s | %s | %s | %s | %s |\n' % r)
tot = len(rows); c = sum(1 for r in rows if r[6] != '-')
print('%d seeded changes, %d caught by at least one designated check' % (tot, c))
