#!/bin/sh
# Re-evaluates every seeded change against its designated checks (with the pinned baseline tests).
cd /verif
while read id checks; do
  [ -d seeded/$id ] || continue
  VERIF_NO_SHRINK=1 python3 tools/eval_seeded.py seeded/$id --checks $checks --ncpu ${NCPU:-10} --baseline > /tmp/evalall_$id.log 2>&1
done <<LIST
C01_1 C01,C04
C01_2 C01
C01_3 C01
C02_2 C02
C02_3 C02
C03_1 C03,C15
C03_2 C03
C03_3 C03
C04_1 C04
C04_2 C04
C05_1 C05
C05_2 C05
C05_3 C05
C06_1 C06,C02
C06_2 C06
C06_3 C06
C07_1 C07,C01
C07_2 C07,C01
C07_3 C07
C08_1 C08
C08_2 C08,C06
C08_3 C08
C09_1 C09,C10
C09_2 C09
C09_3 C09
C10_1 C10
C10_2 C10,C07
C10_3 C10,C04
C11_1 C11
C11_2 C11
C11_3 C11,C01
C12_1 C12
C12_2 C12
C12_3 C12
C13_1 C13
C13_2 C13
C13_3 C13
C14_1 C14
C14_3 C14,C13
C15_1 C15
C15_2 C15
C15_3 C15
C16_1 C16
C16_2 C16
C16_3 C16
C17_1 C17
C17_2 C17
C17_3 C17
C18_1 C18
C18_2 C18
C18_3 C18
C20_1 C20
C20_2 C20
C20_3 C20
LIST
