#!/bin/sh
# Re-evaluates the round-3 seeded changes against their designated checks (with the pinned baseline tests).
cd /verif
while read id checks; do
  [ -d seeded/$id ] || continue
  VERIF_NO_SHRINK=1 python3 tools/eval_seeded.py seeded/$id --checks $checks --ncpu ${NCPU:-10} --baseline > /tmp/evalall_$id.log 2>&1
done <<LIST
C01_7 C01
C01_8 C01,C07
C01_9 C01
C02_7 C02
C02_8 C02,C01,C07
C02_9 C04
C03_7 C03
C03_8 C03
C03_9 C03
C04_7 C04
C04_8 C04
C04_9 C04
C05_7 C05
C05_8 C05
C05_9 C05
C06_7 C06
C06_8 C06
C06_9 C06
C07_7 C07
C07_8 C07
C07_9 C07
C08_7 C08
C08_8 C08
C08_9 C08,C06
C09_7 C09
C09_8 C09
C09_9 C09
C10_7 C10
C10_8 C10
C10_9 C10
C11_7 C11
C11_8 C11
C11_9 C11
C12_7 C12
C12_8 C12
C12_9 C12
C13_7 C13
C13_8 C13
C13_9 C13
C14_7 C14
C14_8 C13
C14_9 C14
C15_7 C15
C15_8 C15
C15_9 C15
C16_7 C16
C16_8 C16
C16_9 C16
C17_7 C17
C17_8 C17
C17_9 C17
C18_7 C18
C18_8 C18
C18_9 C18
C19_7 C19
C19_8 C19
C19_9 C19
C20_7 C20
C20_8 C20
C20_9 C20
LIST
