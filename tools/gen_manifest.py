#!/usr/bin/env python3
"""Writes MANIFEST.json from tools/manifest_src.py (kept in one place so the
file is always schema-valid)."""
import json, os, sys
HERE = os.path.dirname(os.path.abspath(__file__))
sys.path.insert(0, HERE)
import manifest_src as m
props = [json.loads(l)['id'] for l in open(os.path.join(HERE, '..', 'properties.jsonl'))]
checks = []
for pid in props:
  c = m.CHECKS.get(pid)
  if not c:
    continue
  checks.append({
      'property_id': pid,
      'quick_cmd': './check %s --tier quick' % pid,
      'thorough_cmd': './check %s --tier thorough' % pid,
      'evidence_file': 'evidence/%s.json' % pid,
      'replay_cmd_template': './check %s --replay {path}' % pid,
      'engine': 'hypothesis-collect-shrink',
      'level_claimed': {'category': c['category'], 'text': c['text'],
                        'design_ref': 'DESIGN.md section 3, ' + pid},
      'level_note': c['note'],
      'technique': c['technique'],
  })
na = [{'property_id': p, 'reason': m.NOT_APPLICABLE.get(p, 'check not built yet in this session; see DESIGN.md')}
      for p in props if p not in m.CHECKS]
man = {
    'version': 1,
    'setup_cmd': './setup.sh',
    'hooks': m.HOOKS,
    'engines': [{
        'name': 'hypothesis-collect-shrink', 'path': 'harness/core.py',
        'serves_properties': [c['property_id'] for c in checks],
        'kind_free_text': 'Hypothesis strategies / generated operation lists / exhaustive product enumerations run in collecting mode over 16 sharded subprocesses; each violation bucket is re-run in raising mode so Hypothesis shrinks it to the replay file; harness-owned scheduler (C04) and crash/fault injection (C05, C06) provide schedules and faults',
    }],
    'checks': checks,
    'notes': m.NOTES,
    'not_applicable': na,
}
json.dump(man, open(os.path.join(HERE, '..', 'MANIFEST.json'), 'w'), indent=1)
print('wrote MANIFEST.json with', len(checks), 'checks,', len(na), 'not applicable')
