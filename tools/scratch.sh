#!/bin/sh
# usage: tools/scratch.sh <name>            -> creates /tmp/vz-mut-<name> (copy of /repo working tree, no .git)
#        tools/scratch.sh <name> --old FILE... -> additionally restores FILEs from the pinned snapshot commit d87c643
#        tools/scratch.sh <name> --rm       -> removes it
set -e
name=$1; shift
d=/tmp/vz-mut-$name
if [ "$1" = "--rm" ]; then rm -rf "$d"; exit 0; fi
rm -rf "$d"; mkdir -p "$d"
rsync -a --exclude .git --exclude '*.egg-info' /repo/ "$d"/
if [ "$1" = "--old" ]; then shift; for f in "$@"; do git -C /repo show d87c643:"$f" > "$d/$f"; done; fi
echo "$d"
