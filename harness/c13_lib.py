"""Helpers of the C13 check (restart equivalence of stateful designers).

Nothing here models a designer.  The module provides
  * `clock(t)`            patches `time.time` to a fixed value (the case decides
                          the values; they change at every step so that any
                          re-seeding from the clock after a restart shows);
  * `Transport`           moves a dumped `vz.Metadata` through one of the three
                          serialization paths of the property (direct object /
                          StudyConfig proto bytes / the real service on a
                          SQLite file whose servicer is re-created);
  * trial construction from suggestions + drawn feedback;
  * comparison helpers (suggestions, metadata, numpy populations, dumps);
  * the recording `Mutation` used to observe the phase and the
    "number of trials seen" of the evolutionary template through public
    constructor arguments only;
  * Hypothesis strategies for the step lists and the small finite grids of
    the service family.
"""
import contextlib
import copy
import json
import math
from unittest import mock

from hypothesis import strategies as st

from harness import spaces

ROOT_NS = 'designer_policy_v0'  # what the designer policies use
DESIGNER_NS = 'designer'
PATHS = ('direct', 'proto', 'sql')


# ---------------------------------------------------------------------------
# clock
# ---------------------------------------------------------------------------
class Hang(Exception):
  """A designer call did not return within the watchdog limit."""


@contextlib.contextmanager
def clock(t, limit=15.0):
  """time.time() == t + 0.25 inside the block (t < 2**31 - 1).

  Also arms a watchdog (real-time interval timer, main thread only): a
  designer call that is still running after `limit` seconds is interrupted by
  raising `Hang` inside it.  Designer calls take milliseconds; the firefly
  pool has a loop that never terminates for some pools (seen in run A, i.e.
  independent of restarts), which would otherwise stall a whole shard.
  """
  import signal
  import threading
  armed = threading.current_thread() is threading.main_thread()

  def on_alarm(signum, frame):
    del signum, frame
    raise Hang('designer call still running after %.0f s' % limit)

  if armed:
    previous = signal.signal(signal.SIGALRM, on_alarm)
    signal.setitimer(signal.ITIMER_REAL, limit)
  try:
    with mock.patch('time.time', return_value=float(t) + 0.25):
      yield
  finally:
    if armed:
      signal.setitimer(signal.ITIMER_REAL, 0)
      signal.signal(signal.SIGALRM, previous)


# ---------------------------------------------------------------------------
# serialization paths
# ---------------------------------------------------------------------------
_COLLECTED = []


def _collect_stale(base, fresh):
  """Once per process: removes directories that killed workers (shrink jobs
  are stopped with SIGKILL at their time cap) left behind more than 30 min
  ago.  "Now" is the mtime of the directory just created (time.time may be
  patched)."""
  if _COLLECTED:
    return
  _COLLECTED.append(True)
  import os
  import shutil
  try:
    now = os.stat(fresh).st_mtime
    for d in os.listdir(base):
      full = os.path.join(base, d)
      if d.startswith('verif-c13-') and full != fresh:
        try:
          if now - os.stat(full).st_mtime > 1800:
            shutil.rmtree(full, ignore_errors=True)
        except OSError:
          pass
  except OSError:
    pass


class DbFiles:
  """Per-case directory for SQLite files.

  Placed on /dev/shm when available: every SQLite commit fsyncs, which costs
  ~20 ms on the sandbox disk and nothing on tmpfs; it is still a database
  *file* that outlives the servicer object.
  """

  def __init__(self):
    self.dir = None

  def path(self, name):
    if self.dir is None:
      import os
      import tempfile
      base = '/dev/shm' if os.access('/dev/shm', os.W_OK) else None
      self.dir = tempfile.mkdtemp(prefix='verif-c13-', dir=base)
      _collect_stale(os.path.dirname(self.dir), self.dir)
    import os
    return os.path.join(self.dir, name)

  def close(self):
    if self.dir is not None:
      import shutil
      shutil.rmtree(self.dir, ignore_errors=True)
      self.dir = None


class Transport:
  """Carries a designer dump to the next instance the way a deployment does."""

  def __init__(self, problem):
    self._problem = problem
    self._tmp = None
    self._dbpath = None
    self._sname = None
    self.sql_roundtrips = 0

  def carry(self, md, path):
    if path == 'direct':
      return md
    if path == 'proto':
      return self._proto(md)
    if path == 'sql':
      return self._sql(md)
    raise ValueError(path)

  def _study_config(self):
    from vizier.service import pyvizier as svz
    return svz.StudyConfig.from_problem(copy.deepcopy(self._problem))

  def _proto(self, md):
    from vizier._src.service import study_pb2
    from vizier.service import pyvizier as svz
    sc = self._study_config()
    sc.metadata.ns(ROOT_NS).ns(DESIGNER_NS).attach(md)
    blob = sc.to_proto().SerializeToString()
    sc2 = svz.StudyConfig.from_proto(study_pb2.StudySpec.FromString(blob))
    return sc2.metadata.ns(ROOT_NS).ns(DESIGNER_NS)

  def _sql(self, md):
    from harness import svc
    from vizier import pyvizier as vz
    from vizier._src.service import vizier_client
    from vizier.service import pyvizier as svz
    if self._tmp is None:
      self._tmp = DbFiles()
      self._dbpath = self._tmp.path('c13.db')
      s = svc.make_servicer('sqlfile', dbpath=self._dbpath)
      try:
        sc = self._study_config()
        sc.algorithm = 'RANDOM_SEARCH'
        self._sname = svc.create_study(s, 'o', 's', config=sc).name
      finally:
        svc.close_servicer(s)
    s = svc.make_servicer('sqlfile', dbpath=self._dbpath)
    try:
      delta = vz.MetadataDelta()
      delta.on_study.ns(ROOT_NS).ns(DESIGNER_NS).attach(md)
      vizier_client.VizierClient(self._sname, 'w', s).update_metadata(delta)
    finally:
      svc.close_servicer(s)
    # "server restart": a new servicer on the same file.
    s = svc.make_servicer('sqlfile', dbpath=self._dbpath)
    try:
      study = s.GetStudy(svc.vsp.GetStudyRequest(name=self._sname))
      sc2 = svz.StudyConfig.from_proto(study.study_spec)
    finally:
      svc.close_servicer(s)
    self.sql_roundtrips += 1
    return sc2.metadata.ns(ROOT_NS).ns(DESIGNER_NS)

  def close(self):
    if self._tmp is not None:
      self._tmp.close()
      self._tmp = None


# ---------------------------------------------------------------------------
# problems, trials
# ---------------------------------------------------------------------------
def make_problem(spec, metrics):
  """metrics: [[name, goal, safety_threshold|None], ...]."""
  from vizier import pyvizier as vz
  ps = vz.ProblemStatement()
  spaces.build(spec, ps.search_space)
  for name, goal, safety in metrics:
    kw = {}
    if safety is not None:
      kw['safety_threshold'] = safety
    ps.metric_information.append(vz.MetricInformation(
        name, goal=getattr(vz.ObjectiveMetricGoal, goal), **kw))
  return ps


def finish(trial, fb, metric_names):
  """Completes `trial` in place according to feedback fb.

  fb = ['ok', [v0, v1, ...]] | ['inf', [v...]] | ['inf0']  (infeasible without
  any measurement) ; values are cycled over the metric names.
  """
  from vizier import pyvizier as vz
  kind = fb[0]
  if kind == 'inf0':
    trial.complete(vz.Measurement(), infeasibility_reason='harness: infeasible')
    return trial
  vals = fb[1]
  metrics = {n: float(vals[i % len(vals)]) for i, n in enumerate(metric_names)}
  if kind == 'inf':
    trial.complete(vz.Measurement(metrics=metrics),
                   infeasibility_reason='harness: infeasible')
  else:
    trial.complete(vz.Measurement(metrics=metrics))
  return trial


# ---------------------------------------------------------------------------
# comparisons
# ---------------------------------------------------------------------------
def md_flat(md):
  """{(namespace tuple relative to md's current namespace, key): value}."""
  out = {}
  base = tuple(md.current_ns())
  for ns in md.subnamespaces():
    for k, v in md.abs_ns(base + tuple(ns)).items():
      out[(tuple(ns), k)] = v
  return out


def params_py(s):
  return {k: v.value for k, v in s.parameters.items()}


def same_value(a, b):
  if isinstance(a, str) or isinstance(b, str):
    return isinstance(a, str) and isinstance(b, str) and a == b
  if isinstance(a, float) and isinstance(b, float) and math.isnan(a):
    return math.isnan(b)
  return a == b


def same_params(pa, pb):
  return set(pa) == set(pb) and all(same_value(pa[k], pb[k]) for k in pa)


def compare_suggestions(sa, sb, with_metadata=True):
  """-> None if equal else (kind, detail); kind in count/params/metadata."""
  if len(sa) != len(sb):
    return 'count', 'A gave %d suggestions, B gave %d' % (len(sa), len(sb))
  for i, (a, b) in enumerate(zip(sa, sb)):
    pa, pb = params_py(a), params_py(b)
    if not same_params(pa, pb):
      return 'params', 'suggestion #%d: A=%r B=%r' % (i, pa, pb)
  if with_metadata:
    for i, (a, b) in enumerate(zip(sa, sb)):
      ma, mb = md_flat(a.metadata), md_flat(b.metadata)
      if ma != mb:
        keys = sorted(k for k in set(ma) | set(mb) if ma.get(k) != mb.get(k))
        k = keys[0]
        return 'metadata', 'suggestion #%d key %r: A=%.200r B=%.200r' % (
            i, k, ma.get(k), mb.get(k))
  return None


def dump_flat(md, ignore=()):
  """Flat view of a dump with run-specific keys removed."""
  d = md_flat(md)
  return {k: v for k, v in d.items() if k[1] not in ignore}


def first_diff(da, db):
  keys = sorted(k for k in set(da) | set(db) if da.get(k) != db.get(k))
  return keys[0] if keys else None


def population_diff(pa, pb):
  """Compares two numpy Populations field by field (value, shape, dtype)."""
  import attr
  import numpy as np
  da, db = attr.asdict(pa), attr.asdict(pb)
  for k in da:
    a, b = np.asarray(da[k]), np.asarray(db[k])
    if a.shape != b.shape:
      return k + '/shape', '%s: A%s B%s' % (k, a.shape, b.shape)
    if a.dtype != b.dtype:
      return k + '/dtype', '%s: A %s B %s' % (k, a.dtype, b.dtype)
    if not np.array_equal(a, b, equal_nan=True):
      return k + '/value', '%s: A=%s B=%s' % (k, a.tolist(), b.tolist())
  return None


def json_canon(s):
  return json.dumps(json.loads(s), sort_keys=True)


# ---------------------------------------------------------------------------
# recording mutation for the evolutionary template
# ---------------------------------------------------------------------------
def make_recorder():
  """Returns (mutation, callable, log).

  `mutation` is a deterministic templates.Mutation (no RNG: offsprings are a
  fixed function of the population and of `count`) that logs every call;
  `callable` is an adaptation_callable logging the "number of trials seen" it
  is given.  Both are handed to the designer through public constructor
  arguments.
  """
  import numpy as np
  from vizier._src.algorithms.evolution import numpy_populations
  from vizier._src.algorithms.evolution import templates
  log = []

  class RecMutation(templates.Mutation):

    def mutate(self, population, count):
      n = len(population)
      log.append(('mutate', n, count))
      dim = population.xs.shape[1]
      if n == 0:
        return numpy_populations.Offspring(np.zeros([0, dim]))
      idx = np.arange(count) % n
      shift = (0.37 * (1 + np.arange(count)) / (count + 1))[:, None]
      xs = (population.xs[idx] + shift) % 1.0
      return numpy_populations.Offspring(
          xs, population.ids[idx], population.generations[idx] + 1)

  mutation = RecMutation()

  def adaptation_callable(num_trials_seen):
    log.append(('seen', int(num_trials_seen)))
    return mutation

  return mutation, adaptation_callable, log


# ---------------------------------------------------------------------------
# strategies
# ---------------------------------------------------------------------------
VALUES = [0.0, 1.0, 1.0, -1.0, 2.5, -0.0, 7.0, 1e-9, -3e5]


def value():
  # a diverged evaluation reports an infinite objective: a legal metric value
  return st.one_of(
      st.sampled_from(VALUES), st.sampled_from(VALUES),
      st.floats(min_value=-1e6, max_value=1e6, allow_nan=False,
                allow_infinity=False).map(lambda v: round(v, 3)),
      st.floats(min_value=-1e6, max_value=1e6, allow_nan=False,
                allow_infinity=False).map(lambda v: round(v, 3)),
      st.sampled_from([float('inf'), float('-inf')]))


def chance(percent):
  """Boolean strategy, True with the given probability (no boundary bias)."""
  # the draw is bit-mixed: Hypothesis favours the boundary values of integer
  # ranges and the first elements of sampled_from lists, which would distort
  # the intended shares
  return st.integers(0, 2 ** 32 - 1).map(
      lambda x: (((x + 12345) * 2654435761 % 2 ** 32) >> 8) % 100 < percent)


def feedback(n_values=1, infeasible=True, weights=(6, 1, 1, 2), inf0=True):
  """One feedback item for one pending trial ('skip' leaves it ACTIVE)."""
  vals = st.lists(value(), min_size=n_values, max_size=n_values)
  ok = st.tuples(st.just('ok'), vals).map(list)
  opts = [ok] * weights[0]
  if infeasible:
    opts += [st.tuples(st.just('inf'), vals).map(list)] * weights[1]
    if inf0:
      opts += [st.just(['inf0'])] * weights[2]
  opts += [st.just(['skip'])] * weights[3]
  return st.one_of(*opts)


@st.composite
def steps(draw, n_values=1, infeasible=True, min_steps=3, max_steps=12,
          paths=PATHS, p_restart=0.45, max_count=5, inf0=True, min_count=1,
          eager=False):
  """Batch-size sequence x feedback x restart mask (with path per restart)."""
  n = draw(st.integers(min_steps, max_steps))
  # the mask style is drawn first so that "every step", "none" and sparse
  # masks all occur often
  style = draw(st.sampled_from(['sparse', 'sparse', 'dense', 'dense', 'all',
                                'late', 'late', 'none']))
  out = []
  for i in range(n):
    count = draw(st.integers(min_count, max_count))
    if eager:  # most pending trials get completed: long histories with data
      fb = draw(st.lists(feedback(n_values, infeasible, (12, 1, 1, 1),
                                  inf0=inf0), min_size=4, max_size=8))
    else:
      fb = draw(st.lists(feedback(n_values, infeasible, inf0=inf0),
                         min_size=0, max_size=8))
    if style == 'all':
      r = True
    elif style == 'none':
      r = False
    elif style == 'late':
      r = i >= n // 2 and draw(st.booleans())
    elif style == 'dense':
      r = draw(chance(75))
    else:
      r = draw(chance(int(p_restart * 100 * 2 / 3)))
    path = draw(st.sampled_from(list(paths))) if r else None
    out.append({'count': count, 'fb': fb, 'restart': path,
                'dt': draw(st.sampled_from([1, 1, 7, 3600, 86400]))})
  return out


def t0():
  # < 2**31 so that np.int32(time.time()) in quasi_random works for the
  # whole (patched) run
  return st.integers(1_000_000_000, 2_000_000_000)


def seed(none_share=True):
  opts = [st.integers(0, 2 ** 31 - 1), st.sampled_from([0, 1, 42])]
  if none_share:
    opts.append(st.none())
  return st.one_of(*opts)


def tame(spec):
  """Maps extreme DOUBLE bounds of a drawn spec into the range in which the
  (float32 based) parameter converters of the designers still work.

  Astronomic bounds make the live designer itself fail (converter overflow,
  a C15 matter); C13 only compares a live and a restarted instance, so such
  cases would be wasted.  The mapping is a deterministic function of the
  drawn spec (no rejection).
  """
  spec = copy.deepcopy(spec)
  for p in spec['params']:
    if p['kind'] != 'DOUBLE':
      continue
    lo, hi = p['lo'], p['hi']
    changed = False
    if max(abs(lo), abs(hi)) > 1e12:
      k = max(abs(lo), abs(hi)) / 1e6
      lo, hi, changed = lo / k, hi / k, True
    if p.get('scale') in ('LOG', 'REVERSE_LOG'):
      if lo < 1e-6:
        lo, changed = 1e-6 * (1 + (lo * 1e150) % 1), True
      if hi / lo > 1e8:
        hi, changed = lo * 1e6, True
      if hi <= lo:
        hi, changed = lo * 2, True
    if changed:
      p['lo'], p['hi'] = lo, hi
      if 'default' in p:
        p['default'] = lo
  return spec


def grid_size(spec, resolution=10):
  g = 1
  for p in spec['params']:
    g *= len(grid_axis(p, resolution)[1])
  return g


def grid_axis(p, resolution=10):
  """Independent description of one grid axis: (kind, values-or-count)."""
  k = p['kind']
  if k == 'DOUBLE':
    n = 1 if p['lo'] == p['hi'] else resolution
    return 'range', [None] * n
  if k == 'INTEGER':
    return 'set', list(range(p['lo'], p['hi'] + 1))
  if k in ('DISCRETE', 'CATEGORICAL'):
    return 'set', list(p['values'])
  return 'set', ['True', 'False']


@st.composite
def small_grid_space(draw, max_g=48, allow_double=True):
  """Flat space whose grid has at most max_g points (by construction)."""
  n = draw(st.integers(1, 3))
  names = draw(st.lists(st.sampled_from(spaces.NAMES), min_size=n, max_size=n,
                        unique=True))
  params = []
  room = max_g
  for i, nm in enumerate(names):
    kinds = ['INTEGER', 'DISCRETE', 'CATEGORICAL', 'BOOL']
    if allow_double and room >= 10 and not any(
        p['kind'] == 'DOUBLE' for p in params):
      kinds.append('DOUBLE')
    kind = draw(st.sampled_from(kinds))
    cap = max(1, min(5, room))
    if kind == 'BOOL' and room < 2:
      kind = 'CATEGORICAL'
    p = {'name': nm, 'kind': kind}
    if kind == 'INTEGER':
      lo = draw(st.sampled_from([0, 1, -3, 7]))
      w = draw(st.integers(0, cap - 1))
      p.update(lo=lo, hi=lo + w, scale=draw(st.sampled_from([None, 'LINEAR'])))
      size = w + 1
    elif kind == 'DISCRETE':
      size = draw(st.integers(1, cap))
      vals = draw(st.lists(st.sampled_from(
          [-2.5, -1, 0, 0.5, 1, 2, 3.25, 10, 100]), min_size=size,
          max_size=size, unique=True))
      p.update(values=sorted(vals), scale=None,
               auto_cast=draw(st.booleans()))
    elif kind == 'CATEGORICAL':
      size = draw(st.integers(1, cap))
      vals = draw(st.lists(st.sampled_from(
          ['a', 'b', 'c', 'True', '', '0', 'é', 'a:b']), min_size=size,
          max_size=size, unique=True))
      p.update(values=sorted(vals))
    elif kind == 'BOOL':
      size = 2
    else:
      lo, hi = draw(st.sampled_from([(0.0, 1.0), (-5.0, 5.0), (1e-3, 10.0),
                                     (2.0, 2.0)]))
      scale = draw(st.sampled_from([None, 'LINEAR', 'LOG'])) if lo > 0 else (
          draw(st.sampled_from([None, 'LINEAR'])))
      p.update(lo=lo, hi=hi, scale=scale)
      size = 1 if lo == hi else 10
    room = max(1, room // size)
    params.append(p)
  return {'params': params}
