"""Prototype: pure-python proto3 -> FileDescriptorProto compiler + module synthesizer."""
import re, sys, types, os
from google.protobuf import descriptor_pb2, descriptor_pool, message_factory, symbol_database
from google.protobuf.internal import builder as _builder

TOK = re.compile(r'''\s+|//[^\n]*|/\*.*?\*/|(?P<str>"(?:\\.|[^"\\])*"|'(?:\\.|[^'\\])*')|(?P<id>[A-Za-z_][\w.]*)|(?P<num>-?\d[\w.+-]*)|(?P<sym>[{}()\[\]<>=;,.:-])''', re.S)

def tokenize(src):
  pos, out = 0, []
  while pos < len(src):
    m = TOK.match(src, pos)
    if not m: raise SyntaxError(f'bad char at {pos}: {src[pos:pos+20]!r}')
    pos = m.end()
    if m.lastgroup: out.append((m.lastgroup, m.group(m.lastgroup)))
  return out

SCALARS = {n: getattr(descriptor_pb2.FieldDescriptorProto, 'TYPE_' + n.upper()) for n in
           'double float int32 int64 uint32 uint64 sint32 sint64 fixed32 fixed64 sfixed32 sfixed64 bool string bytes'.split()}
F = descriptor_pb2.FieldDescriptorProto

class Parser:
  def __init__(self, src, fname):
    self.t = tokenize(src); self.i = 0
    self.fd = descriptor_pb2.FileDescriptorProto(name=fname)
    self.unresolved = []  # (field_or_method, attr, scope)
  def peek(self): return self.t[self.i][1] if self.i < len(self.t) else None
  def next(self):
    v = self.t[self.i][1]; self.i += 1; return v
  def expect(self, s):
    v = self.next()
    if v != s: raise SyntaxError(f'expected {s!r} got {v!r} near token {self.i}')
  def skip_balanced(self, open_, close):
    depth = 1
    while depth:
      v = self.next()
      if v == open_: depth += 1
      elif v == close: depth -= 1
  def skip_statement(self):
    # skip until ';' at depth 0, honouring braces
    while True:
      v = self.next()
      if v == '{': self.skip_balanced('{', '}')
      elif v == ';': return
  def parse(self):
    while self.peek() is not None:
      v = self.next()
      if v == 'syntax': self.expect('='); self.fd.syntax = eval(self.next()); self.expect(';')
      elif v == 'package': self.fd.package = self.next(); self.expect(';')
      elif v == 'import':
        if self.peek() in ('public', 'weak'): self.next()
        self.fd.dependency.append(eval(self.next())); self.expect(';')
      elif v == 'option': self.skip_statement()
      elif v == 'message': self.message(self.fd.message_type.add(), self.fd.package)
      elif v == 'enum': self.enum(self.fd.enum_type.add())
      elif v == 'service': self.service(self.fd.service.add())
      elif v == ';': pass
      else: raise SyntaxError(f'unexpected top-level {v!r}')
    return self.fd
  def enum(self, e):
    e.name = self.next(); self.expect('{')
    while self.peek() != '}':
      v = self.next()
      if v == 'option' or v == 'reserved': self.skip_statement(); continue
      if v == ';': continue
      self.expect('='); num = int(self.next(), 0)
      if self.peek() == '[': self.next(); self.skip_balanced('[', ']')
      self.expect(';'); e.value.add(name=v, number=num)
    self.expect('}')
  def message(self, m, scope):
    m.name = self.next(); scope = f'{scope}.{m.name}' if scope else m.name
    self.expect('{')
    while self.peek() != '}':
      v = self.next()
      if v == ';': continue
      if v == 'option': self.skip_statement()
      elif v == 'reserved':
        while True:
          a = self.next()
          if a.startswith('"') or a.startswith("'"): m.reserved_name.append(eval(a))
          else:
            lo = int(a, 0); hi = lo
            if self.peek() == 'to': self.next(); h = self.next(); hi = 536870911 if h == 'max' else int(h, 0)
            m.reserved_range.add(start=lo, end=hi + 1)
          if self.next() == ';': break
      elif v == 'message': self.message(m.nested_type.add(), scope)
      elif v == 'enum': self.enum(m.enum_type.add())
      elif v == 'oneof':
        idx = len(m.oneof_decl); m.oneof_decl.add(name=self.next()); self.expect('{')
        while self.peek() != '}':
          w = self.next()
          if w == 'option': self.skip_statement(); continue
          if w == ';': continue
          f = self.field(m, w, scope, label=None); f.oneof_index = idx
        self.expect('}')
      elif v == 'map': raise NotImplementedError('map fields')
      elif v in ('extensions', 'extend', 'group'): raise NotImplementedError(v)
      else:
        label = None
        if v in ('repeated', 'optional', 'required'): label = v; v = self.next()
        self.field(m, v, scope, label)
    self.expect('}')
    # proto3 optional -> synthetic oneofs, appended after real oneofs
    for f in m.field:
      if f.proto3_optional:
        f.oneof_index = len(m.oneof_decl); m.oneof_decl.add(name='_' + f.name)
  def field(self, m, typ, scope, label):
    f = m.field.add(); f.name = self.next(); self.expect('='); f.number = int(self.next(), 0)
    f.label = F.LABEL_REPEATED if label == 'repeated' else F.LABEL_OPTIONAL
    if label == 'optional': f.proto3_optional = True
    if typ in SCALARS: f.type = SCALARS[typ]
    else: self.unresolved.append((f, 'type_name', typ, scope))
    # json_name as protoc computes it
    parts = f.name.split('_'); f.json_name = parts[0] + ''.join(p[:1].upper() + p[1:] for p in parts[1:])
    if self.peek() == '[': self.next(); self.skip_balanced('[', ']')
    self.expect(';'); return f
  def service(self, s):
    s.name = self.next(); self.expect('{')
    while self.peek() != '}':
      v = self.next()
      if v == 'option': self.skip_statement(); continue
      if v == ';': continue
      assert v == 'rpc', v
      meth = s.method.add(name=self.next())
      for attr, sattr in (('input_type', 'client_streaming'), ('output_type', 'server_streaming')):
        self.expect('(')
        t = self.next()
        if t == 'stream': setattr(meth, sattr, True); t = self.next()
        self.unresolved.append((meth, attr, t, self.fd.package)); self.expect(')')
        if attr == 'input_type': self.expect('returns')
      if self.peek() == '{': self.next(); self.skip_balanced('{', '}')
      else: self.expect(';')
    self.expect('}')

def _local_symbols(fd):
  syms = {}
  def walk(msgs, enums, prefix):
    for e in enums: syms[f'{prefix}.{e.name}'.lstrip('.')] = 'enum'
    for m in msgs:
      full = f'{prefix}.{m.name}'.lstrip('.'); syms[full] = 'message'
      walk(m.nested_type, m.enum_type, full)
  walk(fd.message_type, fd.enum_type, fd.package)
  return syms

def resolve(parser, pool):
  fd = parser.fd; syms = _local_symbols(fd)
  def lookup(full):
    if full in syms: return syms[full]
    try: pool.FindMessageTypeByName(full); return 'message'
    except KeyError: pass
    try: pool.FindEnumTypeByName(full); return 'enum'
    except KeyError: return None
  for obj, attr, name, scope in parser.unresolved:
    if name.startswith('.'): cands = [name[1:]]
    else:
      parts = scope.split('.') if scope else []
      cands = ['.'.join(parts[:k] + [name]) for k in range(len(parts), -1, -1)]
    for c in cands:
      kind = lookup(c)
      if kind: break
    else: raise NameError(f'{fd.name}: cannot resolve {name!r} in {scope!r}')
    setattr(obj, attr, '.' + c)
    if attr == 'type_name': obj.type = F.TYPE_MESSAGE if kind == 'message' else F.TYPE_ENUM

def compile_proto(path, fname, pool):
  p = Parser(open(path).read(), fname); p.parse(); resolve(p, pool); return p.fd
