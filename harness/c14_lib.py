"""Helpers of the C14 check (seeded algorithms / benchmark runs are reproducible).

Nothing here models an algorithm.  The module
  * builds the designers through their public entry points (constructor or
    `from_problem`) from a JSON description;
  * executes one *seeded run* (`run_stream`: interactive suggest / complete /
    update protocol with the feedback fixed by the case; `run_bench`:
    BenchmarkStateFactory(seed) + BenchmarkRunner) inside an *execution
    environment* (`environment`: global numpy / python RNG state, patched
    `time.time`, an unrelated study executed first) and returns the observed
    suggestions / trial sequence as plain JSON;
  * re-executes a list of runs in a **fresh subprocess** (`run_in_child`) with
    a chosen PYTHONHASHSEED;
  * compares two observations (`first_diff`).
"""
import contextlib
import copy
import json
import math
import os
import random as py_random
import subprocess
import sys
from unittest import mock

VERIF = os.path.dirname(os.path.dirname(os.path.abspath(__file__)))

CHEAP = ('random', 'quasi', 'grid', 'eagle', 'nsga2', 'cmaes')
GP = ('gp_bandit', 'gp_ucb_pe')
# designers whose suggestion path runs through jit-compiled jax code: the
# property allows rtol=1e-12 ACROSS processes for them (bit-equality inside
# one process)
JITTED = ('cmaes',) + GP
# which flat parameter kinds each designer documents / accepts
KINDS = {
    'random': ('DOUBLE', 'INTEGER', 'DISCRETE', 'CATEGORICAL', 'BOOL'),
    'quasi': ('DOUBLE', 'INTEGER', 'DISCRETE', 'CATEGORICAL', 'BOOL'),
    'grid': ('DOUBLE', 'INTEGER', 'DISCRETE', 'CATEGORICAL', 'BOOL'),
    'eagle': ('DOUBLE', 'INTEGER', 'DISCRETE', 'CATEGORICAL', 'BOOL'),
    'nsga2': ('DOUBLE', 'INTEGER', 'DISCRETE', 'CATEGORICAL', 'BOOL'),
    'cmaes': ('DOUBLE',),
    'gp_bandit': ('DOUBLE', 'INTEGER', 'DISCRETE', 'CATEGORICAL', 'BOOL'),
    'gp_ucb_pe': ('DOUBLE', 'INTEGER', 'DISCRETE', 'CATEGORICAL', 'BOOL'),
}


# ---------------------------------------------------------------------------
# execution environment
# ---------------------------------------------------------------------------
@contextlib.contextmanager
def environment(env):
  """Global state a seeded run must not depend on.

  env = {'np': int, 'py': int, 'time': number, 'unrelated': desc|None}
  Sets the global numpy and python RNGs, patches time.time() to a constant and
  (optionally) runs an unrelated study first.  Everything is restored on
  exit.  The global RNGs are *set* (not left alone) in every run so that a
  designer drawing from them gives a replayable difference instead of a flaky
  one.
  """
  import numpy as np
  st_py = py_random.getstate()
  st_np = np.random.get_state()
  try:
    np.random.seed(env['np'] % (2 ** 32))
    py_random.seed(env['py'])
    with mock.patch('time.time', return_value=float(env['time']) + 0.125):
      if env.get('unrelated'):
        run_unrelated(env['unrelated'])

      def tick(i):
        # called before every designer call / benchmark subroutine: the
        # global RNGs are put into a state that depends on the environment
        np.random.seed((env['np'] + 7919 * (i + 1)) % (2 ** 32))
        py_random.seed(env['py'] + 104729 * (i + 1))
      tick(-1)
      yield tick
  finally:
    py_random.setstate(st_py)
    np.random.set_state(st_np)


def run_unrelated(desc):
  """Another study in the same process: {'designer', 'seed', 'n'}."""
  from vizier import algorithms as vza
  from vizier import pyvizier as vz
  name = desc['designer']
  ps = vz.ProblemStatement()
  ps.search_space.root.add_float_param('u0', -2.0, 3.0)
  ps.search_space.root.add_float_param('u1', 0.5, 8.0)
  if name != 'cmaes':
    ps.search_space.root.add_categorical_param('uc', ['p', 'q', 'r'])
    ps.search_space.root.add_int_param('ui', 0, 6)
  ps.metric_information.append(vz.MetricInformation(
      'um', goal=vz.ObjectiveMetricGoal.MAXIMIZE))
  d = make_designer(name, ps, desc['seed'], {}, 'ctor')
  tid = 1
  for _ in range(desc.get('rounds', 2)):
    sugg = list(d.suggest(desc.get('n', 3)))
    done = []
    for s in sugg:
      t = s.to_trial(tid)
      t.complete(vz.Measurement(metrics={'um': float(tid % 5)}))
      done.append(t)
      tid += 1
    d.update(vza.CompletedTrials(done), vza.ActiveTrials([]))


# ---------------------------------------------------------------------------
# problems / designers
# ---------------------------------------------------------------------------
def make_problem(spec, metrics):
  """metrics: [[name, goal], ...]."""
  from harness import spaces
  from vizier import pyvizier as vz
  ps = vz.ProblemStatement()
  spaces.build(spec, ps.search_space)
  for name, goal in metrics:
    ps.metric_information.append(vz.MetricInformation(
        name, goal=getattr(vz.ObjectiveMetricGoal, goal)))
  return ps


def gp_kwargs(opts):
  """Reduced optimiser budgets, through public constructor arguments only."""
  from vizier._src.algorithms.optimizers import eagle_strategy as es
  from vizier._src.algorithms.optimizers import vectorized_base as vb
  from vizier.jax import optimizers
  kw = {}
  kw['acquisition_optimizer_factory'] = vb.VectorizedOptimizerFactory(
      strategy_factory=es.VectorizedEagleStrategyFactory(),
      max_evaluations=opts.get('max_evaluations', 500),
      suggestion_batch_size=opts.get('suggestion_batch_size', 25))
  kw['ard_optimizer'] = optimizers.default_optimizer(
      maxiter=opts.get('ard_maxiter', 5))
  kw['ard_random_restarts'] = opts.get('ard_random_restarts', 1)
  if 'num_seed_trials' in opts:
    kw['num_seed_trials'] = opts['num_seed_trials']
  return kw


def designer_factory(name, opts, entry):
  """-> callable(problem, seed=...) -> designer (a vza.DesignerFactory).

  entry 'ctor'          the class constructor with its seed / rng argument
        'from_problem'  the `from_problem(problem, seed)` class method where
                        the class has one (what the policies use)
  """
  opts = opts or {}

  def factory(problem, seed=None, **kwargs):
    del kwargs
    if name == 'random':
      from vizier._src.algorithms.designers import random as m
      if entry == 'from_problem':
        return m.RandomDesigner.from_problem(problem, seed=seed)
      return m.RandomDesigner(problem.search_space, seed=seed)
    if name == 'quasi':
      from vizier._src.algorithms.designers import quasi_random as m
      if entry == 'from_problem':
        return m.QuasiRandomDesigner.from_problem(problem, seed=seed)
      return m.QuasiRandomDesigner(
          problem.search_space, skip_points=opts.get('skip_points', 1000),
          seed=seed)
    if name == 'grid':
      from vizier._src.algorithms.designers import grid as m
      if entry == 'from_problem':
        return m.GridSearchDesigner.from_problem(problem, seed=seed)
      return m.GridSearchDesigner(
          problem.search_space, seed,
          double_grid_resolution=opts.get('double_grid_resolution', 10))
    if name == 'eagle':
      from vizier._src.algorithms.designers.eagle_strategy import eagle_strategy as m
      cfg = None
      if opts.get('config'):
        cfg = m.FireflyAlgorithmConfig(**opts['config'])
      return m.EagleStrategyDesigner(problem, config=cfg, seed=seed)
    if name == 'nsga2':
      from vizier._src.algorithms.evolution import nsga2 as m
      return m.NSGA2Designer(
          problem, population_size=opts.get('population_size', 50),
          first_survival_after=opts.get('first_survival_after'),
          eviction_limit=opts.get('eviction_limit'), seed=seed)
    if name == 'cmaes':
      from vizier._src.algorithms.designers import cmaes as m
      kw = {'seed': seed}
      if opts.get('pop_size'):
        kw['pop_size'] = opts['pop_size']
      return m.CMAESDesigner(problem, **kw)
    if name == 'gp_bandit':
      import jax
      from vizier._src.algorithms.designers import gp_bandit as m
      kw = gp_kwargs(opts)
      if entry == 'from_problem':
        return m.VizierGPBandit.from_problem(problem, seed=seed, **kw)
      return m.VizierGPBandit(problem, rng=jax.random.PRNGKey(seed), **kw)
    if name == 'gp_ucb_pe':
      import jax
      from vizier._src.algorithms.designers import gp_ucb_pe as m
      kw = gp_kwargs(opts)
      return m.VizierGPUCBPEBandit(problem, rng=jax.random.PRNGKey(seed), **kw)
    raise ValueError(name)

  return factory


def make_designer(name, problem, seed, opts, entry):
  return designer_factory(name, opts, entry)(problem, seed=seed)


# ---------------------------------------------------------------------------
# observations
# ---------------------------------------------------------------------------
def py_value(v):
  """ParameterValue.value -> JSON-able python value (type preserved)."""
  if isinstance(v, bool):
    return bool(v)
  if isinstance(v, str):
    return v
  if isinstance(v, int):
    return int(v)
  if isinstance(v, float):
    return float(v)
  # numpy scalars
  try:
    import numpy as np
    if isinstance(v, np.integer):
      return int(v)
    if isinstance(v, np.floating):
      return float(v)
  except ImportError:
    pass
  return repr(v)


def params_py(parameters):
  # insertion order is kept on purpose (a list of pairs): the *order* in which
  # a designer emits parameters is not part of the property, the dict content
  # is; comparison is by name.
  return {str(k): py_value(v.value) for k, v in parameters.items()}


def finish(trial, fb, metric_names):
  """fb = ['ok', [v...]] | ['inf', [v...]] | ['inf0']."""
  from vizier import pyvizier as vz
  kind = fb[0]
  if kind == 'inf0':
    trial.complete(vz.Measurement(), infeasibility_reason='harness')
    return trial
  vals = fb[1]
  metrics = {n: float(vals[i % len(vals)]) for i, n in enumerate(metric_names)}
  if kind == 'inf':
    trial.complete(vz.Measurement(metrics=metrics),
                   infeasibility_reason='harness')
  else:
    trial.complete(vz.Measurement(metrics=metrics))
  return trial


def _err(where, e):
  return {'where': where, 'type': type(e).__name__, 'msg': str(e)[:300]}


def run_stream(run, env):
  """One seeded run of the interactive protocol with a fresh designer.

  run = {'designer', 'entry', 'opts', 'space', 'metrics', 'seed',
         'prior': [[point, fb], ...], 'steps': [{'count', 'fb': [...]}, ...]}
  Returns {'stream': [[params, ...] per suggest call], 'error': None|{...}}.
  `prior` trials are completed trials NOT suggested by the designer (ids 1..n)
  handed over in the first update; every step is suggest(count), then the
  pending trials are completed from `fb` in order ('skip' leaves one ACTIVE)
  and the designer is updated with the newly completed + all active trials.
  """
  from vizier import algorithms as vza
  from vizier import pyvizier as vz
  obs = {'stream': [], 'error': None}
  names = [m[0] for m in run['metrics']]
  with environment(env) as tick:
    try:
      problem = make_problem(run['space'], run['metrics'])
      d = make_designer(run['designer'], problem, run['seed'],
                        run.get('opts') or {}, run.get('entry', 'ctor'))
    except Exception as e:  # pylint: disable=broad-except
      obs['error'] = _err('ctor', e)
      return obs
    next_id = 1
    if run.get('prior'):
      done = []
      for point, fb in run['prior']:
        t = vz.Trial(id=next_id, parameters=point)
        next_id += 1
        done.append(finish(t, fb, names))
      try:
        d.update(vza.CompletedTrials(done), vza.ActiveTrials([]))
      except Exception as e:  # pylint: disable=broad-except
        obs['error'] = _err('update_prior', e)
        return obs
    pending = []
    for i, step in enumerate(run['steps']):
      tick(2 * i)
      try:
        sugg = list(d.suggest(step['count']))
      except Exception as e:  # pylint: disable=broad-except
        obs['error'] = _err('suggest#%d' % i, e)
        return obs
      obs['stream'].append([params_py(s.parameters) for s in sugg])
      for s in sugg:
        pending.append(s.to_trial(next_id))
        next_id += 1
      fbs = list(step['fb'])
      completed, still = [], []
      for t in pending:
        fb = fbs.pop(0) if fbs else ['skip']
        if fb[0] == 'skip':
          still.append(t)
        else:
          completed.append(finish(t, fb, names))
      pending = still
      tick(2 * i + 1)
      try:
        d.update(vza.CompletedTrials(copy.deepcopy(completed)),
                 vza.ActiveTrials(copy.deepcopy(pending)))
      except Exception as e:  # pylint: disable=broad-except
        obs['error'] = _err('update#%d' % i, e)
        return obs
  return obs


# ---------------------------------------------------------------------------
# benchmark path
# ---------------------------------------------------------------------------
def make_experimenter_factory(ex):
  """ex = {'kind': 'branin'|'bbob'|'simplekd', ...} -> () -> Experimenter."""
  from vizier._src.benchmarks.experimenters import experimenter_factory as ef
  kind = ex['kind']
  if kind == 'branin':
    from vizier._src.benchmarks.experimenters.synthetic import branin

    def base():
      return branin.Branin2DExperimenter()
  elif kind == 'bbob':
    base_f = ef.BBOBExperimenterFactory(
        name=ex['name'], dim=ex['dim'],
        rotation_seed=ex.get('rotation_seed', 0))
    kw = {}
    if ex.get('discrete'):
      kw['discrete_dict'] = {int(k): int(v) for k, v in ex['discrete']}
    if ex.get('categorical'):
      kw['categorical_dict'] = {int(k): int(v) for k, v in ex['categorical']}
    if ex.get('noise'):
      kw['noise_type'] = ex['noise'][0]
      kw['noise_seed'] = ex['noise'][1]
    if ex.get('shift') is not None:
      import numpy as np
      kw['shift'] = np.asarray(ex['shift'], dtype=float)
    if kw:
      return ef.SingleObjectiveExperimenterFactory(base_f, **kw)
    return base_f
  elif kind == 'simplekd':
    from vizier._src.benchmarks.experimenters.synthetic import simplekd

    def base():
      return simplekd.SimpleKDExperimenter(
          ex['best_category'], num_float_param=ex.get('n', 1),
          num_discrete_param=ex.get('n', 1), num_int_param=ex.get('n', 1),
          output_relative_error=ex.get('relative', True))
  else:
    raise ValueError(kind)
  if ex.get('noise'):
    from vizier._src.benchmarks.experimenters import noisy_experimenter
    noise = ex['noise']

    def noisy():
      return noisy_experimenter.NoisyExperimenter.from_type(
          base(), noise_type=noise[0], seed=noise[1])
    return noisy
  return base


def trial_obs(t):
  fm = t.final_measurement
  return {
      'id': int(t.id),
      'status': t.status.name,
      'params': params_py(t.parameters),
      'infeasible': bool(t.infeasible),
      'metrics': None if fm is None else {
          str(k): float(m.value) for k, m in fm.metrics.items()},
  }


def _state_factory(bs, run):
  exf = make_experimenter_factory(run['experimenter'])
  df = designer_factory(run['designer'], run.get('opts') or {},
                        run.get('entry', 'ctor'))
  if run.get('via') == 'exptr':
    return bs.DesignerBenchmarkStateFactory(
        experimenter=exf(), designer_factory=df)
  return bs.ExperimenterDesignerBenchmarkStateFactory(
      experimenter_factory=exf, designer_factory=df)


def _subroutines(br, protocol, reseed):
  subs = []
  for op in protocol:
    if op[0] == 'suggest':
      subs.append(br.GenerateSuggestions(op[1]))
    elif op[0] == 'evaluate':
      subs.append(br.EvaluateActiveTrials(op[1]))
    elif op[0] == 'suggest_evaluate':
      subs.append(br.GenerateAndEvaluate(op[1]))
    elif op[0] == 'fill':
      subs.append(br.FillActiveTrials(op[1]))
    else:
      raise ValueError(op)
    subs.append(reseed())
  return subs


def run_bench(run, env):
  """A seeded benchmark run -> {'trials', 'prior', 'error': None|{...}}.

  run = {'designer', 'entry', 'opts', 'experimenter': {...}, 'seed',
         'via': 'exptr_factory'|'exptr',
         'protocol': [['suggest', n] | ['evaluate', k|None] |
                      ['suggest_evaluate', n] | ['fill', n], ...],
         'repeats': r,
         'prior_studies': [{'guid': str|None, 'seed': int,
                            'where': 'before'|'each_repeat',
                            + the keys of a run that describe the prior
                            benchmark (designer .. repeats)}, ...]}
  Every prior study becomes an `EvaluateAndAddPriorStudy(benchmark_runner=
  BenchmarkRunner(...), benchmark_state_factory=..., study_guid=guid,
  seed=seed)` subroutine, placed before the repeated main protocol or at the
  start of every repeat.  'prior' lists the prior studies attached to the
  supporter, in insertion order, with their trials (GetTrials(study_guid=)).
  """
  from vizier._src.benchmarks.runners import benchmark_runner as br
  from vizier._src.benchmarks.runners import benchmark_state as bs
  obs = {'trials': [], 'prior': [], 'error': None}
  with environment(env) as tick:
    counter = [0]

    class Reseed(br.BenchmarkSubroutine):
      """Harness subroutine: perturbs the global RNGs between the steps."""

      def run(self, state):
        del state
        counter[0] += 1
        tick(counter[0])

    try:
      factory = _state_factory(bs, run)
      state = factory(seed=run['seed'])
      before, each = [], []
      for ps in run.get('prior_studies') or []:
        sub = br.EvaluateAndAddPriorStudy(
            benchmark_runner=br.BenchmarkRunner(
                benchmark_subroutines=_subroutines(br, ps['protocol'], Reseed),
                num_repeats=ps.get('repeats', 1)),
            benchmark_state_factory=_state_factory(bs, ps),
            study_guid=ps.get('guid'), seed=ps['seed'])
        (each if ps.get('where') == 'each_repeat' else before).extend(
            [sub, Reseed()])
      runner = br.BenchmarkRunner(
          benchmark_subroutines=each + _subroutines(br, run['protocol'],
                                                    Reseed),
          num_repeats=run.get('repeats', 1))
      if before:
        runner = br.BenchmarkRunner(benchmark_subroutines=before + [runner],
                                    num_repeats=1)
    except Exception as e:  # pylint: disable=broad-except
      obs['error'] = _err('setup', e)
      return obs
    try:
      runner.run(state)
    except Exception as e:  # pylint: disable=broad-except
      obs['error'] = _err('run', e)
    if run.get('second_state') and obs['error'] is None:
      # the same state-factory object is asked for another state with the same
      # seed (what a repeated benchmark does): an identical run
      try:
        state2 = factory(seed=run['seed'])
        runner.run(state2)
        obs['second'] = [trial_obs(t)
                         for t in state2.algorithm.supporter.GetTrials()]
      except Exception as e:  # pylint: disable=broad-except
        obs['second'] = {'error': _err('second_state', e)}
    try:
      sup = state.algorithm.supporter
      obs['trials'] = [trial_obs(t) for t in sup.GetTrials()]
      explicit = {ps.get('guid') for ps in run.get('prior_studies') or []}
      for guid in list(sup.prior_studies):
        obs['prior'].append({
            # an unnamed prior study gets a uuid1 guid: not compared
            'guid': guid if guid in explicit else None,
            'trials': [trial_obs(t) for t in sup.GetTrials(study_guid=guid)]})
    except Exception as e:  # pylint: disable=broad-except
      obs['error'] = obs['error'] or _err('get_trials', e)
  return obs


POLICY_ROOT_NS = 'designer_policy_v0'  # what the designer policies use
POLICY_DESIGNER_NS = 'designer'
# NSGA-II is hostable too, but a hosted NSGA-II is not reproducible (known
# finding pinned/C14/hosted_nsga2_rng_not_restored.json): it is left out of the
# generated cases so that the search continues behind it.
HOSTABLE = ('quasi', 'grid', 'eagle', 'cmaes')


def run_policy(run, env):
  """The seeded designer hosted the way the service hosts it.

  A fresh PartiallySerializableDesignerPolicy(problem, supporter, factory,
  seed=run['seed']) is built for every request against one
  InRamPolicySupporter (the policy restores the designer from the study
  metadata).  Before the requests named in run['damage'] the stored *designer*
  state is made undecodable (version skew / truncated write), the policy's own
  cache state is left alone: the policy has to start the designer over - with
  its seed.  Returns {'stream': [...], 'post': suggestions from the first
  damaged request on, 'error'}.
  """
  from vizier import pythia
  from vizier import pyvizier as vz
  from vizier._src.algorithms.policies import designer_policy as dp
  obs = {'stream': [], 'post': [], 'error': None}
  names = [m[0] for m in run['metrics']]
  damage = set(run.get('damage') or ())
  with environment(env) as tick:
    try:
      problem = make_problem(run['space'], run['metrics'])
      sup = pythia.InRamPolicySupporter(problem)
      factory = designer_factory(run['designer'], run.get('opts') or {},
                                 run.get('entry', 'ctor'))
    except Exception as e:  # pylint: disable=broad-except
      obs['error'] = _err('ctor', e)
      return obs
    damaged = False
    pending = []
    for i, step in enumerate(run['steps']):
      tick(2 * i)
      if i in damage and i > 0:
        ns = sup.study_config.metadata.ns(POLICY_ROOT_NS).ns(
            POLICY_DESIGNER_NS)
        style = run.get('damage_style', 'lost_all')
        slots = [(sub, k) for sub in sorted(ns.namespaces(), key=repr)
                 for k in sorted(ns.abs_ns(sub).keys())]
        if style.split(':')[0].endswith('_one') and slots:
          slots = [slots[int(style.split(':')[1]) % len(slots)]]
        for sub, k in slots:
          layer = ns.abs_ns(sub)
          old = layer[k]
          if style.startswith('lost') or not isinstance(old, str):
            layer[k] = '<lost'  # e.g. written by a different version
          elif style.startswith('truncate'):
            layer[k] = old[:len(old) // 2]  # e.g. a cut-off write
          else:
            del layer[k]
        damaged = True
      try:
        policy = dp.PartiallySerializableDesignerPolicy(
            problem, sup, factory, seed=run['seed'])
        got = list(sup.SuggestTrials(policy, step['count']))
      except Exception as e:  # pylint: disable=broad-except
        obs['error'] = _err('suggest#%d' % i, e)
        return obs
      batch = [params_py(t.parameters) for t in got]
      obs['stream'].append(batch)
      if damaged:
        obs['post'].append(batch)
      pending.extend(got)
      fbs = list(step['fb'])
      still = []
      for t in pending:
        fb = fbs.pop(0) if fbs else ['skip']
        if fb[0] == 'skip':
          still.append(t)
        else:
          finish(t, fb, names)
      pending = still
      tick(2 * i + 1)
  return obs


def execute(item):
  """item = {'kind': 'stream'|'bench'|'policy', 'run': {...}, 'env': {...}}."""
  if item['kind'] == 'stream':
    return run_stream(item['run'], item['env'])
  if item['kind'] == 'policy':
    return run_policy(item['run'], item['env'])
  return run_bench(item['run'], item['env'])


# ---------------------------------------------------------------------------
# fresh subprocess
# ---------------------------------------------------------------------------
_CHILD = ("import sys; sys.path.insert(0, %r); from harness import boot; "
          "boot.init(); from harness import c14_lib; c14_lib.child_main()")


def child_main():
  items = json.loads(sys.stdin.read())
  res = []
  for it in items:
    try:
      res.append(execute(it))
    except Exception as e:  # pylint: disable=broad-except
      res.append({'harness_error': '%s: %s' % (type(e).__name__, e)})
  sys.stdout.write('\n@@C14@@' + json.dumps(
      {'hashseed': os.environ.get('PYTHONHASHSEED'), 'pid': os.getpid(),
       'results': res}, allow_nan=True))
  sys.stdout.flush()


def start_child(items, hashseed):
  """Starts a fresh interpreter that executes the items.

  The child re-enters through /venv/bin/python + harness.boot (VERIF_REPO is
  inherited, so a scratch copy of the repository is honoured).
  """
  import tempfile
  env = dict(os.environ)
  env['PYTHONHASHSEED'] = str(hashseed)
  env.setdefault('JAX_PLATFORMS', 'cpu')
  env.setdefault('TF_CPP_MIN_LOG_LEVEL', '3')
  py = '/venv/bin/python' if os.path.exists('/venv/bin/python') else (
      sys.executable)
  fin = tempfile.TemporaryFile('w+')
  fin.write(json.dumps(items, allow_nan=True))
  fin.flush()
  fin.seek(0)
  fout = tempfile.TemporaryFile('w+')
  ferr = tempfile.TemporaryFile('w+')
  p = subprocess.Popen([py, '-c', _CHILD % VERIF], stdin=fin, stdout=fout,
                       stderr=ferr, env=env, cwd=VERIF)
  p.c14_files = (fin, fout, ferr)
  return p


def finish_child(p, hashseed, timeout=900):
  fin, fout, ferr = p.c14_files
  try:
    try:
      p.wait(timeout=timeout)
    except subprocess.TimeoutExpired:
      p.kill()
      p.wait()
      raise RuntimeError('C14 child timed out after %ss' % timeout)
    fout.seek(0)
    ferr.seek(0)
    stdout, stderr = fout.read(), ferr.read()
  finally:
    for f in (fin, fout, ferr):
      f.close()
  if p.returncode != 0 or '@@C14@@' not in stdout:
    raise RuntimeError('C14 child failed rc=%s\nstdout=%s\nstderr=%s' % (
        p.returncode, stdout[-1500:], stderr[-3000:]))
  payload = json.loads(stdout.split('@@C14@@', 1)[1])
  if str(payload['hashseed']) != str(hashseed) or payload['pid'] == os.getpid():
    raise RuntimeError('C14 child did not run as a fresh process: %r' % (
        {k: payload[k] for k in ('hashseed', 'pid')},))
  for r in payload['results']:
    if 'harness_error' in r:
      raise RuntimeError('C14 child: ' + r['harness_error'])
  return payload['results']


def run_in_child(items, hashseed, timeout=900):
  return finish_child(start_child(items, hashseed), hashseed, timeout)


# ---------------------------------------------------------------------------
# comparison
# ---------------------------------------------------------------------------
def same_value(a, b, rtol=0.0):
  if isinstance(a, bool) or isinstance(b, bool):
    return isinstance(a, bool) and isinstance(b, bool) and a == b
  if isinstance(a, str) or isinstance(b, str):
    return isinstance(a, str) and isinstance(b, str) and a == b
  if a is None or b is None:
    return a is None and b is None
  if type(a) is not type(b):  # int vs float: a type change is a difference
    return False
  if isinstance(a, float):
    if math.isnan(a) or math.isnan(b):
      return math.isnan(a) and math.isnan(b)
    if a == b:
      # bit-equality also separates 0.0 from -0.0
      return rtol > 0 or math.copysign(1.0, a) == math.copysign(1.0, b)
    if rtol > 0 and math.isfinite(a) and math.isfinite(b):
      return abs(a - b) <= rtol * max(abs(a), abs(b))
    return False
  return a == b


def same_params(pa, pb, rtol=0.0):
  return set(pa) == set(pb) and all(
      same_value(pa[k], pb[k], rtol) for k in pa)


def first_diff(oa, ob, rtol=0.0):
  """Compares two observations of `execute` -> None | (kind, detail).

  kind: error | count | params | trial_<field> | prior_study_count |
        prior_study_guid | prior_trial_<field>
  """
  ea, eb = oa.get('error'), ob.get('error')
  if (ea is None) != (eb is None) or (ea and (ea['where'], ea['type']) != (
      eb['where'], eb['type'])):
    return 'error', 'first run: %r ; second run: %r' % (ea, eb)
  if 'stream' in oa:
    sa, sb = oa['stream'], ob['stream']
    if len(sa) != len(sb):
      return 'count', '%d vs %d suggest calls answered' % (len(sa), len(sb))
    for i, (la, lb) in enumerate(zip(sa, sb)):
      if len(la) != len(lb):
        return 'count', 'suggest call #%d: %d vs %d suggestions' % (
            i, len(la), len(lb))
      for j, (pa, pb) in enumerate(zip(la, lb)):
        if not same_params(pa, pb, rtol):
          return 'params', 'suggest call #%d suggestion #%d: %r vs %r' % (
              i, j, pa, pb)
    return None
  diff = _trials_diff(oa['trials'], ob['trials'], rtol, 'trial')
  if diff is not None:
    return diff
  pa, pb = oa.get('prior') or [], ob.get('prior') or []
  if len(pa) != len(pb):
    return 'prior_study_count', '%d vs %d prior studies attached' % (
        len(pa), len(pb))
  for i, (a, b) in enumerate(zip(pa, pb)):
    if a['guid'] != b['guid']:
      return 'prior_study_guid', 'prior study #%d: %r vs %r' % (
          i, a['guid'], b['guid'])
    diff = _trials_diff(a['trials'], b['trials'], rtol, 'prior_trial')
    if diff is not None:
      return diff[0], 'prior study #%d (%s): %s' % (i, a['guid'], diff[1])
  return None


def _trials_diff(ta, tb, rtol, prefix):
  if len(ta) != len(tb):
    return prefix + '_count', '%d vs %d trials' % (len(ta), len(tb))
  for i, (a, b) in enumerate(zip(ta, tb)):
    for f in ('id', 'status', 'infeasible'):
      if a[f] != b[f]:
        return prefix + '_' + f, 'trial #%d: %r vs %r' % (i, a[f], b[f])
    if not same_params(a['params'], b['params'], rtol):
      return prefix + '_params', 'trial #%d (id %s): %r vs %r' % (
          i, a['id'], a['params'], b['params'])
    ma, mb = a['metrics'], b['metrics']
    if (ma is None) != (mb is None) or (ma is not None and not same_params(
        ma, mb, rtol)):
      return prefix + '_metrics', 'trial #%d (id %s): %r vs %r' % (
          i, a['id'], ma, mb)
  return None


def flat_len(obs):
  if 'stream' in obs:
    return sum(len(x) for x in obs['stream'])
  return len(obs['trials'])


# ---------------------------------------------------------------------------
# spec helpers (independent of vizier)
# ---------------------------------------------------------------------------
def tame(spec):
  """Maps extreme DOUBLE bounds of a drawn spec into the range in which the
  (float32 based) converters of the designers work; deterministic function of
  the drawn spec (no rejection).  Extreme bounds are a C15 matter."""
  spec = copy.deepcopy(spec)
  for p in spec['params']:
    if p['kind'] != 'DOUBLE':
      continue
    lo, hi = p['lo'], p['hi']
    changed = False
    if max(abs(lo), abs(hi)) > 1e12:
      k = max(abs(lo), abs(hi)) / 1e6
      lo, hi, changed = lo / k, hi / k, True
    if p.get('scale') in ('LOG', 'REVERSE_LOG'):
      if lo < 1e-6:
        lo, changed = 1e-6 * (1 + (lo * 1e150) % 1), True
      if hi / lo > 1e8:
        hi, changed = lo * 1e6, True
      if hi <= lo:
        hi, changed = lo * 2, True
    if changed:
      p['lo'], p['hi'] = lo, hi
      if 'default' in p:
        p['default'] = lo
  return spec


def n_values(p, resolution=10):
  """Number of feasible values (DOUBLE: inf, or 1 when degenerate)."""
  k = p['kind']
  if k == 'DOUBLE':
    return 1 if p['lo'] == p['hi'] else math.inf
  if k == 'INTEGER':
    return p['hi'] - p['lo'] + 1
  if k in ('DISCRETE', 'CATEGORICAL'):
    return len(p['values'])
  return 2


def grid_axis_len(p, resolution=10):
  n = n_values(p)
  return resolution if n == math.inf else n


def nondegenerate(spec):
  """NT rule of the property: a parameter with >=3 feasible values / width."""
  return any(n_values(p) >= 3 for p in spec['params'])
