"""Bootstrap that makes google/vizier importable in the sealed sandbox.

Trusted base (environment repair, not a model of vizier):
  * compiles vizier's own .proto files *from the current working tree* with the
    pure-python front end in protogen.py and installs the `*_pb2` /
    `*_pb2_grpc` modules into sys.modules (protoc / grpc_tools are absent);
  * re-exports jax names that equinox 0.11.7 expects and jax 0.11.2 removed.

Every check process must call `init()` (and `init_jax()` before importing any
module that pulls in equinox) before importing vizier.
"""
import importlib
import os
import sys
import types

HERE = os.path.dirname(os.path.abspath(__file__))
REPO = os.environ.get('VERIF_REPO', '/repo')

_done = {'protos': False, 'jax': False}


def init_jax():
  if _done['jax']:
    return
  os.environ.setdefault('JAX_PLATFORMS', 'cpu')
  os.environ.setdefault('TF_CPP_MIN_LOG_LEVEL', '3')
  import jax  # pylint: disable=g-import-not-at-top
  import jax.core
  import jax.extend.core as jec
  import jax._src.core as sc

  def fill(pub, priv):
    for n in dir(priv):
      if not n.startswith('_') and n not in pub.__dict__:
        setattr(pub, n, getattr(priv, n))

  fill(jax.core, jec)
  fill(jax.core, sc)
  for name in ('batching', 'ad', 'mlir', 'partial_eval'):
    pub = importlib.import_module('jax.interpreters.' + name)
    priv = importlib.import_module('jax._src.interpreters.' + name)
    fill(pub, priv)
  import jaxlib._jax as _j
  sys.modules.setdefault('jaxlib.xla_extension', _j)
  _done['jax'] = True


def _grpc_module(g, fdp, pool):
  import grpc
  from google.protobuf import message_factory
  for svc in fdp.service:
    full = f'{fdp.package}.{svc.name}'
    methods = []
    for m in svc.method:
      req = message_factory.GetMessageClass(
          pool.FindMessageTypeByName(m.input_type[1:]))
      res = message_factory.GetMessageClass(
          pool.FindMessageTypeByName(m.output_type[1:]))
      methods.append((m.name, req, res))

    def make_stub(full=full, methods=methods, svcname=svc.name):
      def __init__(self, channel):
        for name, req, res in methods:
          setattr(self, name, channel.unary_unary(
              f'/{full}/{name}',
              request_serializer=req.SerializeToString,
              response_deserializer=res.FromString))
      return type(svcname + 'Stub', (object,), {'__init__': __init__})

    def make_servicer(methods=methods, svcname=svc.name):
      ns = {}
      for name, _, _ in methods:
        def meth(self, request, context):
          context.set_code(grpc.StatusCode.UNIMPLEMENTED)
          context.set_details('Method not implemented!')
          raise NotImplementedError('Method not implemented!')
        meth.__name__ = name
        ns[name] = meth
      return type(svcname + 'Servicer', (object,), ns)

    def add_to_server(servicer, server, full=full, methods=methods):
      handlers = {
          name: grpc.unary_unary_rpc_method_handler(
              getattr(servicer, name),
              request_deserializer=req.FromString,
              response_serializer=res.SerializeToString)
          for name, req, res in methods
      }
      server.add_generic_rpc_handlers(
          (grpc.method_handlers_generic_handler(full, handlers),))

    setattr(g, svc.name + 'Stub', make_stub())
    setattr(g, svc.name + 'Servicer', make_servicer())
    setattr(g, f'add_{svc.name}Servicer_to_server', add_to_server)


def init_protos():
  if _done['protos']:
    return
  if REPO not in sys.path[:1]:
    sys.path.insert(0, REPO)
  if HERE not in sys.path:
    sys.path.insert(1, HERE)
  from harness import protogen
  from google.protobuf import descriptor_pool
  from google.protobuf.internal import builder
  for dep in ('google.protobuf.any_pb2', 'google.protobuf.timestamp_pb2',
              'google.protobuf.duration_pb2', 'google.protobuf.struct_pb2',
              'google.protobuf.wrappers_pb2', 'google.protobuf.empty_pb2',
              'google.api.field_behavior_pb2', 'google.api.resource_pb2',
              'google.api.annotations_pb2', 'google.api.client_pb2',
              'google.longrunning.operations_pb2'):
    importlib.import_module(dep)
  pool = descriptor_pool.Default()
  import vizier._src.service as pkg
  d = os.path.join(REPO, 'vizier/_src/service')
  pkg_dir = list(pkg.__path__)[0]
  assert os.path.realpath(pkg_dir) == os.path.realpath(d), (
      'vizier imported from %s, expected %s' % (pkg_dir, d))
  for base in ('key_value', 'study', 'vizier_oss', 'vizier_service',
               'pythia_service'):
    fdp = protogen.compile_proto(
        os.path.join(d, base + '.proto'), base + '.proto', pool)
    modname = f'vizier._src.service.{base}_pb2'
    mod = types.ModuleType(modname)
    mod.DESCRIPTOR = pool.AddSerializedFile(fdp.SerializeToString())
    builder.BuildMessageAndEnumDescriptors(mod.DESCRIPTOR, mod.__dict__)
    builder.BuildTopDescriptorsAndMessages(mod.DESCRIPTOR, modname,
                                           mod.__dict__)
    sys.modules[modname] = mod
    setattr(pkg, base + '_pb2', mod)
    if fdp.service:
      gname = f'vizier._src.service.{base}_pb2_grpc'
      g = types.ModuleType(gname)
      _grpc_module(g, fdp, pool)
      sys.modules[gname] = g
      setattr(pkg, base + '_pb2_grpc', g)
  _done['protos'] = True


def init(jax=True):
  """Makes `import vizier...` work. jax=True also repairs the equinox import."""
  os.environ.setdefault('TF_CPP_MIN_LOG_LEVEL', '3')
  import warnings
  warnings.filterwarnings('ignore')
  try:
    from absl import logging as absl_logging
    absl_logging.set_verbosity(absl_logging.FATAL)
    import logging
    logging.getLogger('absl').setLevel(logging.CRITICAL)
    absl_logging.set_stderrthreshold('fatal')
  except Exception:  # pylint: disable=broad-except
    pass
  if jax:
    init_jax()
  init_protos()
