"""Concrete service histories: generator, executor against a real servicer,
and comparison with harness/service_model.py.

Ops are concrete (literal small ids) so that no symbolic resolution is needed
and a history means the same thing on every backend / deployment.
"""
from hypothesis import strategies as st

from harness import svc
from harness import service_model as sm

vsp = svc.vsp
study_pb2 = svc.study_pb2
TS = svc.TS

OWNERS = ['o0', 'o1']
# study ids that differ only in a LIKE wildcard / in case: a backend that
# matches names with a pattern instead of equality confuses them
SIDS = ['s_a', 'sxa', 'S_A']
WORKERS = ['w1', 'w2', 'w3']
STATES = ['ACTIVE', 'INACTIVE', 'COMPLETED', 'STATE_UNSPECIFIED']
BAD_NAME = 'BAD_NAME'
MUTATING = {'create_study', 'delete_study', 'set_state', 'create_trial',
            'suggest', 'add_meas', 'complete', 'stop', 'delete_trial',
            'update_md'}


# ---------------------------------------------------------------- strategies
STUDY_RPCS = ('get_study', 'delete_study', 'set_state', 'list_trials',
              'create_trial', 'suggest', 'update_md', 'list_optimal')
TRIAL_RPCS = ('get_trial', 'add_meas', 'complete', 'stop', 'delete_trial',
              'early_stop')
# ways of turning the name of an existing resource into a name that denotes
# no study / trial: extra path components behind it, the parent's name, junk
# in front of it
BAD_SHAPES = ('ext_trial', 'ext_meas', 'ext_x', 'parent', 'prefix_junk')


def bad_name(rpc, owner, sid, tid, shape):
  study, trial = sm.sname(owner, sid), sm.tname(owner, sid, tid)
  if rpc in STUDY_RPCS:
    return {'ext_trial': trial, 'ext_meas': trial + '/measurements/1',
            'ext_x': study + '/x', 'parent': 'owners/' + owner,
            'prefix_junk': 'x/' + study}[shape]
  return {'ext_trial': trial + '/trials/1', 'ext_meas': trial + '/measurements/1',
          'ext_x': trial + '/x', 'parent': study,
          'prefix_junk': 'x/' + trial}[shape]


def op_strategy(max_suggest=3, md=True, optimal=True, early_stop=True,
                owners=None, sids=None, bad_names=False):
  owner = st.sampled_from(owners or ['o0'] * 5 + ['o1'])
  sid = st.sampled_from(sids or ['s_a'] * 6 + ['sxa', 'S_A'])
  tid = st.sampled_from([1, 1, 1, 2, 2, 2, 3, 3, 4, 5, 6, 9])
  worker = st.sampled_from(WORKERS)
  value = st.sampled_from([0.0, 1.0, 1.0, 2.5, -3.0, 7.0])
  ns = st.sampled_from(['', ':a', ':a:b'])
  key = st.sampled_from(['k', 'j'])
  mdval = st.sampled_from(['', 'v', 'w'])
  # trial scopes: mostly ids; sometimes something that is no trial id at all
  item = st.tuples(st.one_of(st.just('study'), tid, tid, tid, tid,
                             st.sampled_from(['0', '-1', 'abc', '1.5'])),
                   ns, key, mdval).map(list)
  trial_spec = st.fixed_dictionaries({
      'state': st.sampled_from(['unset', 'REQUESTED', 'ACTIVE', 'SUCCEEDED',
                                'SUCCEEDED']),
      'final': st.one_of(st.none(), value),
      'client_id': st.sampled_from(['', 'w1']),
      'k': st.integers(0, 11),
      'md': st.lists(st.tuples(ns, key, mdval).map(list), max_size=1),
  })
  complete_spec = st.fixed_dictionaries({
      # 'empty' = a final measurement that is present but carries no metrics
      'final': st.one_of(st.none(), value, value, st.just('empty')),
      'infeasible': st.sampled_from([False, False, True]),
      'reason': st.sampled_from(['', 'bad']),
  })
  w = lambda k, strat: [(k, strat)]  # weights
  ops = (
      w(2, st.tuples(st.just('create_study'), owner, sid)) +
      w(1, st.tuples(st.just('get_study'), owner, sid)) +
      w(1, st.tuples(st.just('list_studies'), owner)) +
      w(1, st.tuples(st.just('delete_study'), owner, sid)) +
      w(2, st.tuples(st.just('set_state'), owner, sid, st.sampled_from(
          ['ACTIVE', 'ACTIVE', 'ACTIVE', 'INACTIVE', 'COMPLETED',
           'STATE_UNSPECIFIED']))) +
      w(3, st.tuples(st.just('create_trial'), owner, sid, trial_spec)) +
      w(5, st.tuples(st.just('suggest'), owner, sid, worker,
                     st.integers(1, max_suggest))) +
      w(1, st.tuples(st.just('get_op'), owner, sid, worker,
                     st.integers(1, 3))) +
      w(1, st.tuples(st.just('get_trial'), owner, sid, tid)) +
      w(1, st.tuples(st.just('list_trials'), owner, sid)) +
      w(3, st.tuples(st.just('add_meas'), owner, sid, tid, value)) +
      w(5, st.tuples(st.just('complete'), owner, sid, tid, complete_spec)) +
      w(2, st.tuples(st.just('stop'), owner, sid, tid)) +
      w(2, st.tuples(st.just('delete_trial'), owner, sid, tid))
  )
  if early_stop:
    ops += w(2, st.tuples(st.just('early_stop'), owner, sid, tid))
  if md:
    ops += w(2, st.tuples(st.just('update_md'), owner, sid,
                          st.lists(item, min_size=1, max_size=3)))
  if optimal:
    ops += w(1, st.tuples(st.just('list_optimal'), owner, sid))
  if bad_names:
    ops += w(2, st.tuples(st.just('bad_name'),
                          st.sampled_from(STUDY_RPCS + TRIAL_RPCS), owner, sid,
                          tid, st.sampled_from(BAD_SHAPES)))
  table = [strat for _, strat in ops]
  weighted = [i for i, (k, _) in enumerate(ops) for _ in range(k)]
  return st.sampled_from(weighted).flatmap(lambda i: table[i]).map(list)


def history_strategy(min_ops=4, max_ops=40, **kw):
  # a useful start: the study exists and has a couple of suggestions
  prefix = st.sampled_from([
      [],
      [['create_study', 'o0', 's_a']],
      [['create_study', 'o0', 's_a'], ['suggest', 'o0', 's_a', 'w1', 2]],
      [['create_study', 'o0', 's_a'], ['suggest', 'o0', 's_a', 'w1', 2],
       ['complete', 'o0', 's_a', 1,
        {'final': 1.0, 'infeasible': False, 'reason': ''}]],
      # sibling studies of one owner whose ids differ in a wildcard / in case
      [['create_study', 'o0', 's_a'], ['create_study', 'o0', 'sxa'],
       ['create_study', 'o0', 'S_A'], ['suggest', 'o0', 's_a', 'w1', 1],
       ['suggest', 'o0', 'sxa', 'w1', 2], ['suggest', 'o0', 'S_A', 'w2', 1]],
      # an early-stopping decision is computed for a trial that is then
      # completed / deleted (and its id re-issued): the next check must look at
      # the trial as it is now, on every backend
      [['create_study', 'o0', 's_a'], ['suggest', 'o0', 's_a', 'w1', 2],
       ['early_stop', 'o0', 's_a', 1],
       ['complete', 'o0', 's_a', 1,
        {'final': 1.0, 'infeasible': False, 'reason': ''}],
       ['early_stop', 'o0', 's_a', 1]],
      [['create_study', 'o0', 's_a'], ['suggest', 'o0', 's_a', 'w1', 2],
       ['early_stop', 'o0', 's_a', 2], ['delete_trial', 'o0', 's_a', 2],
       ['early_stop', 'o0', 's_a', 2], ['suggest', 'o0', 's_a', 'w2', 1],
       ['stop', 'o0', 's_a', 2], ['early_stop', 'o0', 's_a', 2]],
      # two owners with a study of the same id, trials and operations in both
      [['create_study', 'o0', 's_a'], ['create_study', 'o1', 's_a'],
       ['suggest', 'o0', 's_a', 'w1', 2], ['suggest', 'o1', 's_a', 'w1', 2],
       ['complete', 'o1', 's_a', 1,
        {'final': 1.0, 'infeasible': False, 'reason': ''}]],
  ])
  return st.tuples(prefix, st.lists(op_strategy(**kw), min_size=min_ops,
                                    max_size=max_ops)).map(
                                        lambda t: t[0] + t[1])


# ------------------------------------------------------------------ requests
def trial_from_spec(spec):
  t = svc.params_to_trial_proto(svc.det_params(100 + spec['k']))
  if spec['state'] != 'unset':
    t.state = getattr(TS, spec['state'])
  if spec['final'] is not None:
    t.final_measurement.CopyFrom(svc.measurement(spec['final']))
  if spec['client_id']:
    t.client_id = spec['client_id']
  for ns, key, val in spec['md']:
    t.metadata.add(ns=ns, key=key, value=val)
  return t


def md_request(owner, sid, items):
  req = vsp.UpdateMetadataRequest(name=sm.sname(owner, sid))
  for scope, ns, key, val in items:
    u = req.delta.add()
    if scope != 'study':
      u.trial_id = str(scope)
    u.metadatum.ns = ns
    u.metadatum.key = key
    u.metadatum.value = val
  return req


def _bad_md_request(name):
  req = vsp.UpdateMetadataRequest(name=name)
  u = req.delta.add()
  u.metadatum.key = 'k'
  u.metadatum.value = 'bad'
  return req


def error_norm(e):
  """Maps an exception raised by a servicer / stub call to the model classes."""
  if isinstance(e, FakeAbort):
    c = 'rpc:' + getattr(e.grpc_code, 'name', str(e.grpc_code))
  else:
    c = svc.error_class(e)
  table = {
      'rpc:NOT_FOUND': sm.NOT_FOUND, 'NotFoundError': sm.NOT_FOUND,
      'rpc:FAILED_PRECONDITION': sm.FAILED_PRECONDITION,
      'ImmutableStudyError': sm.FAILED_PRECONDITION,
      'ImmutableTrialError': sm.FAILED_PRECONDITION,
      'rpc:ALREADY_EXISTS': 'ALREADY_EXISTS',
      'AlreadyExistsError': 'ALREADY_EXISTS',
      'rpc:UNKNOWN': sm.INVALID, 'ValueError': sm.INVALID,
  }
  return table.get(c, 'CRASH:' + c)


def _scrub(*msgs):
  """Scribbles over request/response messages after use (pass-by-value probe:
  a store that kept or returned a reference is corrupted and the next
  snapshot shows it)."""
  for m in msgs:
    if m is None:
      continue
    if isinstance(m, (list, tuple)):
      _scrub(*m)
      continue
    try:
      m.Clear()
    except Exception:  # pylint: disable=broad-except
      pass


class FakeAbort(Exception):
  """Raised by FakeContext.abort, like grpc's ServicerContext.abort."""

  def __init__(self, code):
    super().__init__(str(code))
    self.grpc_code = code


class FakeContext:
  """Stand-in for grpc.ServicerContext: exercises the 'served over gRPC'
  branches of the servicer (context is not None) without sockets."""

  def __init__(self):
    self._code = None
    self._details = None

  def set_code(self, code):
    self._code = code

  def set_details(self, details):
    self._details = details

  def code(self):
    return self._code

  def details(self):
    return self._details

  def abort(self, code, details):
    self._code, self._details = code, details
    raise FakeAbort(code)


class _WithContext:
  """Calls every RPC of the wrapped servicer with a fresh FakeContext; a call
  that returns normally although an error status was set is turned into that
  error (the status is what a remote client would see)."""

  def __init__(self, servicer):
    self._s = servicer
    self.silent_error_returns = 0

  def __getattr__(self, name):
    attr = getattr(self._s, name)
    if not callable(attr) or not name[:1].isupper():
      return attr

    def call(request):
      ctx = FakeContext()
      result = attr(request, ctx)
      if ctx.code() is not None:
        self.silent_error_returns += 1
        raise FakeAbort(ctx.code())
      return result
    return call


def with_context(servicer):
  return _WithContext(servicer)


def exec_real(s, op, scribble=True):
  """Executes one op against servicer/stub `s`. Returns ('ok', proto-ish) or
  ('err', CLASS, repr)."""
  kind = op[0]
  req = r = None
  try:
    if kind == 'create_study':
      _, o, sid = op
      req = vsp.CreateStudyRequest(
          parent='owners/' + o,
          study=study_pb2.Study(display_name=sid,
                                study_spec=svc.std_config().to_proto()))
      r = s.CreateStudy(req)
      out = svc.norm_study(r)
    elif kind == 'get_study':
      req = vsp.GetStudyRequest(name=sm.sname(op[1], op[2]))
      r = s.GetStudy(req)
      out = svc.norm_study(r)
    elif kind == 'list_studies':
      req = vsp.ListStudiesRequest(parent='owners/' + op[1])
      r = s.ListStudies(req)
      out = [svc.norm_study(x) for x in r.studies]
    elif kind == 'delete_study':
      req = vsp.DeleteStudyRequest(name=sm.sname(op[1], op[2]))
      r = s.DeleteStudy(req)
      out = None
    elif kind == 'set_state':
      req = vsp.SetStudyStateRequest(
          parent=sm.sname(op[1], op[2]), state=getattr(svc.SS, op[3]))
      r = s.SetStudyState(req)
      out = svc.norm_study(r)
    elif kind == 'create_trial':
      req = vsp.CreateTrialRequest(
          parent=sm.sname(op[1], op[2]), trial=trial_from_spec(op[3]))
      r = s.CreateTrial(req)
      out = svc.norm_trial(r)
    elif kind == 'suggest':
      req = vsp.SuggestTrialsRequest(
          parent=sm.sname(op[1], op[2]), client_id=op[3],
          suggestion_count=op[4])
      r = s.SuggestTrials(req)
      from google.longrunning import operations_pb2
      out = operations_pb2.Operation()
      out.CopyFrom(r)
    elif kind == 'get_op':
      from google.longrunning import operations_pb2
      req = operations_pb2.GetOperationRequest(
          name=sm.opname(op[1], op[2], op[3], op[4]))
      r = s.GetOperation(req)
      out = operations_pb2.Operation()
      out.CopyFrom(r)
    elif kind == 'get_trial':
      req = vsp.GetTrialRequest(name=sm.tname(op[1], op[2], op[3]))
      r = s.GetTrial(req)
      out = svc.norm_trial(r)
    elif kind == 'list_trials':
      req = vsp.ListTrialsRequest(parent=sm.sname(op[1], op[2]))
      r = s.ListTrials(req)
      out = [svc.norm_trial(t) for t in r.trials]
    elif kind == 'add_meas':
      req = vsp.AddTrialMeasurementRequest(
          trial_name=sm.tname(op[1], op[2], op[3]),
          measurement=svc.measurement(op[4], step=1))
      r = s.AddTrialMeasurement(req)
      out = svc.norm_trial(r)
    elif kind == 'complete':
      spec = op[4]
      req = vsp.CompleteTrialRequest(
          name=sm.tname(op[1], op[2], op[3]),
          trial_infeasible=spec['infeasible'],
          infeasible_reason=spec['reason'] if spec['infeasible'] else '')
      if spec['final'] == 'empty':
        req.final_measurement.step_count = 5
      elif spec['final'] is not None:
        req.final_measurement.CopyFrom(svc.measurement(spec['final']))
      r = s.CompleteTrial(req)
      out = svc.norm_trial(r)
    elif kind == 'stop':
      req = vsp.StopTrialRequest(name=sm.tname(op[1], op[2], op[3]))
      r = s.StopTrial(req)
      out = svc.norm_trial(r)
    elif kind == 'delete_trial':
      req = vsp.DeleteTrialRequest(name=sm.tname(op[1], op[2], op[3]))
      r = s.DeleteTrial(req)
      out = None
    elif kind == 'early_stop':
      req = vsp.CheckTrialEarlyStoppingStateRequest(
          trial_name=sm.tname(op[1], op[2], op[3]))
      r = s.CheckTrialEarlyStoppingState(req)
      out = bool(r.should_stop)
    elif kind == 'update_md':
      req = md_request(op[1], op[2], op[3])
      r = s.UpdateMetadata(req)
      out = bool(r.error_details)
    elif kind == 'list_optimal':
      req = vsp.ListOptimalTrialsRequest(parent=sm.sname(op[1], op[2]))
      r = s.ListOptimalTrials(req)
      out = [svc.norm_trial(t) for t in r.optimal_trials]
    elif kind == 'bad_name':
      rpc = op[1]
      bad = bad_name(*op[1:])
      req, method = {
          'get_study': lambda: (vsp.GetStudyRequest(name=bad), 'GetStudy'),
          'delete_study': lambda: (vsp.DeleteStudyRequest(name=bad),
                                   'DeleteStudy'),
          'set_state': lambda: (vsp.SetStudyStateRequest(
              parent=bad, state=svc.SS.INACTIVE), 'SetStudyState'),
          'list_trials': lambda: (vsp.ListTrialsRequest(parent=bad),
                                  'ListTrials'),
          'create_trial': lambda: (vsp.CreateTrialRequest(
              parent=bad, trial=svc.params_to_trial_proto(svc.det_params(99))),
                                   'CreateTrial'),
          'suggest': lambda: (vsp.SuggestTrialsRequest(
              parent=bad, client_id='w1', suggestion_count=1), 'SuggestTrials'),
          'update_md': lambda: (_bad_md_request(bad), 'UpdateMetadata'),
          'list_optimal': lambda: (vsp.ListOptimalTrialsRequest(parent=bad),
                                   'ListOptimalTrials'),
          'get_trial': lambda: (vsp.GetTrialRequest(name=bad), 'GetTrial'),
          'add_meas': lambda: (vsp.AddTrialMeasurementRequest(
              trial_name=bad, measurement=svc.measurement(9.0, step=1)),
                               'AddTrialMeasurement'),
          'complete': lambda: (vsp.CompleteTrialRequest(
              name=bad, final_measurement=svc.measurement(9.0)),
                               'CompleteTrial'),
          'stop': lambda: (vsp.StopTrialRequest(name=bad), 'StopTrial'),
          'delete_trial': lambda: (vsp.DeleteTrialRequest(name=bad),
                                   'DeleteTrial'),
          'early_stop': lambda: (vsp.CheckTrialEarlyStoppingStateRequest(
              trial_name=bad), 'CheckTrialEarlyStoppingState'),
      }[rpc]()
      r = getattr(s, method)(req)
      if rpc == 'suggest' and r.HasField('error'):
        return ('err', 'OP_ERROR', r.error.message[:200])
      if rpc == 'update_md' and r.error_details:
        return ('err', 'ERROR_DETAILS', r.error_details[:200])
      out = None
    else:
      raise ValueError(op)
  except ValueError as e:
    if e.args and e.args[0] is op:
      raise
    if scribble:
      _scrub(req)
    return ('err', error_norm(e), '%s: %s' % (type(e).__name__, str(e)[:200]))
  except Exception as e:  # pylint: disable=broad-except
    if scribble:
      _scrub(req)
    return ('err', error_norm(e), '%s: %s' % (type(e).__name__, str(e)[:200]))
  if scribble:
    _scrub(req, r)
  return ('ok', out)


def exec_model(m, op, real=None, s=None, delivered=None):
  """Applies op to the model. `real` is the real result (for adoption in
  suggest); `s` the real servicer (to read the real trial list for adoption).

  Returns (result, problems)."""
  kind = op[0]
  problems = []
  try:
    if kind == 'create_study':
      return ('ok', m.create_study(op[1], op[2])), problems
    if kind == 'get_study':
      return ('ok', m.get_study(op[1], op[2])), problems
    if kind == 'list_studies':
      return ('ok', m.list_studies(op[1])), problems
    if kind == 'delete_study':
      return ('ok', m.delete_study(op[1], op[2])), problems
    if kind == 'set_state':
      return ('ok', m.set_state(op[1], op[2], op[3])), problems
    if kind == 'create_trial':
      return ('ok', m.create_trial(op[1], op[2],
                                   trial_from_spec(op[3]))), problems
    if kind == 'suggest':
      real_trials = real_all = None
      if real is not None and real[0] == 'ok':
        real_trials = list(svc.suggest_response(real[1]).trials)
        if s is not None:
          try:
            real_all = list(s.ListTrials(vsp.ListTrialsRequest(
                parent=sm.sname(op[1], op[2]))).trials)
          except Exception:  # pylint: disable=broad-except
            real_all = None
      name, trials, invoked, problems = m.suggest(
          op[1], op[2], op[3], op[4], delivered, real_trials, real_all)
      return ('ok', (name, trials, invoked)), problems
    if kind == 'get_op':
      return ('ok', m.get_op(op[1], op[2], op[3], op[4])), problems
    if kind == 'get_trial':
      return ('ok', m.get_trial(op[1], op[2], op[3])), problems
    if kind == 'list_trials':
      return ('ok', m.list_trials(op[1], op[2])), problems
    if kind == 'add_meas':
      return ('ok', m.add_meas(op[1], op[2], op[3],
                               svc.measurement(op[4], step=1))), problems
    if kind == 'complete':
      spec = op[4]
      if spec['final'] == 'empty':
        final = study_pb2.Measurement(step_count=5)
      else:
        final = (None if spec['final'] is None
                 else svc.measurement(spec['final']))
      return ('ok', m.complete(op[1], op[2], op[3], final, spec['infeasible'],
                               spec['reason'] if spec['infeasible'] else '')
              ), problems
    if kind == 'stop':
      return ('ok', m.stop(op[1], op[2], op[3])), problems
    if kind == 'delete_trial':
      return ('ok', m.delete_trial(op[1], op[2], op[3])), problems
    if kind == 'early_stop':
      return ('ok', m.early_stop(op[1], op[2], op[3])), problems
    if kind == 'update_md':
      from vizier._src.service import key_value_pb2
      skv, tkv = [], []
      for scope, ns, key, val in op[3]:
        kv = key_value_pb2.KeyValue(ns=ns, key=key, value=val)
        if scope == 'study':
          skv.append(kv)
        else:
          tkv.append((scope, kv))
      return ('ok', m.update_md(op[1], op[2], skv, tkv)), problems
    if kind == 'list_optimal':
      return ('ok', m.list_optimal(op[1], op[2])), problems
    if kind == 'bad_name':
      # denotes no study or trial: the call fails, nothing changes
      return ('err', BAD_NAME), problems
  except sm.ModelError as e:
    return ('err', e.cls), problems
  raise ValueError(op)


def _pb_eq(a, b):
  return a.SerializeToString(deterministic=True) == b.SerializeToString(
      deterministic=True)


def compare_results(op, real, model):
  """Returns None if equal else a short description of the difference."""
  kind = op[0]
  if (kind == 'update_md' and model[0] == 'err' and model[1] == BAD_NAME
      and real == ('ok', True)):
    return None  # reported through error_details: also a rejection
  if real[0] != model[0]:
    return 'real=%s model=%s' % (_brief(real), _brief(model))
  if real[0] == 'err':
    if model[1] == BAD_NAME:
      # the documentation names no single class for a malformed resource name
      # (resources.py raises ValueError, a name lookup reports NOT_FOUND)
      if real[1].startswith('CRASH:'):
        return 'error class real=%s (%s) for a malformed name' % (
            real[1], real[2])
      return None
    if real[1] != model[1]:
      return 'error class real=%s (%s) model=%s' % (real[1], real[2], model[1])
    return None
  r, m = real[1], model[1]
  if kind in ('delete_study', 'delete_trial', 'early_stop'):
    return None
  if kind == 'update_md':
    return None if r == m else 'error reported real=%r model=%r' % (r, m)
  if kind == 'suggest':
    name, trials, _ = m
    if not r.done:
      return 'operation not done'
    if r.HasField('error'):
      return 'operation carries error %s' % r.error.message[:100]
    if r.name != name:
      return 'operation name real=%s model=%s' % (r.name, name)
    rt = [svc.norm_trial(t) for t in svc.suggest_response(r).trials]
    mt = [svc.norm_trial(t) for t in trials]
    if len(rt) != len(mt) or not all(_pb_eq(a, b) for a, b in zip(rt, mt)):
      return 'suggested trials real=%s model=%s' % (
          [svc.trial_brief(t) for t in rt], [svc.trial_brief(t) for t in mt])
    return None
  if kind == 'get_op':
    if r.name != m.name or r.done != m.done:
      return 'op real=(%s,%s) model=(%s,%s)' % (r.name, r.done, m.name, m.done)
    rt = [svc.norm_trial(t) for t in svc.suggest_response(r).trials]
    mt = [svc.norm_trial(t) for t in svc.suggest_response(m).trials]
    if len(rt) != len(mt) or not all(_pb_eq(a, b) for a, b in zip(rt, mt)):
      return 'op trials differ real=%s model=%s' % (
          [t.id for t in rt], [t.id for t in mt])
    return None
  if isinstance(r, list):
    if len(r) != len(m):
      return 'list length real=%d model=%d (%s vs %s)' % (
          len(r), len(m), [getattr(x, 'id', getattr(x, 'name', '')) for x in r],
          [getattr(x, 'id', getattr(x, 'name', '')) for x in m])
    for a, b in zip(r, m):
      b2 = svc.norm_trial(b) if isinstance(b, study_pb2.Trial) else (
          svc.norm_study(b))
      if not _pb_eq(a, b2):
        return 'list element differs real=%s model=%s' % (
            str(a)[:300].replace('\n', ' '), str(b2)[:300].replace('\n', ' '))
    return None
  b2 = svc.norm_trial(m) if isinstance(m, study_pb2.Trial) else svc.norm_study(
      m)
  if not _pb_eq(r, b2):
    return 'message differs real=%s model=%s' % (
        str(r)[:400].replace('\n', ' '), str(b2)[:400].replace('\n', ' '))
  return None


def _brief(res):
  if res[0] == 'err':
    return 'err:%s' % (res[1],)
  return 'ok'


def compare_snapshots(real_snap, model_snap):
  """real_snap from svc.snapshot (hex), model_snap from Model.snapshot."""
  for o in real_snap:
    r, m = real_snap[o], model_snap[o]
    if isinstance(r, str) or isinstance(m, str):
      r2 = r if isinstance(r, str) else 'ok'
      m2 = m if isinstance(m, str) else 'ok'
      if r2.replace('NotFoundError', 'NOT_FOUND').replace(
          'rpc:', '') != m2:
        return 'owner %s: real=%s model=%s' % (o, r2, m2)
      continue
    if [x[0] for x in r] != [x[0] for x in m]:
      return 'owner %s studies real=%s model=%s' % (
          o, [x[0] for x in r], [x[0] for x in m])
    for (name, rs, rt), (_, ms, mt) in zip(r, m):
      if rs != svc.pb_hex(svc.norm_study(ms)):
        return 'study %s differs: real=%s model=%s' % (
            name, str(study_pb2.Study.FromString(bytes.fromhex(rs))
                      )[-300:].replace('\n', ' '),
            str(svc.norm_study(ms))[-300:].replace('\n', ' '))
      mth = [svc.pb_hex(svc.norm_trial(t)) for t in mt]
      if rt != mth:
        rb = [svc.trial_brief(study_pb2.Trial.FromString(bytes.fromhex(h)))
              for h in rt] if not isinstance(rt, str) else rt
        mb = [svc.trial_brief(t) for t in mt]
        return 'trials of %s differ: real=%s model=%s' % (name, rb, mb)
  return None


# ------------------------------------------------- model-free history checks
LEGAL = {
    TS.REQUESTED: {TS.REQUESTED, TS.ACTIVE},
    TS.ACTIVE: {TS.ACTIVE, TS.STOPPING, TS.SUCCEEDED, TS.INFEASIBLE},
    TS.STOPPING: {TS.STOPPING, TS.SUCCEEDED, TS.INFEASIBLE},
    TS.SUCCEEDED: {TS.SUCCEEDED},
    TS.INFEASIBLE: {TS.INFEASIBLE},
}


def history_invariants(prev, cur):
  """prev/cur: svc.snapshot outputs. Returns list of (clause, detail)."""
  bad = []
  for o in cur:
    if isinstance(cur[o], str) or isinstance(prev.get(o), (str, type(None))):
      continue
    pstud = {n: tl for n, _, tl in prev[o]}
    for name, _, tl in cur[o]:
      if name not in pstud or isinstance(tl, str) or isinstance(
          pstud[name], str):
        continue
      ptr = {}
      for h in pstud[name]:
        t = study_pb2.Trial.FromString(bytes.fromhex(h))
        ptr[t.id] = t
      seen = set()
      for h in tl:
        t = study_pb2.Trial.FromString(bytes.fromhex(h))
        if t.id in seen:
          bad.append(('duplicate_trial_id', '%s id=%s' % (name, t.id)))
        seen.add(t.id)
        if t.state not in LEGAL:
          bad.append(('illegal_state', '%s id=%s state=%s' % (
              name, t.id, t.state)))
        p = ptr.get(t.id)
        if p is None:
          continue
        if p.state in LEGAL and t.state not in LEGAL[p.state]:
          bad.append(('illegal_transition/%s_to_%s' % (
              TS.Name(p.state), TS.Name(t.state)), '%s id=%s' % (name, t.id)))
        if list(p.parameters) != list(t.parameters):
          bad.append(('parameters_changed', '%s id=%s' % (name, t.id)))
        if p.state in (TS.SUCCEEDED, TS.INFEASIBLE):
          if (p.final_measurement != t.final_measurement
              or list(p.measurements) != list(t.measurements)
              or p.infeasible_reason != t.infeasible_reason):
            bad.append(('completed_trial_changed', '%s id=%s' % (name, t.id)))
  return bad
