"""Harness-owned cooperative scheduler for C04.

Each concurrent RPC runs in its own Python thread, but only the thread that
holds the baton runs. Scheduling points are (a) every datastore method call
(`DSProxy`), (b) every acquire/release of a service lock (`SchedLock`). A
*schedule* is consumed one decision per scheduling point:

  policy(step, runnable_names, current_name) -> name of the thread to run next

so schedules are data (lists / small dicts), shrinkable and replayable.
"""
import collections
import threading


class Deadlock(Exception):
  pass


class Livelock(Exception):
  pass


class Sched:
  """Runs registered thunks under a schedule policy."""

  def __init__(self, policy, max_steps=2000):
    self.policy = policy
    self.max_steps = max_steps
    self.threads = []
    self._main_evt = threading.Event()
    self.trace = []  # (thread name, point) per step
    self.preemptions = 0

  # -- called from the main thread
  def spawn(self, fn, name):
    rec = {'name': name, 'evt': threading.Event(), 'done': False,
           'blocked_on': None, 'result': None, 'why': 'start',
           'started': False}

    def run():
      rec['evt'].wait()
      rec['evt'].clear()
      if rec.get('abandon'):
        return
      try:
        rec['result'] = ('ok', fn())
      except _Abandon:
        return
      except BaseException as e:  # pylint: disable=broad-except
        rec['result'] = ('exc', e)
      rec['done'] = True
      self._main_evt.set()

    rec['thread'] = threading.Thread(target=run, daemon=True)
    rec['thread'].start()
    self.threads.append(rec)
    return rec

  def _cur(self):
    me = threading.current_thread()
    for r in self.threads:
      if r['thread'] is me:
        return r
    return None

  # -- called from worker threads (and harmlessly from the main thread)
  def point(self, why):
    r = self._cur()
    if r is None:
      return  # main thread: prefix / serial execution, no scheduling
    r['why'] = why
    self._main_evt.set()
    r['evt'].wait()
    r['evt'].clear()
    if r.get('abandon'):
      raise _Abandon()

  def run(self):
    steps = 0
    current = None
    while True:
      live = [r for r in self.threads if not r['done']]
      if not live:
        return
      runnable = [r for r in live
                  if r['blocked_on'] is None or not r['blocked_on'].held]
      if not runnable:
        self._abandon()
        raise Deadlock([(r['name'], r['why']) for r in live])
      names = [r['name'] for r in runnable]
      cur_name = current['name'] if (current is not None and
                                     current in runnable) else None
      choice = self.policy(steps, names, cur_name)
      if choice not in names:
        choice = cur_name if cur_name is not None else names[0]
      nxt = runnable[names.index(choice)]
      if cur_name is not None and nxt is not current:
        self.preemptions += 1
      current = nxt
      self.trace.append((nxt['name'], nxt['why']))
      self._main_evt.clear()
      nxt['evt'].set()
      self._main_evt.wait()
      steps += 1
      if steps > self.max_steps:
        self._abandon()
        raise Livelock(steps)

  def _abandon(self):
    for r in self.threads:
      if not r['done']:
        r['abandon'] = True
        r['evt'].set()


class _Abandon(BaseException):
  pass


class SchedLock:
  """Drop-in for threading.Lock whose acquire/release are scheduling points."""

  def __init__(self, sched, label='lock'):
    self.s = sched
    self.held = False
    self.label = label

  def __enter__(self):
    self.s.point('acquire:' + self.label)
    r = self.s._cur()  # pylint: disable=protected-access
    while self.held:
      if r is None:
        raise RuntimeError('main thread would block on ' + self.label)
      r['blocked_on'] = self
      self.s.point('blocked:' + self.label)
      r['blocked_on'] = None
    self.held = True
    return self

  def __exit__(self, *a):
    self.held = False
    self.s.point('release:' + self.label)
    return False

  def acquire(self, blocking=True, timeout=-1):
    self.__enter__()
    return True

  def release(self):
    self.__exit__()


class DSProxy:
  """Datastore proxy: every method call is a scheduling point."""

  def __init__(self, ds, sched):
    object.__setattr__(self, '_ds', ds)
    object.__setattr__(self, '_s', sched)

  def __getattr__(self, name):
    attr = getattr(self._ds, name)
    if not callable(attr) or name.startswith('_'):
      return attr
    s = self._s

    def call(*a, **k):
      s.point('ds.' + name)
      return attr(*a, **k)
    return call


def instrument(servicer, sched):
  """Replaces the servicer's datastore and lock tables by scheduled ones."""
  servicer.datastore = DSProxy(servicer.datastore, sched)
  for t in ('_owner_name_to_lock', '_study_name_to_lock', '_operation_lock'):
    label = t.strip('_').split('_')[0]

    class _Table(collections.defaultdict):
      def __init__(self, lab):
        super().__init__()
        self._lab = lab

      def __missing__(self, key):
        v = SchedLock(sched, '%s[%s]' % (self._lab, key))
        self[key] = v
        return v
    setattr(servicer, t, _Table(label))
  return servicer


# ------------------------------------------------------------------ policies
def policy_from_choices(choices):
  """Random-schedule policy: i-th decision = choices[i] mod #runnable."""
  def policy(step, names, cur):
    c = choices[step] if step < len(choices) else 0
    if step >= len(choices) and cur is not None:
      return cur
    return sorted(names)[c % len(names)]
  return policy


def policy_bounded(order, preempts):
  """Non-preemptive execution in `order`, except at the given global steps.

  preempts: {step: thread name to switch to}.
  """
  def policy(step, names, cur):
    if step in preempts and preempts[step] in names:
      return preempts[step]
    if cur is not None:
      return cur
    for n in order:
      if n in names:
        return n
    return names[0]
  return policy
