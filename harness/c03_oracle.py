"""Membership oracle for C03 (flat and conditional spaces), written from the statement.

The statement: a suggestion "assigns each parameter of the search space
exactly once with a value inside its domain: within bounds for DOUBLE and
INTEGER, integral for INTEGER, a member of the feasible set for DISCRETE and
CATEGORICAL".  Works on the JSON space spec of harness/spaces.py, never on
vizier objects, so it shares no code with SearchSpace.contains or with the
converters.

`judge(spec, assignment)` -> None when the assignment is a complete member,
else (why, param_spec_or_None, text) with `why` one of
  missing      an (active) parameter has no value
  extra        a key that is not an (active) parameter of the space
  wrong_type   str for a numeric kind / number for CATEGORICAL / bool / other
  nonfinite    nan or +-inf for a numeric kind
  below_lo / above_hi   DOUBLE, INTEGER outside the bounds
  nonintegral  INTEGER with a fractional part
  not_feasible DISCRETE / CATEGORICAL value not among the declared values

For a conditional spec (params carrying 'children') the active parameter set
is derived from the assignment itself: a child group is active iff its
parent is active and the parent's value is one of the group's parent_values.
"""
import math


def normalise(v):
  """numpy scalars -> python scalars (an np.float64 3.0 is the number 3.0)."""
  item = getattr(v, 'item', None)
  if item is not None and type(v).__module__ == 'numpy':
    try:
      return item()
    except Exception:  # pylint: disable=broad-except
      return v
  return v


def _is_number(v):
  return isinstance(v, (int, float)) and not isinstance(v, bool)


def value_why(p, v):
  """None if python value v lies in the domain of param spec p, else why."""
  k = p['kind']
  if k in ('DOUBLE', 'INTEGER', 'DISCRETE'):
    if not _is_number(v):
      return 'wrong_type'
    if isinstance(v, float) and not math.isfinite(v):
      return 'nonfinite'
  if k == 'DOUBLE':
    if v < p['lo']:
      return 'below_lo'
    if v > p['hi']:
      return 'above_hi'
    return None
  if k == 'INTEGER':
    if v < p['lo']:
      return 'below_lo'
    if v > p['hi']:
      return 'above_hi'
    if isinstance(v, float) and v != math.floor(v):
      return 'nonintegral'
    return None
  if k == 'DISCRETE':
    return None if any(v == x for x in p['values']) else 'not_feasible'
  if k == 'CATEGORICAL':
    if not isinstance(v, str):
      return 'wrong_type'
    return None if v in p['values'] else 'not_feasible'
  if k == 'BOOL':
    if not isinstance(v, str):
      return 'wrong_type'
    return None if v in ('True', 'False') else 'not_feasible'
  raise ValueError(k)


def _domain(p):
  return {k: p[k] for k in ('lo', 'hi', 'values', 'scale') if k in p}


def judge_all(spec, assignment):
  """All problems of the assignment: list of (why, param_spec|None, text).

  Empty list = complete member.  One entry per offending parameter, so that
  one (known) defect on parameter a cannot hide a different one on b.
  """
  assignment = {k: normalise(v) for k, v in assignment.items()}
  active = []
  undecided = set()  # descendants of a parent whose own value is unusable
  problems = []

  def descendants(p):
    for ch in p.get('children', ()):
      for q in ch['params']:
        undecided.add(q['name'])
        descendants(q)

  def rec(params):
    for p in params:
      active.append(p['name'])
      if p['name'] not in assignment:
        problems.append(('missing', p,
                         'parameter %r (%s) has no value; keys=%r' % (
                             p['name'], p['kind'], sorted(assignment))))
        descendants(p)
        continue
      v = assignment[p['name']]
      why = value_why(p, v)
      if why:
        problems.append((why, p,
                         'parameter %r (%s) value %r outside domain %r' % (
                             p['name'], p['kind'], v, _domain(p))))
        descendants(p)
        continue
      for ch in p.get('children', ()):
        pv = ch['parent_values']
        if p['kind'] == 'BOOL':
          pv = ['True' if x else 'False' for x in pv]
        if any(v == x for x in pv):
          rec(ch['params'])

  rec(spec['params'])
  extra = [k for k in assignment if k not in active and k not in undecided]
  if extra:
    problems.append(('extra', None,
                     'keys %r are not (active) parameters; active=%r' % (
                         sorted(extra), active)))
  return problems


def judge(spec, assignment):
  """First problem or None (see judge_all)."""
  r = judge_all(spec, assignment)
  return r[0] if r else None


F32_MAX = 3.4028234663852886e38
F32_TINY = 1.1754943508222875e-38


def beyond_float32(p):
  """Input class: DOUBLE bounds that a float32 cannot represent normally."""
  if p is None or p['kind'] != 'DOUBLE':
    return False
  m = max(abs(p['lo']), abs(p['hi']))
  if m > F32_MAX:
    return True
  nz = [abs(x) for x in (p['lo'], p['hi']) if x != 0]
  return bool(nz) and min(nz) < F32_TINY


def revlog_cancel(p):
  """Input class: REVERSE_LOG DOUBLE whose lo is lost in lo + hi (float64)."""
  if p is None or p['kind'] != 'DOUBLE' or p.get('scale') != 'REVERSE_LOG':
    return False
  return (p['lo'] + p['hi']) - p['hi'] <= 0.0


def range_tags(spec, p):
  """Numerically hostile input classes, for the bucket name.

  ':own=<tags of the offending parameter>' and ':space=<tags present anywhere
  in the space>' (a NaN in one coordinate of a joint model contaminates every
  coordinate); each part only when non-empty; tags in fixed order.
  """
  fs = (('beyond_f32', beyond_float32), ('revlog_cancel', revlog_cancel))
  own = [n for n, f in fs if f(p)]
  ps = all_params(spec)
  sp = [n for n, f in fs if any(f(q) for q in ps)]
  return ((':own=' + '+'.join(own)) if own else '') + (
      (':space=' + '+'.join(sp)) if sp else '')


def all_params(spec):
  """Every param spec of a (possibly conditional) space, depth first."""
  out = []

  def rec(params):
    for p in params:
      out.append(p)
      for ch in p.get('children', ()):
        rec(ch['params'])
  rec(spec['params'])
  return out


def is_conditional(spec):
  return any(p.get('children') for p in all_params(spec))


def interesting(spec):
  """Non-triviality of the space: >=2 kinds, non-LINEAR scale, degenerate."""
  ps = all_params(spec)
  kinds = {p['kind'] for p in ps}
  if len(kinds) >= 2:
    return True
  for p in ps:
    if p.get('scale') in ('LOG', 'REVERSE_LOG'):
      return True
    if p['kind'] in ('DOUBLE', 'INTEGER') and p['lo'] == p['hi']:
      return True
    if p['kind'] in ('DISCRETE', 'CATEGORICAL') and len(p['values']) == 1:
      return True
  return False
