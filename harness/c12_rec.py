"""Recording designer + per-case recorder for C12.

Nothing here models vizier's trial cache.  The recording designer is "an
algorithm" in the sense of the property: it hands out suggestions that carry
a unique token parameter, persists the multiset of completed-trial tokens it
was given through dump()/load() (so a lineage of designer objects restored
from stored state has one memory), and forwards every `update()` to the
Recorder, which judges it against the ground truth of that moment.

Ground truth is supplied by the host driver as a callable returning
{token: Truth}; for the service it is read from the datastore inside the
update() call (proto `state` field), for the in-RAM supporter it is the
driver's own bookkeeping of what it did to each trial.
"""
import collections
import json
import traceback

from harness import boot

boot.init()

from vizier import pyvizier as vz  # noqa: E402
from vizier._src.algorithms.core import abstractions as vza  # noqa: E402
from vizier.interfaces import serializable  # noqa: E402

TOK = 'tok'
KEY = 'c12_received'
LOST = '<lost'  # not JSON: a state value that cannot be decoded

Truth = collections.namedtuple('Truth', 'id state infeasible value')


def token_of(trial):
  return int(trial.parameters.get_value(TOK))


def value_of(token):
  """Objective value reported when the trial with this token is completed."""
  return token + 0.25


class Recorder:
  """Judges each Designer.update() of one case."""

  def __init__(self, out, host, incremental, deliveries=()):
    self.out = out
    self.host = host
    self.incremental = incremental
    self.deliveries = list(deliveries)
    self.truth_fn = None  # set by the driver
    self.next_token = 1
    self.updates = 0  # number of Designer.update calls seen
    self.suggests = 0
    self.force_exact = False
    # epoch = stretch of the study's life between two losses of stored state
    self.epoch = {}  # token -> trial id it was delivered under
    self.epoch_ids = collections.defaultdict(set)  # id -> tokens delivered
    # ids given this epoch that were above max_trial_id at a later update: the
    # loader had the opportunity to forget them before the id was re-issued
    self.prunable_ids = set()
    self.prunable_ids_before = set()
    self.md_lost = False  # stored state lost since the last persisted dump
    self.deleted_any = False
    self.reported = set()  # (clause, token) already reported
    self.seen_stopping = False
    self.seen_requested = False
    self.seen_fresh_after_loss = False
    self.known_hits = set()
    self.log = []
    self.harness_error = None

  def new_token(self):
    t = self.next_token
    self.next_token += 1
    return t

  def _v(self, clause, where, detail, key=None):
    if key is not None:
      if (clause, key) in self.reported:
        return
      self.reported.add((clause, key))
    self.out.violate('%s/%s/%s' % (clause, self.host, where),
                     'update#%d %s' % (self.updates, detail))

  # ------------------------------------------------------------------
  def on_update(self, designer, completed, active):
    try:
      self._on_update(designer, completed, active)
    except Exception:
      # an exception here would be swallowed by the host (PythiaServicer turns
      # it into an operation error): keep it and re-raise from the driver.
      self.harness_error = traceback.format_exc()
      raise

  def raise_harness_error(self):
    if self.harness_error:
      raise AssertionError('harness error inside update():\n'
                           + self.harness_error)

  def _on_update(self, designer, completed, active):
    self.updates += 1
    truth = self.truth_fn()
    g_active = {k for k, v in truth.items() if v.state == 'ACTIVE'}
    g_completed = {k for k, v in truth.items() if v.state == 'COMPLETED'}
    states = {v.state for v in truth.values()}
    if 'STOPPING' in states:
      self.seen_stopping = True
    if 'REQUESTED' in states:
      self.seen_requested = True
    c_tok = [token_of(t) for t in completed]
    a_tok = [token_of(t) for t in active]
    self.log.append((sorted(c_tok), sorted(a_tok)))
    ctx = 'completed=%r active=%r truth_completed=%r truth_active=%r' % (
        sorted(c_tok), sorted(a_tok), sorted(g_completed), sorted(g_active))

    # --- all_active == trials ACTIVE at this moment -----------------------
    if len(set(a_tok)) != len(a_tok):
      self._v('active', 'duplicate', ctx)
    for k in sorted(set(a_tok) - g_active):
      st = truth[k].state if k in truth else 'DELETED_OR_UNKNOWN'
      self._v('active', 'extra/' + st, 'token %d; %s' % (k, ctx))
    if g_active - set(a_tok):
      self._v('active', 'missing', 'tokens %r; %s' % (
          sorted(g_active - set(a_tok)), ctx))
    for t in active:
      k = token_of(t)
      if k in truth and truth[k].id != t.id:
        self._v('active', 'wrong_id', 'token %d id %r truth id %r' % (
            k, t.id, truth[k].id))

    # --- completed: only completed trials, faithful content ---------------
    if len(set(c_tok)) != len(c_tok):
      self._v('completed', 'duplicate_in_update', ctx)
    for t in completed:
      k = token_of(t)
      if k not in g_completed:
        st = truth[k].state if k in truth else 'DELETED_OR_UNKNOWN'
        self._v('completed', 'not_completed/' + st, 'token %d; %s' % (k, ctx))
        continue
      tr = truth[k]
      if tr.id != t.id:
        self._v('completed', 'wrong_id', 'token %d id %r truth %r' % (
            k, t.id, tr.id))
      if bool(t.infeasible) != bool(tr.infeasible):
        self._v('completed', 'wrong_feasibility', 'token %d' % k)
      elif not tr.infeasible:
        fm = t.final_measurement
        got = None
        if fm is not None and 'm' in fm.metrics:
          got = fm.metrics['m'].value
        if got != tr.value:
          self._v('completed', 'wrong_final_measurement',
                  'token %d got %r want %r' % (k, got, tr.value))

    if not self.incremental:
      # rebuilt from scratch on every request: the complete current sets
      if sorted(c_tok) != sorted(g_completed):
        where = ('completed_missing' if g_completed - set(c_tok)
                 else 'completed_extra')
        self._v('full', where, ctx)
      self.epoch.update((k, truth[k].id) for k in c_tok if k in truth)
      return

    # --- incremental hosts -------------------------------------------------
    new_object = designer.n_updates == 0
    if new_object and self.md_lost:
      # stored state was lost: the algorithm starts over, so does its life
      self.epoch = {}
      self.epoch_ids = collections.defaultdict(set)
      self.prunable_ids = set()
      self.md_lost = False
      self.reported = {r for r in self.reported
                       if r[0] not in ('missed', 'twice')}
      if not designer.loaded:
        self.seen_fresh_after_loss = True
    received = set(designer.received)
    max_id = max([v.id for v in truth.values()] or [0])
    self.prunable_ids_before = set(self.prunable_ids)
    self.prunable_ids |= {i for i in self.epoch_ids if i > max_id}
    for k in sorted(set(c_tok) & received):
      self._v('twice', 'lineage', 'token %d already in the restored '
              'algorithm state; %s' % (k, ctx), key=k)
    for k in sorted(set(c_tok) & set(self.epoch)):
      self._v('twice', 'epoch', 'token %d was already given in update %s; %s'
              % (k, 'earlier', ctx), key=k)
    have_lineage = received | set(c_tok)
    have_epoch = set(self.epoch) | set(c_tok)
    for k in sorted(g_completed - have_lineage):
      tid = truth[k].id
      if self.epoch_ids.get(tid, set()) - {k}:
        # known finding only when the id was re-issued before any update could
        # see that it had become free
        why = ('id_reused_after_prune_opportunity'
               if tid in self.prunable_ids_before else 'id_reused_after_delete')
      elif (self.deleted_any and not c_tok
            and len(self.epoch_ids) == max_id):
        why = 'count_eq_max_id_after_delete'
      elif self.deleted_any:
        why = 'withheld_after_delete'
      else:
        why = 'withheld'
      if why in ('id_reused_after_delete', 'count_eq_max_id_after_delete'):
        self.known_hits.add(why)
      self._v('missed', why, 'completed token %d (trial id %d) neither given '
              'now nor before; ids given so far %r max_trial_id %d; %s' % (
                  k, tid, sorted(self.epoch_ids), max_id, ctx), key=k)
    for k in sorted((g_completed - have_epoch) - (g_completed - have_lineage)):
      self._v('missed', 'claimed_by_restored_state_only',
              'token %d; %s' % (k, ctx), key=k)
    for k in c_tok:
      if k in truth:
        self.epoch.setdefault(k, truth[k].id)
        self.epoch_ids[truth[k].id].add(k)
        # the id is in use again: an earlier opportunity to forget it says
        # nothing about its next re-use
        self.prunable_ids.discard(truth[k].id)

  def final_check(self):
    """After the flushing suggest: every completed trial given exactly once."""
    truth = self.truth_fn()
    g_completed = {k for k, v in truth.items() if v.state == 'COMPLETED'}
    for k in sorted(g_completed - set(self.epoch)):
      if ('missed', k) in self.reported:
        continue
      self._v('life', 'never_given', 'token %d (id %d)' % (k, truth[k].id),
              key=k)


class RecordingDesigner(vza.PartiallySerializableDesigner):
  """Designer that records what it is given; state = tokens received."""

  recorder = None  # bound per case through make_factory

  def __init__(self, problem, recorder):
    self._problem = problem
    self._rec = recorder
    self.received = []
    self.loaded = False
    self.n_updates = 0

  def update(self, completed, all_active):
    self._rec.on_update(self, list(completed.trials), list(all_active.trials))
    self.n_updates += 1
    self.received.extend(token_of(t) for t in completed.trials)

  def suggest(self, count=None):
    rec = self._rec
    count = 1 if count is None else count
    idx = rec.suggests
    rec.suggests += 1
    delta = 0
    if not rec.force_exact and idx < len(rec.deliveries):
      delta = rec.deliveries[idx]
    n = max(0, count + delta)
    out = []
    for _ in range(n):
      k = rec.new_token()
      out.append(vz.TrialSuggestion({TOK: k, 'x': (k * 0.37) % 10.0}))
    return out

  def dump(self):
    md = vz.Metadata()
    md[KEY] = json.dumps(self.received)
    return md

  def load(self, md):
    if KEY not in md:
      raise serializable.HarmlessDecodeError('no recorded state')
    try:
      rec = json.loads(md[KEY])
    except json.JSONDecodeError as e:
      raise serializable.HarmlessDecodeError('undecodable state') from e
    self.received = list(rec)
    self.loaded = True


def make_factory(recorder):
  """DesignerFactory: (problem, **kwargs) -> RecordingDesigner."""

  def factory(problem, **kwargs):
    del kwargs  # seed
    return RecordingDesigner(problem, recorder)
  return factory


def problem():
  ps = vz.ProblemStatement()
  ps.search_space.root.add_int_param(TOK, 0, 10 ** 6)
  ps.search_space.root.add_float_param('x', 0.0, 10.0)
  ps.metric_information.append(vz.MetricInformation(
      'm', goal=vz.ObjectiveMetricGoal.MAXIMIZE))
  return ps


def study_config():
  """The same problem as a service StudyConfig."""
  from vizier.service import pyvizier as svz
  sc = svz.StudyConfig(algorithm='C12_RECORDING')
  sc.search_space.root.add_int_param(TOK, 0, 10 ** 6)
  sc.search_space.root.add_float_param('x', 0.0, 10.0)
  sc.metric_information.append(vz.MetricInformation(
      'm', goal=vz.ObjectiveMetricGoal.MAXIMIZE))
  return sc
