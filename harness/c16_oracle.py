"""Independent oracles and value pools for C16 (search-space validation/membership).

Everything here works on the JSON specs of harness/spaces.py and is written
from the statement of C16 (properties.jsonl) plus the coercions DESIGN.md §C16
lists explicitly:

  * a python bool is accepted where the equal int (numeric kinds) or the
    string 'True'/'False' (CATEGORICAL / BOOL) would be;
  * an integral float is an INTEGER value, an int is a DOUBLE/DISCRETE value;
  * strings are never numeric values, numbers are never categorical values;
  * NaN / +-inf are inside no domain.

Nothing in this module imports vizier.
"""
import math

NUMERIC = ('DOUBLE', 'INTEGER', 'DISCRETE')
HUGE_INT = 10 ** 400  # larger than any float
F53 = 2 ** 53


# ---------------------------------------------------------------------------
# membership
# ---------------------------------------------------------------------------
def _coerce_bool(p, v):
  if isinstance(v, bool):
    if p['kind'] in NUMERIC:
      return int(v)
    return 'True' if v else 'False'
  return v


def value_reason(p, v):
  """None when python value v lies in the domain of flat param spec p,

  otherwise a short stable reason code."""
  k = p['kind']
  v = _coerce_bool(p, v)
  if k in NUMERIC:
    if isinstance(v, str):
      return k + '/str'
    if not isinstance(v, (int, float)):
      return k + '/type'
    if isinstance(v, float) and not math.isfinite(v):
      return k + '/nonfinite'
    if k == 'DOUBLE':
      return None if p['lo'] <= v <= p['hi'] else k + '/out_of_range'
    if k == 'INTEGER':
      if isinstance(v, float) and v != math.floor(v):
        return k + '/non_integral'
      return None if p['lo'] <= v <= p['hi'] else k + '/out_of_range'
    return None if any(v == x for x in p['values']) else k + '/not_listed'
  # CATEGORICAL / BOOL
  if not isinstance(v, str):
    return k + '/number'
  vals = p['values'] if k == 'CATEGORICAL' else ('True', 'False')
  return None if v in vals else k + '/not_listed'


def value_member(p, v):
  return value_reason(p, v) is None


def reason(spec, assignment):
  """assignment: dict name -> python value. None = member of the flat spec."""
  names = [p['name'] for p in spec['params']]
  for n in names:
    if n not in assignment:
      return 'missing_key'
  for n in assignment:
    if n not in names:
      return 'extra_key'
  for p in spec['params']:
    r = value_reason(p, assignment[p['name']])
    if r is not None:
      return r
  return None


def member(spec, assignment):
  return reason(spec, assignment) is None


# ---------------------------------------------------------------------------
# candidate values per parameter: members, coerced members and near misses
# ---------------------------------------------------------------------------
def _exact_int(x):
  return isinstance(x, int) or (math.isfinite(x) and x == math.floor(x)
                                and abs(x) <= F53)


def value_candidates(p, huge=True):
  """Deterministic list of [label, value] for flat param spec p.

  Labels are descriptive only; membership is always decided by value_reason.
  Ints that a double cannot represent exactly are not offered to
  DOUBLE/DISCRETE (documented exclusion), except HUGE_INT which lies outside
  every domain.
  """
  k = p['kind']
  nan, inf = float('nan'), float('inf')
  c = []
  if k == 'DOUBLE':
    lo, hi = float(p['lo']), float(p['hi'])
    mid = lo / 2 + hi / 2
    c += [['lo', lo], ['hi', hi], ['mid', mid],
          ['below', math.nextafter(lo, -inf)],
          ['above', math.nextafter(hi, inf)],
          ['far', hi + abs(hi) + 1.0], ['inf', inf], ['-inf', -inf],
          ['nan', nan], ['str', repr(mid)], ['str_true', 'True'],
          ['bool', True], ['bool', False], ['neg_zero', -0.0]]
    ci = math.ceil(lo) if math.isfinite(lo) and abs(lo) <= F53 else None
    if ci is not None:
      c.append(['int', int(ci)])
    if abs(hi) < F53:
      c.append(['int_above', int(math.floor(hi)) + 1])
  elif k == 'INTEGER':
    lo, hi = p['lo'], p['hi']
    mid = (lo + hi) // 2
    c += [['lo', lo], ['hi', hi], ['mid', mid], ['below', lo - 1],
          ['above', hi + 1], ['as_float', float(lo)], ['as_float', float(hi)],
          ['as_float_above', float(hi + 1)], ['frac', mid + 0.5],
          ['frac', math.nextafter(float(hi), inf)],
          ['frac', math.nextafter(float(lo), -inf)],
          ['inf', inf], ['-inf', -inf], ['nan', nan], ['str', str(lo)],
          ['str_true', 'True'], ['bool', True], ['bool', False],
          ['neg_zero', -0.0]]
  elif k == 'DISCRETE':
    vals = list(p['values'])
    pick = [vals[0], vals[-1], vals[len(vals) // 2]]
    seen = []
    for v in pick:
      if not any(v == s and type(v) is type(s) for s in seen):
        seen.append(v)
    for v in seen:
      c.append(['listed', v])
      if _exact_int(v):
        c.append(['swap_type', float(v) if isinstance(v, int) else int(v)])
    v0 = float(vals[0])
    c += [['nudged', math.nextafter(v0, inf)],
          ['nudged', math.nextafter(v0, -inf)],
          ['below', min(vals) - 1], ['above', max(vals) + 1],
          ['inf', inf], ['nan', nan], ['str', repr(vals[0])],
          ['str_true', 'True'], ['bool', True], ['bool', False]]
    if len(vals) > 1:
      c.append(['between', float(vals[0]) / 2 + float(vals[1]) / 2])
  elif k == 'CATEGORICAL':
    vals = list(p['values'])
    for v in (vals[0], vals[-1]):
      if ['listed', v] not in c:
        c.append(['listed', v])
    c += [['other_str', vals[0] + 'x'], ['other_str', ''],
          ['other_str', 'True'], ['other_str', 'False'],
          ['bool', True], ['bool', False], ['number', 0], ['number', 1],
          ['number', 1.0], ['number', 0.5], ['nan', nan]]
    if vals[0].upper() != vals[0]:
      c.append(['case', vals[0].upper()])
    elif vals[0].lower() != vals[0]:
      c.append(['case', vals[0].lower()])
  else:  # BOOL
    c += [['listed', 'True'], ['listed', 'False'], ['bool', True],
          ['bool', False], ['case', 'true'], ['case', 'FALSE'],
          ['other_str', ''], ['other_str', '1'], ['other_str', 'T'],
          ['number', 1], ['number', 0], ['number', 1.0], ['number', 0.0]]
  if huge and k in NUMERIC:
    c.append(['huge_int', HUGE_INT])
  return c


def value_classes(p, label, v):
  """Generator classes of one (param, candidate) choice."""
  cl = []
  k = p['kind']
  if isinstance(v, bool):
    cl.append('bool_value')
  elif k == 'INTEGER' and isinstance(v, float) and math.isfinite(v) \
      and v == math.floor(v):
    cl.append('integral_float_for_integer')
  elif k in ('DOUBLE', 'DISCRETE') and isinstance(v, int):
    cl.append('int_for_float')
  if isinstance(v, float) and not math.isfinite(v):
    cl.append('nonfinite_value')
  if isinstance(v, str) and k in NUMERIC:
    cl.append('str_for_numeric')
  if not isinstance(v, (str, bool)) and k in ('CATEGORICAL', 'BOOL'):
    cl.append('number_for_categorical')
  if label in ('lo', 'hi'):
    cl.append('boundary_inside')
  if label == 'frac':
    cl.append('non_integral_float_for_integer')
  if label in ('below', 'above', 'nudged', 'frac', 'as_float_above',
               'int_above'):
    cl.append('boundary_outside')
  if label == 'huge_int':
    cl.append('huge_int')
  return cl


# ---------------------------------------------------------------------------
# small spaces for the exhaustive family
# ---------------------------------------------------------------------------
def _d(name, lo, hi, scale=None):
  return {'name': name, 'kind': 'DOUBLE', 'lo': lo, 'hi': hi, 'scale': scale}


def _i(name, lo, hi, scale=None):
  return {'name': name, 'kind': 'INTEGER', 'lo': lo, 'hi': hi, 'scale': scale}


def _s(name, values, auto_cast=True, scale=None):
  return {'name': name, 'kind': 'DISCRETE', 'values': values, 'scale': scale,
          'auto_cast': auto_cast}


def _c(name, values):
  return {'name': name, 'kind': 'CATEGORICAL', 'values': values}


def _b(name):
  return {'name': name, 'kind': 'BOOL'}


def small_spaces():
  singles = [
      _d('x', 0.0, 1.0), _d('x', -2.5, -2.5), _d('x', 1e-3, 10.0, 'LOG'),
      _d('x', -1e150, 1e150), _d('x', -1.0, 0.0),
      _i('n', 0, 5), _i('n', -3, -3), _i('n', 0, 1), _i('n', 1, 1000, 'LOG'),
      _i('n', 10 ** 6, 10 ** 6 + 10), _i('n', -1, 0),
      _s('d', [1, 2, 3.5]), _s('d', [0.0, 1.0]), _s('d', [-20]),
      _s('d', [1.0, 2.0], auto_cast=False), _s('d', [0.1, 0.2, 0.30000000000000004]),
      _c('c', ['a', 'b']), _c('c', ['', 'False', 'True']),
      _c('c', ['0', '1.0']), _c('c', ['A']),
      _b('b'),
  ]
  spaces_ = [{'params': []}] + [{'params': [p]} for p in singles]
  pairs = [
      [_d('x', 0.0, 1.0), _i('n', 0, 5)],
      [_s('d', [1, 2, 3.5]), _c('c', ['a', 'b'])],
      [_b('b'), _i('n', 0, 1)],
      [_c('c', ['True', 'a']), _b('b')],
      [_d('x', 0.0, 1.0), _d('a:b', -1.0, 1.0)],
      [_i('n', -3, -3), _s('0', [0.0, 1.0])],
  ]
  triples = [
      [_d('x', 0.0, 1.0), _i('n', 0, 5), _c('c', ['a', 'True'])],
      [_s('d', [0, 1, 3.5]), _b('b'), _i('n', -1, 0)],
  ]
  spaces_ += [{'params': ps} for ps in pairs + triples]
  return spaces_


MISSING = '__missing__'
EXTRAS = [None, ['zz', 1], ['X', 'a']]


def exhaustive_size(spec):
  n = len(EXTRAS)
  for p in spec['params']:
    n *= len(value_candidates(p, huge=len(spec['params']) < 3)) + 1
  return n


def exhaustive_assignment(spec, idx):
  """idx-th assignment (list of [name, value] pairs) of the product pool."""
  huge = len(spec['params']) < 3
  extra = EXTRAS[idx % len(EXTRAS)]
  idx //= len(EXTRAS)
  pairs = []
  for p in spec['params']:
    cands = value_candidates(p, huge=huge)
    j = idx % (len(cands) + 1)
    idx //= len(cands) + 1
    if j < len(cands):
      pairs.append([p['name'], cands[j][1]])
  if extra is not None:
    pairs.append(list(extra))
  return pairs


# ---------------------------------------------------------------------------
# builder verdicts (which definitions the statement calls invalid)
# ---------------------------------------------------------------------------
def _nonfinite(x):
  return isinstance(x, float) and not math.isfinite(x)


def _has_dup(values):
  vals = list(values)
  for i in range(len(vals)):
    for j in range(i + 1, len(vals)):
      try:
        if vals[i] == vals[j]:
          return True
      except Exception:  # pylint: disable=broad-except
        pass
  return False


def subspace_names(base, target):
  """Names already present in each subspace the call targets.

  base: spec (params may have 'children'); target: None (root) or
  {'parent': name, 'values': [...]} with parent a top-level param.
  Returns (list of name-lists, parent spec or None).
  """
  if target is None:
    return [[p['name'] for p in base['params']]], None
  parent = [p for p in base['params'] if p['name'] == target['parent']][0]
  out = []
  for v in target['values']:
    names = []
    for ch in parent.get('children', ()):
      if any(_pv_eq(parent, v, pv) for pv in ch['parent_values']):
        names += [q['name'] for q in ch['params']]
    out.append(names)
  return out, parent


def _pv_eq(parent, a, b):
  """Do a and b denote the same value of the (non-DOUBLE) parent param?"""
  a, b = _coerce_bool(parent, a), _coerce_bool(parent, b)
  if isinstance(a, str) or isinstance(b, str):
    return isinstance(a, str) and isinstance(b, str) and a == b
  return a == b


pv_eq = _pv_eq


def enc(v):
  """JSON-safe encoding of a candidate value (evidence forbids nan/inf)."""
  if isinstance(v, float) and not math.isfinite(v):
    return {'nf': repr(v)}
  return v


def dec(v):
  if isinstance(v, dict):
    return float(v['nf'])
  return v


def all_names(base):
  names = []
  for p in base['params']:
    names.append(p['name'])
    for ch in p.get('children', ()):
      names += [q['name'] for q in ch['params']]
  return names


def final_name(call):
  idx = call.get('index')
  if idx is None:
    return call['name']
  return '%s[%d]' % (call['name'], idx)


def parent_value_feasible(parent, v):
  return value_member(parent, v)


def builder_verdict(base, target, call):
  """-> (invalid, odd): sets of reason codes.

  invalid = reasons from the statement's list (the call must be rejected);
  odd     = argument combinations the statement does not speak about (the
            outcome is recorded but not judged, only the normal form of a
            successfully built config is).
  """
  invalid, odd = set(), set()
  fn = call['fn']
  name = call['name']
  idx = call.get('index')
  if name == '':
    if idx is None:
      invalid.add('empty_name')
    else:
      odd.add('empty_name_with_index')
  if idx is not None and idx < 0:
    odd.add('neg_index')
  # names
  fname = final_name(call) if (idx is None or idx >= 0) else call['name']
  targets, parent = subspace_names(base, target)
  if any(fname in names for names in targets):
    invalid.add('dup_name')
  else:
    elsewhere = all_names(base)
    if target is not None:
      # the same name under another value of the same parent is legitimate
      for ch in parent.get('children', ()):
        for q in ch['params']:
          if q['name'] in elsewhere:
            elsewhere.remove(q['name'])
    if fname in elsewhere:
      odd.add('name_elsewhere')
  # target
  if target is not None:
    if parent['kind'] == 'DOUBLE':
      invalid.add('child_under_double')
    else:
      if not all(parent_value_feasible(parent, v) for v in target['values']):
        odd.add('infeasible_parent_value')
      if any(isinstance(v, bool) for v in target['values']) and \
          parent['kind'] != 'BOOL':
        odd.add('bool_parent_value')
  # numeric bounds
  if fn in ('float', 'int') or (fn == 'factory' and call.get('bounds')
                                is not None):
    lo, hi = (call['lo'], call['hi']) if fn != 'factory' else call['bounds']
    if _nonfinite(lo) or _nonfinite(hi):
      invalid.add('nonfinite_bounds')
    elif lo > hi:
      invalid.add('reversed_bounds')
    if fn == 'int':
      for b in (lo, hi):
        if isinstance(b, float) and math.isfinite(b):
          odd.add('float_int_bound' if b == math.floor(b)
                  else 'frac_int_bound')
    if fn == 'factory':
      if type(lo) is not type(hi):
        odd.add('mixed_bounds')
  # feasible values
  vals = None
  if fn in ('discrete', 'categorical'):
    vals = call['values']
  elif fn == 'factory' and call.get('values') is not None:
    vals = call['values']
  elif fn == 'bool' and call.get('bool_values') is not None:
    vals = call['bool_values']
  if vals is not None:
    if _has_dup(vals):
      invalid.add('dup_values')
    if len(vals) == 0:
      odd.add('empty_values')
    strs = [isinstance(v, str) for v in vals]
    if fn == 'categorical' and not all(strs):
      odd.add('nonstring_category')
    if fn == 'discrete' and any(strs):
      odd.add('string_discrete')
    if fn == 'factory' and any(strs) and not all(strs):
      odd.add('mixed_values')
    if any(_nonfinite(v) for v in vals):
      odd.add('nonfinite_values')
  if fn == 'factory':
    if call.get('bounds') is not None and call.get('values') is not None:
      odd.add('bounds_and_values')
    if call.get('bounds') is None and call.get('values') is None:
      odd.add('neither_bounds_nor_values')
    ch = call.get('children')
    if ch:
      kind = factory_kind(call)
      if kind == 'DOUBLE':
        invalid.add('child_under_double')
      elif kind is not None:
        me = factory_spec(call, kind)
        if not all(value_member(me, v) for v in ch['values']):
          odd.add('infeasible_parent_value')
      else:
        odd.add('children_of_untyped')
  return invalid, odd


def factory_kind(call):
  """Type the statement says is inferred from the value kinds."""
  b, v = call.get('bounds'), call.get('values')
  if v:
    if all(isinstance(x, (int, float)) and not isinstance(x, bool)
           for x in v):
      return 'DISCRETE'
    if all(isinstance(x, str) for x in v):
      return 'CATEGORICAL'
    return None
  if b is not None:
    if all(isinstance(x, int) and not isinstance(x, bool) for x in b):
      return 'INTEGER'
    if all(isinstance(x, float) for x in b):
      return 'DOUBLE'
  return None


def factory_spec(call, kind):
  p = {'name': call['name'], 'kind': kind}
  if kind in ('DOUBLE', 'INTEGER'):
    p.update(lo=call['bounds'][0], hi=call['bounds'][1])
  else:
    p.update(values=list(call['values']))
  return p
