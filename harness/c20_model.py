"""C20 helpers: experimenter stacks from JSON, probes, reference clauses.

A *node* (JSON) describes an experimenter tree:

  leaves    {'t': 'bbob', 'fn', 'dim', 'seed', 'via': 'factory'|'direct',
             'space': 'default'|'log'|'offset'}
            {'t': 'branin'} {'t': 'hartmann', 'd': 3|6}
            {'t': 'simplekd', 'best', 'nf', 'nd', 'ni', 'rel'}
            {'t': 'dtlz'|'wfg', 'name', 'dim', 'nobj'} {'t': 'zdt'|'dh', 'name', 'dim'}
  wrappers  {'t': <wrapper>, 'in': node, ...relative arguments...}
  combiners {'t': 'multi', 'ins': [node...], 'keys': [...]}
            {'t': 'switch', 'ins': [node...]}

Wrapper arguments are *relative* (fractions of the inner parameter's range,
masks over the eligible inner parameters, seeds).  They are resolved against
the problem statement actually returned by the inner experimenter, so every
argument satisfies the wrapper's constructor guard by construction.

`build(node, probed=True)` interposes a transparent harness `Probe`
experimenter between every two layers.  A probe records, per trial id, the
parameters the outer layer handed to the inner one and the state the inner
one left the trial in.  All algebraic clauses are judged per layer on these
records: "what did the wrapper ask of the experimenter it wraps, and what did
it make of the answer" -- which holds for every stacking order and also
through layers whose output is not predictable (noise, normalisation).

Known findings of the unchanged tree that would blind the search are steered
around (KNOWN_AVOID; counted in classes `avoided_known:*` / `shielded_known:*`).
case['noavoid'] = [flag, ...] switches the avoidance off for one case (pinned
replays, the `bases` enumeration, ~4 % of the generated stacks);
VERIF_C20_NOAVOID=1 switches it off globally (to validate a fixed tree).
"""
import copy
import functools
import json
import math
import os
import traceback

NOISE_TYPES = [
    'NO_NOISE', 'MODERATE_GAUSSIAN', 'SEVERE_GAUSSIAN', 'MODERATE_UNIFORM',
    'SEVERE_UNIFORM', 'MODERATE_SELDOM_CAUCHY', 'SEVERE_SELDOM_CAUCHY',
    'LIGHT_ADDITIVE_GAUSSIAN', 'MODERATE_ADDITIVE_GAUSSIAN',
    'SEVERE_ADDITIVE_GAUSSIAN']

BBOB_FUNCS = [
    'Sphere', 'Rastrigin', 'BuecheRastrigin', 'LinearSlope',
    'AttractiveSector', 'StepEllipsoidal', 'RosenbrockRotated', 'Ellipsoidal',
    'Discus', 'BentCigar', 'SharpRidge', 'DifferentPowers', 'Weierstrass',
    'SchaffersF7', 'SchaffersF7IllConditioned', 'GriewankRosenbrock',
    'Schwefel', 'Katsuura', 'Lunacek', 'Gallagher101Me', 'Gallagher21Me',
    'NegativeSphere', 'NegativeMinDifference', 'FonsecaFleming']

LEAVES = ('bbob', 'branin', 'hartmann', 'simplekd', 'dtlz', 'zdt', 'wfg', 'dh')
COMBINERS = ('multi', 'switch')
INFEASIBLE = ('infeasible_hash', 'infeasible_region')

# Known findings on the unchanged tree whose trigger the builder steers around
# (unless case['noavoid'] names them) so that the rest of the search is not
# blind.  Every avoided case is counted in a class `avoided_known:<flag>`.
KNOWN_AVOID = {
    # bbob.* functions return float(<array of shape (1,)>) -> TypeError with
    # the installed numpy (>=2.x): fall back to Sphere
    'bbob_scalar': False,  # fixed 5706e54
    # PermutingExperimenter cannot permute parameters whose feasible values
    # are python ints (INTEGER, DISCRETE with int values): np.int64 rejected
    'permute_int': False,  # fixed 6db95d7
    # Hashing/ParamRegionInfeasibleExperimenter.problem_statement() returns
    # the internal object: parents see a copy
    'infeasible_byref': False,  # fixed 4022a12
}


class BuildError(Exception):

  def __init__(self, node_type, exc, tb):
    super().__init__('%s: %r' % (node_type, exc))
    self.node_type = node_type
    self.exc = exc
    self.tb = tb


class Ctx:
  """Per case context: avoidance switches and collected classes."""

  def __init__(self, noavoid=()):
    self.noavoid = set(noavoid or ())
    self.classes = []

  def avoid(self, flag):
    if os.environ.get('VERIF_C20_NOAVOID'):  # e.g. to validate a fixed tree
      return False
    return KNOWN_AVOID.get(flag, False) and flag not in self.noavoid

  def cls(self, name):
    if name not in self.classes:
      self.classes.append(name)


# ---------------------------------------------------------------------------
# snapshots
# ---------------------------------------------------------------------------
def snap_params(trial):
  return {k: v.value for k, v in trial.parameters.items()}


def snap_trial(t):
  fm = t.final_measurement
  return {
      'id': t.id,
      'params': snap_params(t),
      'metrics': None if fm is None else {
          k: m.value for k, m in fm.metrics.items()},
      'infeasible': bool(t.infeasible),
      'reason': t.infeasibility_reason,
  }


def same_num(a, b):
  """Exact equality of two metric values, NaN == NaN."""
  try:
    if a != a and b != b:
      return True
    return bool(a == b)
  except Exception:  # pylint: disable=broad-except
    return False


def same_value(a, b):
  """Parameter values: same kind (str vs number) and equal."""
  if isinstance(a, str) != isinstance(b, str):
    return False
  return same_num(a, b)


def same_params(a, b):
  return set(a) == set(b) and all(same_value(a[k], b[k]) for k in a)


def same_metrics(a, b):
  if a is None or b is None:
    return a is None and b is None
  return set(a) == set(b) and all(same_num(a[k], b[k]) for k in a)


def jsonable(x):
  """Makes snapshots printable (numpy scalars, nan)."""
  if isinstance(x, dict):
    return {str(k): jsonable(v) for k, v in x.items()}
  if isinstance(x, (list, tuple)):
    return [jsonable(v) for v in x]
  if isinstance(x, (str, bool)) or x is None:
    return x
  try:
    if isinstance(x, int):
      return int(x)
    return float(x)
  except Exception:  # pylint: disable=broad-except
    return repr(x)


# ---------------------------------------------------------------------------
# problem statement description (harness-owned walk; no reliance on __eq__)
# ---------------------------------------------------------------------------
def describe_pc(pc):
  d = {'type': pc.type.name}
  if pc.type.name in ('DOUBLE', 'INTEGER'):
    d['bounds'] = [pc.bounds[0], pc.bounds[1]]
  else:
    d['values'] = list(pc.feasible_values)
  d['scale'] = pc.scale_type.name if pc.scale_type is not None else None
  ch = {}
  for val, sub in pc.subspaces():
    if sub.parameters:
      ch[repr(val)] = describe_space(sub)
  if ch:
    d['children'] = ch
  return d


def describe_space(space):
  return {pc.name: describe_pc(pc) for pc in space.parameters}


def describe_metrics(ps):
  return sorted(
      ({'name': mi.name, 'goal': mi.goal.name, 'type': mi.type.name}
       for mi in ps.metric_information), key=lambda d: d['name'])


def describe_ps(ps):
  md = []
  try:
    for ns, k, v in ps.metadata.all_items():
      md.append([list(ns), k, repr(v)])
  except Exception:  # pylint: disable=broad-except
    md = ['?']
  return {'space': describe_space(ps.search_space),
          'order': [pc.name for pc in ps.search_space.parameters],
          'metrics': describe_metrics(ps),
          'metadata': sorted(md, key=repr)}


def mutate_ps(ps):
  """Corrupts a returned problem statement in every way the API allows."""
  from vizier import pyvizier as vz
  done = []
  steps = [
      ('add_param', lambda: ps.search_space.root.add_float_param(
          'c20_mutant', 0.0, 1.0)),
      ('add_metric', lambda: ps.metric_information.append(
          vz.MetricInformation('c20_mutant_metric',
                               goal=vz.ObjectiveMetricGoal.MAXIMIZE))),
      ('metadata', lambda: ps.metadata.__setitem__('c20_mutant', 'x')),
  ]

  def flip():
    for mi in ps.metric_information:
      mi.goal = (vz.ObjectiveMetricGoal.MINIMIZE if mi.goal.is_maximize
                 else vz.ObjectiveMetricGoal.MAXIMIZE)
      break
  steps.append(('flip_goal', flip))

  def rename():
    for mi in ps.metric_information:
      mi.name = mi.name + '_c20'
      break
  steps.append(('rename_metric', rename))

  def pop():
    names = [pc.name for pc in ps.search_space.parameters]
    if len(names) > 1:
      ps.search_space.pop(names[0])
  steps.append(('pop_param', pop))
  for name, fn in steps:
    try:
      fn()
      done.append(name)
    except Exception:  # pylint: disable=broad-except
      pass
  return done


def diff_desc(a, b):
  """Names the first differing part of two describe_ps() results."""
  for part in ('metrics', 'space', 'metadata'):
    if a.get(part) != b.get(part):
      if part == 'space':
        ka, kb = set(a['space']), set(b['space'])
        if ka != kb:
          return 'space_names', sorted(ka ^ kb)
        for k in a['space']:
          if a['space'][k] != b['space'][k]:
            return 'space_param', (k, a['space'][k], b['space'][k])
      return part, (a.get(part), b.get(part))
  return None, None


# ---------------------------------------------------------------------------
# points
# ---------------------------------------------------------------------------
def pick_value(pc, u):
  t = pc.type.name
  if t == 'DOUBLE':
    lo, hi = pc.bounds
    v = lo + u * (hi - lo)
    return float(min(max(v, lo), hi))
  if t == 'INTEGER':
    lo, hi = pc.bounds
    return int(lo + min(int(u * (hi - lo + 1)), hi - lo))
  fv = list(pc.feasible_values)
  return fv[min(int(u * len(fv)), len(fv) - 1)]


def sample_point(space, us):
  """Resolves unit coordinates into a member of a (conditional) space."""
  out = {}
  j = [0]

  def rec(sp):
    for pc in sp.parameters:
      u = us[j[0] % len(us)]
      j[0] += 1
      v = pick_value(pc, u)
      out[pc.name] = v
      for val, sub in pc.subspaces():
        if same_value(val, v) or (not isinstance(v, str) and not isinstance(
            val, str) and float(val) == float(v)):
          rec(sub)
  rec(space)
  return out


# ---------------------------------------------------------------------------
# probe
# ---------------------------------------------------------------------------
_PROBE = []


def probe_cls():
  if _PROBE:
    return _PROBE[0]
  from vizier._src.benchmarks.experimenters import experimenter

  class Probe(experimenter.Experimenter):
    """Transparent pass-through that records what crosses a layer boundary."""

    def __init__(self, inner, record=True, copy_ps=False):
      self.inner = inner
      self.record = record
      self.copy_ps = copy_ps
      self.records = []

    def evaluate(self, suggestions):
      if not self.record:
        return self.inner.evaluate(suggestions)
      ins = [(t.id, snap_params(t), bool(t.infeasible)) for t in suggestions]
      self.inner.evaluate(suggestions)
      for (tid, p, pre), t in zip(ins, suggestions):
        # pre_infeasible: MultiObjectiveExperimenter hands the *same* trial
        # copies to one objective after the other; Trial.complete() keeps an
        # earlier infeasibility, so the flag says nothing about this callee
        self.records.append({'id': tid, 'in': p, 'out': snap_trial(t),
                             'pre_infeasible': pre})

    def problem_statement(self):
      ps = self.inner.problem_statement()
      return copy.deepcopy(ps) if self.copy_ps else ps

    def __repr__(self):
      return 'Probe(%r)' % (self.inner,)

  _PROBE.append(Probe)
  return Probe


class Built:

  def __init__(self, node, raw, children, info):
    self.node = node
    self.raw = raw
    self.children = children
    self.info = info
    self.exp = raw
    self.probe = None
    self.ps_desc = None
    self.cls = type(raw).__name__

  def walk(self):
    yield self
    for c in self.children:
      for x in c.walk():
        yield x

  def reset(self):
    for b in self.walk():
      if b.probe is not None:
        b.probe.records = []


def child_nodes(node):
  if node['t'] in LEAVES:
    return []
  if node['t'] in COMBINERS:
    return list(node['ins'])
  return [node['in']]


def depth(node):
  """Number of wrapper/combiner layers on the longest path."""
  if node['t'] in LEAVES:
    return 0
  return 1 + max(depth(c) for c in child_nodes(node))


def types_in(node):
  out = [node['t']]
  for c in child_nodes(node):
    out += types_in(c)
  return out


# ---------------------------------------------------------------------------
# builders
# ---------------------------------------------------------------------------
_BBOB_BROKEN = {}


def _bbob_probe(name, dim, seed):
  """-> None or the reason the function cannot be evaluated here."""
  import numpy as np
  from vizier._src.benchmarks.experimenters.synthetic import bbob
  key = (name, dim)
  if key not in _BBOB_BROKEN:
    try:
      v = getattr(bbob, name)(np.linspace(-1.0, 2.0, dim), seed=seed)
      math.isfinite(v)
      _BBOB_BROKEN[key] = None
    except TypeError as e:
      _BBOB_BROKEN[key] = 'scalar' if 'array' in str(e) else 'other'
    except Exception:  # pylint: disable=broad-except
      _BBOB_BROKEN[key] = 'other'
  return _BBOB_BROKEN[key]


def bbob_effective(node, ctx):
  """Applies the known-finding avoidance to a bbob leaf; -> (fn name, dim)."""
  name, dim = node['fn'], node['dim']
  why = _bbob_probe(name, dim, node.get('seed', 0))
  if why == 'scalar' and ctx.avoid('bbob_scalar'):
    ctx.cls('avoided_known:bbob_scalar')
    name = 'Sphere'
  return name, dim


BBOB_SPACES = {'default': (-5.0, 5.0, None), 'log': (0.1, 10.0, 'LOG'),
               'offset': (-3.0, 7.0, None), 'revlog': (0.5, 4.0, 'REVERSE_LOG')}


def build_leaf(node, ctx):
  from vizier import pyvizier as vz
  from vizier._src.benchmarks.experimenters import experimenter_factory
  from vizier._src.benchmarks.experimenters import numpy_experimenter
  from vizier._src.benchmarks.experimenters.synthetic import bbob
  t = node['t']
  info = {}
  if t == 'bbob':
    name, dim = bbob_effective(node, ctx)
    info['fn'] = name
    seed = node.get('seed', 0)
    space = node.get('space', 'default')
    if node.get('via') == 'factory' and space == 'default':
      raw = experimenter_factory.BBOBExperimenterFactory(
          name=name, dim=dim, rotation_seed=seed)()
    else:
      lo, hi, scale = BBOB_SPACES[space]
      ps = bbob.DefaultBBOBProblemStatement(
          dim, min_value=lo, max_value=hi,
          scale_type=None if scale is None else getattr(vz.ScaleType, scale))
      raw = numpy_experimenter.NumpyExperimenter(
          functools.partial(getattr(bbob, name), seed=seed), ps)
    info['impl'] = functools.partial(getattr(bbob, name), seed=seed)
    return raw, info
  if t == 'branin':
    from vizier._src.benchmarks.experimenters.synthetic import branin
    info['impl'] = branin._branin  # pylint: disable=protected-access
    return branin.Branin2DExperimenter(), info
  if t == 'hartmann':
    from vizier._src.benchmarks.experimenters.synthetic import hartmann
    cls = hartmann.HartmannExperimenter
    return (cls.from_3d() if node['d'] == 3 else cls.from_6d()), info
  if t == 'simplekd':
    from vizier._src.benchmarks.experimenters.synthetic import simplekd
    return simplekd.SimpleKDExperimenter(
        node['best'], num_float_param=node['nf'],
        num_discrete_param=node['nd'], num_int_param=node['ni'],
        output_relative_error=node['rel']), info
  if t in ('dtlz', 'zdt', 'wfg'):
    from vizier._src.benchmarks.experimenters.synthetic import (
        multiobjective_optproblems as mo)
    # reference: the third-party objective function called by the harness;
    # "impl returns a list of values, one per objective, ordered by the metric
    # information in the problem statement"
    from optproblems import dtlz, wfg, zdt
    if t == 'dtlz':
      info['impl_multi'] = getattr(dtlz, node['name'])(
          node['nobj'], node['dim']).objective_function
      return mo.DTLZExperimenterFactory(
          name=node['name'], dim=node['dim'],
          num_objectives=node['nobj'])(), info
    if t == 'wfg':
      info['impl_multi'] = getattr(wfg, node['name'])(
          node['nobj'], node['dim'], node['nobj'] - 1).objective_function
      return mo.WFGExperimenterFactory(
          name=node['name'], dim=node['dim'],
          num_objectives=node['nobj'])(), info
    info['impl_multi'] = getattr(zdt, node['name'])(
        node['dim']).objective_function
    return mo.ZDTExperimenterFactory(name=node['name'], dim=node['dim'])(), info
  if t == 'dh':
    from vizier._src.benchmarks.experimenters.synthetic import deb
    info['f0_is_x0'] = True  # class docstring: f0(x) = x0
    return getattr(deb.DHExperimenter, node['name'])(node['dim']), info
  raise ValueError(t)


def _cyc(seq, i):
  return seq[i % len(seq)]


def build_wrapper(node, kids, ctx):
  """-> (raw experimenter, info) ; info holds the resolved arguments."""
  import numpy as np
  from vizier import pyvizier as vz
  from vizier._src.benchmarks.experimenters import discretizing_experimenter
  from vizier._src.benchmarks.experimenters import infeasible_experimenter
  from vizier._src.benchmarks.experimenters import multiobjective_experimenter
  from vizier._src.benchmarks.experimenters import noisy_experimenter
  from vizier._src.benchmarks.experimenters import normalizing_experimenter
  from vizier._src.benchmarks.experimenters import permuting_experimenter
  from vizier._src.benchmarks.experimenters import shifting_experimenter
  from vizier._src.benchmarks.experimenters import sign_flip_experimenter
  from vizier._src.benchmarks.experimenters import sparse_experimenter
  from vizier._src.benchmarks.experimenters import switch_experimenter
  t = node['t']
  info = {}
  if t == 'multi':
    keys = node['keys']
    d = {}
    for i, k in enumerate(kids):
      d[keys[i]] = k.exp
    info['keys'] = list(d)
    info['child_metric'] = [
        k.ps_desc['metrics'][0]['name'] if k.ps_desc['metrics'] else None
        for k in kids]
    return multiobjective_experimenter.MultiObjectiveExperimenter(d), info
  if t == 'switch':
    info['child_metric'] = [
        k.ps_desc['metrics'][0]['name'] if k.ps_desc['metrics'] else None
        for k in kids]
    return switch_experimenter.SwitchExperimenter(
        [k.exp for k in kids]), info
  inner = kids[0]
  ips = inner.exp.problem_statement()
  params = list(ips.search_space.parameters)
  if t == 'shift':
    fr = node['fracs']
    if node.get('scalar'):
      rng_min = min(p.bounds[1] - p.bounds[0] for p in params)
      s = float(fr[0] * rng_min)
      shift = s
      info['shift'] = {p.name: s for p in params}
    else:
      vec = [float(_cyc(fr, i) * (p.bounds[1] - p.bounds[0]))
             for i, p in enumerate(params)]
      shift = np.array(vec)
      info['shift'] = {p.name: v for p, v in zip(params, vec)}
    info['restrict'] = bool(node['restrict'])
    info['bounds'] = {p.name: tuple(p.bounds) for p in params}
    return shifting_experimenter.ShiftingExperimenter(
        inner.exp, shift, should_restrict=info['restrict']), info
  if t == 'signflip':
    info['objonly'] = bool(node['objonly'])
    return sign_flip_experimenter.SignFlipExperimenter(
        inner.exp, flip_objectives_only=info['objonly']), info
  if t == 'permute':
    finite = [p for p in params if p.type.name != 'DOUBLE']
    chosen = []
    for i, p in enumerate(finite):
      if not _cyc(node['mask'], i):
        continue
      if any(type(v) is int for v in p.feasible_values) and ctx.avoid(  # pylint: disable=unidiomatic-typecheck
          'permute_int'):
        ctx.cls('avoided_known:permute_int')
        continue
      chosen.append(p)
    info['permuted'] = {p.name: list(p.feasible_values) for p in chosen}
    return permuting_experimenter.PermutingExperimenter(
        inner.exp, [p.name for p in chosen], seed=node['seed']), info
  if t == 'discretize':
    doubles = [p for p in params if p.type.name == 'DOUBLE']
    chosen = [p for i, p in enumerate(doubles) if _cyc(node['mask'], i)]
    if not chosen and doubles:
      chosen = [doubles[0]]
    info['mode'] = node['mode']
    if node['mode'] == 'grid':
      counts = {p.name: int(_cyc(node['counts'], i))
                for i, p in enumerate(chosen)}
      as_str = {p.name: bool(_cyc(node['as_str'], i))
                for i, p in enumerate(chosen)}
      info['counts'] = counts
      info['as_str'] = as_str
      info['bounds'] = {p.name: tuple(p.bounds) for p in chosen}
      info['scale'] = {p.name: p.scale_type.name if p.scale_type else None
                       for p in chosen}
      return discretizing_experimenter.DiscretizingExperimenter.create_with_grid(
          inner.exp, counts, convert_to_str=as_str), info
    disc = {}
    for i, p in enumerate(chosen):
      lo, hi = p.bounds
      vals = sorted({float(min(max(lo + f * (hi - lo), lo), hi))
                     for f in _cyc(node['grids'], i)})
      if _cyc(node['as_str'], i):
        disc[p.name] = [repr(v) for v in vals]
      else:
        disc[p.name] = vals
    info['disc'] = disc
    return discretizing_experimenter.DiscretizingExperimenter(
        inner.exp, disc), info
  if t == 'hypercube':
    info['inner_params'] = [(p.name, describe_pc(p)) for p in params]
    return normalizing_experimenter.HyperCubeExperimenter(inner.exp), info
  if t == 'normalize':
    return normalizing_experimenter.NormalizingExperimenter(
        inner.exp, num_normalization_samples=node['n'],
        noise_seed=node['seed']), info
  if t == 'noisy':
    info['noise'] = node['noise']
    return noisy_experimenter.NoisyExperimenter.from_type(
        inner.exp, node['noise'], seed=node['seed']), info
  if t == 'sparse':
    c = node['counts']
    raw = sparse_experimenter.SparseExperimenter.create(
        inner.exp, float_count=c[0], int_count=c[1], discrete_count=c[2],
        categorical_count=c[3])
    info['inner_names'] = None
    return raw, info
  if t == 'infeasible_hash':
    info['prob'] = node['prob']
    return infeasible_experimenter.HashingInfeasibleExperimenter(
        inner.exp, infeasible_prob=node['prob'], seed=node['seed']), info
  if t == 'infeasible_region':
    elig = [p for p in params if p.type.name != 'CATEGORICAL']
    p = _cyc(elig, node['param'])
    a, b = sorted(node['interval'])
    info['param'] = p.name
    info['pdesc'] = describe_pc(p)
    info['interval'] = (a, b)
    return infeasible_experimenter.ParamRegionInfeasibleExperimenter(
        inner.exp, p.name, infeasible_interval=(a, b)), info
  raise ValueError(t)


def build(node, probed, ctx):
  """Builds the experimenter tree; raises BuildError on constructor failure."""
  kids = [build(c, probed, ctx) for c in child_nodes(node)]
  t = node['t']
  try:
    if t in LEAVES:
      raw, info = build_leaf(node, ctx)
    else:
      raw, info = build_wrapper(node, kids, ctx)
  except BuildError:
    raise
  except Exception as e:  # pylint: disable=broad-except
    raise BuildError(t, e, traceback.format_exc()) from e
  b = Built(node, raw, kids, info)
  shield = t in INFEASIBLE and ctx.avoid('infeasible_byref')
  if shield:
    ctx.cls('shielded_known:infeasible_byref')
  if probed:
    b.probe = probe_cls()(raw, record=True, copy_ps=shield)
    b.exp = b.probe
  elif shield:
    b.exp = probe_cls()(raw, record=False, copy_ps=True)
  try:
    b.ps_desc = describe_ps(b.exp.problem_statement())
  except Exception as e:  # pylint: disable=broad-except
    raise BuildError(t + '.problem_statement', e,
                     traceback.format_exc()) from e
  return b


# ---------------------------------------------------------------------------
# exception -> bucket
# ---------------------------------------------------------------------------
def exc_key(e):
  """'TypeError[first words of the message]' (digits masked)."""
  words = ''.join(ch if ch.isalpha() else ('#' if ch.isdigit() else ' ')
                  for ch in str(e)[:200]).split()
  return '%s(%s)' % (type(e).__name__, '_'.join(words[:5]))


def exc_site(tb_text_or_exc):
  """Innermost vizier frame of an exception: 'file.py:function'."""
  if isinstance(tb_text_or_exc, BaseException):
    tb = traceback.extract_tb(tb_text_or_exc.__traceback__)
    frames = [(f.filename, f.name) for f in tb]
  else:
    frames = []
  site = None
  exp_site = None
  for fn, name in frames:
    if '/vizier/' in fn and '/verif/' not in fn:
      site = '%s:%s' % (fn.rsplit('/', 1)[-1], name)
      if '/benchmarks/experimenters/' in fn:
        exp_site = site
  return exp_site or site or 'outside_vizier'


# ---------------------------------------------------------------------------
# reference clauses, one per layer type
# ---------------------------------------------------------------------------
def _by_id(probe):
  d = {}
  for r in probe.records:
    d.setdefault(r['id'], []).append(r)
  return d


def _detail(**kw):
  return json.dumps(jsonable(kw), sort_keys=True, allow_nan=True)[:1400]


def _passthrough(b, r, cr, out, what='output'):
  """Wrapper must return exactly what the wrapped experimenter produced."""
  o, co = r['out'], cr['out']
  if r.get('pre_infeasible') or cr.get('pre_infeasible'):
    pass
  elif co['infeasible'] and not o['infeasible']:
    out.violate('infeasible_dropped/' + b.cls,
                _detail(inner=co, outer=o))
  elif o['infeasible'] != co['infeasible']:
    out.violate('infeasible_invented/' + b.cls, _detail(inner=co, outer=o))
  if not same_metrics(o['metrics'], co['metrics']):
    out.violate('%s/changed/%s' % (what, b.cls), _detail(inner=co, outer=o))


def _identity_in(b, r, cr, out, ignore=()):
  a = {k: v for k, v in r['in'].items() if k not in ignore}
  c = {k: v for k, v in cr['in'].items() if k not in ignore}
  if not same_params(a, c):
    out.violate('input/changed/' + b.cls, _detail(given=r['in'],
                                                   inner_got=cr['in']))


def _single_child_records(b, recs, out, optional=False):
  """Pairs every outer record with the inner record of the same trial id."""
  byid = _by_id(b.children[0].probe)
  pairs = []
  for r in recs:
    crs = byid.get(r['id'], [])
    if len(crs) > 1:
      out.violate('inner_called_twice/' + b.cls, _detail(id=r['id']))
    if not crs:
      if not optional:
        out.violate('inner_not_called/' + b.cls, _detail(rec=r))
      pairs.append((r, None))
    else:
      pairs.append((r, crs[0]))
  return pairs


def _close(a, b, scale):
  return abs(a - b) <= 1e-9 * max(1.0, abs(scale))


def check_shift(b, recs, out, ctx):
  info = b.info
  for r, cr in _single_child_records(b, recs, out):
    if cr is None:
      continue
    bad = None
    if any(n not in cr['in'] or n not in r['in'] for n in info['shift']):
      bad = 'names'
    else:
      for n, s in info['shift'].items():
        x = r['in'][n]
        lo, hi = info['bounds'][n]
        exp = x - s
        if info['restrict']:
          exp = min(max(exp, lo), hi)
        got = cr['in'][n]
        if isinstance(got, str) or not _close(got, exp, hi - lo):
          bad = n
          break
    if bad is not None:
      n = bad
      kind = 'other'
      if n != 'names' and not isinstance(cr['in'][n], str):
        x, s, got = r['in'][n], info['shift'][n], cr['in'][n]
        if s != 0 and _close(got, x + s, 1.0):
          kind = 'x_plus_s'
        elif _close(got, x, 1.0):
          kind = 'unshifted'
      out.violate('shift/inner_point/' + kind, _detail(
          given=r['in'], shift=info['shift'], restrict=info['restrict'],
          inner_got=cr['in']))
    _passthrough(b, r, cr, out)
    if any(s != 0 for s in info['shift'].values()):
      ctx.cls('shift_nonzero')


def expected_ps_shift(b, inner):
  e = copy.deepcopy(inner)
  if b.info['restrict']:
    for n, s in b.info['shift'].items():
      lo, hi = b.info['bounds'][n]
      nb = [lo + s, hi] if s >= 0 else [lo, hi + s]
      e['space'][n]['bounds'] = nb
  return e


def check_signflip(b, recs, out, ctx):
  inner_names = {m['name'] for m in b.children[0].ps_desc['metrics']}
  objonly = b.info['objonly']
  for r, cr in _single_child_records(b, recs, out):
    if cr is None:
      continue
    _identity_in(b, r, cr, out)
    o, co = r['out'], cr['out']
    if co['infeasible'] != o['infeasible'] and not r.get('pre_infeasible'):
      out.violate('infeasible_dropped/' + b.cls, _detail(inner=co, outer=o))
    if co['metrics'] is None or o['metrics'] is None:
      if co['metrics'] is not None or o['metrics'] is not None:
        out.violate('output/changed/' + b.cls, _detail(inner=co, outer=o))
      continue
    if set(co['metrics']) != set(o['metrics']):
      out.violate('signflip/metric_names', _detail(inner=co, outer=o))
      continue
    for n, v in co['metrics'].items():
      aux = n not in inner_names
      if aux:
        ctx.cls('signflip_sees_auxiliary_metric')
      flip = (not aux) or (not objonly)
      exp = -v if flip else v
      if not same_num(o['metrics'][n], exp):
        if aux and objonly:
          kind = 'auxiliary_flipped_despite_objectives_only'
        elif aux:
          kind = 'auxiliary_not_flipped'
        else:
          kind = 'objective_not_negated'
        out.violate('signflip/' + kind, _detail(
            metric=n, inner=v, outer=o['metrics'][n], objonly=objonly))
        break


def expected_ps_signflip(b, inner):
  e = copy.deepcopy(inner)
  for m in e['metrics']:
    m['goal'] = {'MAXIMIZE': 'MINIMIZE', 'MINIMIZE': 'MAXIMIZE'}.get(
        m['goal'], m['goal'])
  return e


def check_permute(b, recs, out, ctx):
  permuted = b.info['permuted']
  internal = getattr(b.raw, '_parameter_permutation_dict', None)
  seen = {n: {} for n in permuted}
  for r, cr in _single_child_records(b, recs, out):
    if cr is None:
      continue
    _identity_in(b, r, cr, out, ignore=set(permuted))
    for n, fv in permuted.items():
      if n not in cr['in'] or n not in r['in']:
        out.violate('permute/param_missing', _detail(given=r['in'],
                                                     inner_got=cr['in']))
        continue
      x, y = r['in'][n], cr['in'][n]
      if not any(same_value(y, v) for v in fv):
        out.violate('permute/image_not_feasible', _detail(
            param=n, x=x, image=y, feasible=fv))
        continue
      if x in seen[n] and not same_value(seen[n][x], y):
        out.violate('permute/not_a_function', _detail(param=n, x=x))
      seen[n][x] = y
      if not same_value(x, y):
        ctx.cls('permute_moves_value')
      if isinstance(internal, dict) and n in internal:
        try:
          want = internal[n][x]
        except Exception:  # pylint: disable=broad-except
          want = None
        if want is not None and not same_value(want, y):
          out.violate('permute/not_the_constructed_permutation', _detail(
              param=n, x=x, image=y, constructed=want))
    _passthrough(b, r, cr, out)
  for n, m in seen.items():
    ys = list(m.values())
    if any(same_value(ys[i], ys[j]) for i in range(len(ys))
           for j in range(i + 1, len(ys))):
      out.violate('permute/not_injective', _detail(param=n, mapping=m))
  if permuted:
    ctx.cls('permute_nonempty')


def permute_sweep(b, out, ctx):
  """All feasible values of every permuted parameter: image == feasible set."""
  from vizier import pyvizier as vz
  child = b.children[0]
  if b.probe is None or not b.probe.records:
    return
  # a point of this layer's own space: what its caller handed to it
  base = b.probe.records[0]['in']
  for n, fv in b.info['permuted'].items():
    if len(fv) > 16:
      continue
    child.reset()
    trials = []
    for i, v in enumerate(fv):
      p = dict(base)
      p[n] = v
      trials.append(vz.Trial(parameters=p, id=1000 + i))
    b.raw.evaluate(trials)
    byid = _by_id(child.probe)
    images = []
    for i, v in enumerate(fv):
      crs = byid.get(1000 + i, [])
      if crs:
        images.append(crs[0]['in'].get(n))
    ok = len(images) == len(fv) and all(
        any(same_value(y, v) for y in images) for v in fv)
    if not ok:
      out.violate('permute/not_a_bijection_of_feasible_values', _detail(
          param=n, feasible=fv, images=images))
    ctx.cls('permute_swept')


def check_discretize(b, recs, out, ctx):
  if b.info['mode'] == 'grid':
    disc = b.info.get('actual_disc', {})
  else:
    disc = b.info['disc']
  for r, cr in _single_child_records(b, recs, out):
    if cr is None:
      continue
    _identity_in(b, r, cr, out, ignore=set(disc))
    for n in disc:
      x = r['in'].get(n)
      y = cr['in'].get(n)
      try:
        exp = float(x)
      except Exception:  # pylint: disable=broad-except
        exp = None
      if (exp is None or y is None or isinstance(y, str)
          or not same_num(float(y), exp)):
        out.violate('discretize/inner_point', _detail(
            param=n, given=x, inner_got=y))
        break
    _passthrough(b, r, cr, out)
    if any(isinstance(r['in'].get(n), str) for n in disc):
      ctx.cls('discretize_categorical')


def expected_ps_discretize(b, inner):
  e = copy.deepcopy(inner)
  if b.info['mode'] == 'grid':
    return None
  for n, vals in b.info['disc'].items():
    old = e['space'][n]
    if vals and isinstance(vals[0], str):
      e['space'][n] = {'type': 'CATEGORICAL', 'values': sorted(vals),
                       'scale': old['scale']}
    else:
      e['space'][n] = {'type': 'DISCRETE', 'values': sorted(vals),
                       'scale': old['scale']}
  return e


def grid_reference(lo, hi, scale, n):
  """create_with_grid: n points equally spaced in the scaled domain."""
  pts = []
  for k in range(n):
    f = 0.0 if n == 1 else k / (n - 1)
    if scale in (None, 'LINEAR'):
      pts.append(lo + f * (hi - lo))
    elif scale == 'LOG':
      pts.append(math.exp(math.log(lo) + f * (math.log(hi) - math.log(lo))))
    else:
      return None
  return pts


def check_discretize_grid_ps(b, out, ctx):
  """Grid variant: feasible values must be the documented grid."""
  desc = b.ps_desc['space']
  actual = {}
  for n, cnt in b.info['counts'].items():
    d = desc.get(n)
    if d is None or d['type'] not in ('DISCRETE', 'CATEGORICAL'):
      out.violate('ps/discretize_grid/type', _detail(param=n, got=d))
      continue
    vals = d['values']
    actual[n] = vals
    want_str = b.info['as_str'][n]
    if (d['type'] == 'CATEGORICAL') != want_str:
      out.violate('ps/discretize_grid/type', _detail(param=n, got=d,
                                                     as_str=want_str))
      continue
    try:
      nums = sorted(float(v) for v in vals)
    except Exception:  # pylint: disable=broad-except
      out.violate('ps/discretize_grid/not_float_convertible',
                  _detail(param=n, got=vals))
      continue
    lo, hi = b.info['bounds'][n]
    ref = grid_reference(lo, hi, b.info['scale'][n], cnt)
    if ref is None:
      ctx.cls('grid_scale_unchecked')
      if any(v < lo or v > hi for v in nums):
        out.violate('ps/discretize_grid/out_of_bounds', _detail(
            param=n, got=nums, bounds=[lo, hi]))
      continue
    ref = sorted(set(ref))
    tol = 1e-6 * max(1.0, abs(hi - lo), abs(hi), abs(lo))
    # float32 scaling inside the converter: compare with a loose tolerance
    if len(nums) != len(ref) or any(abs(a - r) > tol
                                    for a, r in zip(nums, ref)):
      out.violate('ps/discretize_grid/values', _detail(
          param=n, got=nums, reference=ref))
  b.info['actual_disc'] = actual


def _unit_to_value(d, h):
  lo, hi = d['bounds']
  if d['scale'] in (None, 'LINEAR'):
    return lo + h * (hi - lo)
  if d['scale'] == 'LOG':
    return math.exp(math.log(lo) + h * (math.log(hi) - math.log(lo)))
  return None


def check_hypercube(b, recs, out, ctx):
  inner_params = b.info['inner_params']
  for r, cr in _single_child_records(b, recs, out):
    if cr is None:
      continue
    hs = r['in']
    j = 0
    ok_names = set(cr['in']) == {n for n, _ in inner_params}
    if not ok_names:
      out.violate('hypercube/inner_point/names', _detail(
          given=hs, inner_got=cr['in']))
    for n, d in inner_params:
      width = len(d['values']) if d['type'] == 'CATEGORICAL' else 1
      block = [hs.get('h%d' % (j + k)) for k in range(width)]
      j += width
      if not ok_names or any(v is None for v in block):
        continue
      y = cr['in'][n]
      if d['type'] == 'DOUBLE':
        exp = _unit_to_value(d, block[0])
        lo, hi = d['bounds']
        if isinstance(y, str) or y < lo or y > hi:
          out.violate('hypercube/inner_point/out_of_inner_bounds', _detail(
              param=n, h=block[0], inner_got=y, bounds=[lo, hi]))
        elif exp is not None:
          tol = 1e-5 * max(abs(hi - lo), abs(exp) if d['scale'] == 'LOG'
                           else 0.0, 1e-12)
          if abs(y - exp) > tol:
            out.violate('hypercube/inner_point/double', _detail(
                param=n, h=block[0], inner_got=y, reference=exp, desc=d))
        else:
          ctx.cls('hypercube_scale_unchecked')
      elif d['type'] == 'INTEGER':
        lo, hi = d['bounds']
        if isinstance(y, str) or y != int(y) or y < lo or y > hi:
          out.violate('hypercube/inner_point/not_member', _detail(
              param=n, inner_got=y, desc=d))
        elif d['scale'] in (None, 'LINEAR'):
          exp = lo + block[0] * (hi - lo)
          if abs(y - exp) > 0.5 + 1e-6 * max(1, hi - lo):
            out.violate('hypercube/inner_point/integer', _detail(
                param=n, h=block[0], inner_got=y, reference=exp))
      elif d['type'] == 'DISCRETE':
        if isinstance(y, str) or not any(same_num(y, v) for v in d['values']):
          out.violate('hypercube/inner_point/not_member', _detail(
              param=n, inner_got=y, desc=d))
      else:
        if y not in d['values']:
          out.violate('hypercube/inner_point/not_member', _detail(
              param=n, inner_got=y, desc=d))
        else:
          m = max(block)
          top = [k for k, v in enumerate(block) if v >= m - 1e-9]
          if len(top) == 1 and d['values'].index(y) != top[0]:
            out.violate('hypercube/inner_point/categorical', _detail(
                param=n, block=block, inner_got=y, values=d['values']))
    _passthrough(b, r, cr, out)
  if any(d['type'] != 'DOUBLE' for _, d in inner_params):
    ctx.cls('hypercube_mixed_inner')


def check_hypercube_ps(b, out, inner):
  sp = b.ps_desc['space']
  bad = [n for n, d in sp.items()
         if d['type'] != 'DOUBLE' or d['bounds'] != [0.0, 1.0]]
  width = sum(len(d['values']) if d['type'] == 'CATEGORICAL' else 1
              for _, d in b.info['inner_params'])
  if bad or len(sp) != width:
    out.violate('ps/hypercube_space', _detail(space=sp, expected_dims=width))
  if b.ps_desc['metrics'] != inner['metrics']:
    out.violate('ps/metrics_changed/' + b.cls, _detail(
        got=b.ps_desc['metrics'], inner=inner['metrics']))


def check_normalize(b, recs, out, ctx):
  pairs = _single_child_records(b, recs, out)
  good = []
  for r, cr in pairs:
    if cr is None:
      continue
    _identity_in(b, r, cr, out)
    o, co = r['out'], cr['out']
    if co['infeasible'] != o['infeasible'] and not r.get('pre_infeasible'):
      out.violate('infeasible_dropped/' + b.cls, _detail(inner=co, outer=o))
    if co['metrics'] is None or o['metrics'] is None:
      continue
    if set(co['metrics']) != set(o['metrics']):
      out.violate('normalize/metric_names', _detail(inner=co, outer=o))
      continue
    if co['infeasible']:
      continue
    nan = [n for n, v in co['metrics'].items()
           if v == v and o['metrics'][n] != o['metrics'][n]]
    if nan:
      out.violate('normalize/nan_from_finite', _detail(inner=co, outer=o))
      continue
    good.append((co['metrics'], o['metrics']))
  for i in range(len(good)):
    for j in range(i + 1, len(good)):
      for n in good[i][0]:
        a, c = good[i][0][n], good[j][0].get(n)
        x, y = good[i][1][n], good[j][1].get(n)
        if c is None or a != a or c != c:
          continue
        ctx.cls('normalize_pair')
        if a == c:
          okp = same_num(x, y)
        elif a < c:
          okp = x <= y and (x < y or abs(c - a) <= 1e-9 * max(
              abs(a), abs(c), 1.0))
        else:
          okp = x >= y and (x > y or abs(c - a) <= 1e-9 * max(
              abs(a), abs(c), 1.0))
        if not okp:
          out.violate('normalize/order_not_preserved', _detail(
              metric=n, inner=[a, c], outer=[x, y]))
          return


def check_noisy(b, recs, out, ctx):
  for r, cr in _single_child_records(b, recs, out):
    if cr is None:
      continue
    _identity_in(b, r, cr, out)
    o, co = r['out'], cr['out']
    if co['infeasible'] != o['infeasible'] and not r.get('pre_infeasible'):
      out.violate('infeasible_dropped/' + b.cls, _detail(inner=co, outer=o))
    if co['metrics'] is None or o['metrics'] is None:
      if (co['metrics'] is None) != (o['metrics'] is None):
        out.violate('output/changed/' + b.cls, _detail(inner=co, outer=o))
      continue
    want = set(co['metrics']) | {n + '_before_noise' for n in co['metrics']}
    if set(o['metrics']) != want:
      out.violate('noisy/metric_names', _detail(inner=co, outer=o))
      continue
    for n, v in co['metrics'].items():
      if n + '_before_noise' in co['metrics']:
        # Noisy over Noisy: the auxiliary name is taken; the documentation
        # does not say which of the two values it should hold
        ctx.cls('noisy_name_collision')
        continue
      if not same_num(o['metrics'][n + '_before_noise'], v):
        out.violate('noisy/before_noise_value', _detail(
            metric=n, inner=v, outer=o['metrics']))
        break
      if v == v and not same_num(o['metrics'][n], v):
        ctx.cls('noise_changes_value')


def check_sparse(b, recs, out, ctx):
  inner_top = set(b.children[0].ps_desc['space'])
  added = set(b.ps_desc['space']) - inner_top
  b.info['added'] = sorted(added)
  for r, cr in _single_child_records(b, recs, out):
    if cr is None:
      continue
    exp = {k: v for k, v in r['in'].items() if k not in added}
    if not same_params(exp, cr['in']):
      out.violate('sparse/inner_point', _detail(
          given=r['in'], inner_got=cr['in'], added=sorted(added)))
    _passthrough(b, r, cr, out)
  if added:
    ctx.cls('sparse_adds_params')


def check_sparse_ps(b, out, inner):
  c = b.node['counts']
  sp = b.ps_desc['space']
  for n, d in inner['space'].items():
    if sp.get(n) != d:
      out.violate('ps/sparse_changed_inner_param', _detail(
          param=n, got=sp.get(n), inner=d))
      return
  added = {n: d for n, d in sp.items() if n not in inner['space']}
  kinds = sorted(d['type'] for d in added.values())
  want = sorted(['DOUBLE'] * c[0] + ['INTEGER'] * c[1] + ['DISCRETE'] * c[2]
                + ['CATEGORICAL'] * c[3])
  if kinds != want:
    out.violate('ps/sparse_added_params', _detail(added=added, counts=c))
  if b.ps_desc['metrics'] != inner['metrics']:
    out.violate('ps/metrics_changed/' + b.cls, _detail(
        got=b.ps_desc['metrics'], inner=inner['metrics']))


def _canon_params(p):
  return json.dumps(jsonable(p), sort_keys=True)


def check_infeasible(b, recs, out, ctx):
  verdicts = {}
  for r, cr in _single_child_records(b, recs, out, optional=True):
    o = r['out']
    if r.get('pre_infeasible'):
      continue
    if cr is None:
      made = True
      if not o['infeasible']:
        out.violate('infeasible/neither_evaluated_nor_infeasible/' + b.cls,
                    _detail(rec=r))
      ctx.cls('wrapper_made_infeasible')
    else:
      made = False
      _identity_in(b, r, cr, out)
      _passthrough(b, r, cr, out)
    key = _canon_params(r['in'])
    if key in verdicts and verdicts[key] != made:
      out.violate('infeasible/verdict_not_a_function_of_parameters/' + b.cls,
                  _detail(params=r['in']))
    verdicts[key] = made
    if b.node['t'] == 'infeasible_hash':
      p = b.info['prob']
      if p <= 0.0 and made:
        out.violate('infeasible/hash_prob0_infeasible', _detail(rec=r))
      if p >= 1.0 and not made:
        out.violate('infeasible/hash_prob1_feasible', _detail(rec=r))
    else:
      d = b.info['pdesc']
      a, c = b.info['interval']
      x = r['in'].get(b.info['param'])
      if (d['type'] in ('DOUBLE', 'INTEGER') and d['scale'] in (
          None, 'LINEAR') and d['bounds'][1] > d['bounds'][0]
          and x is not None and not isinstance(x, str)):
        lo, hi = d['bounds']
        z = (x - lo) / (hi - lo)
        if min(abs(z - a), abs(z - c)) > 1e-5:
          want = a <= z <= c
          ctx.cls('region_verdict_checked')
          if want != made:
            out.violate('infeasible/region_verdict', _detail(
                param=b.info['param'], x=x, scaled=z, interval=[a, c],
                wrapper_made_infeasible=made))
      else:
        ctx.cls('region_verdict_unchecked')


def check_multi(b, recs, out, ctx):
  keys = b.info['keys']
  byids = [_by_id(k.probe) for k in b.children]
  for r in recs:
    exp = {}
    any_inf = False
    okc = True
    for key, byid, cm in zip(keys, byids, b.info['child_metric']):
      crs = byid.get(r['id'], [])
      if len(crs) != 1:
        out.violate('inner_not_called/' + b.cls, _detail(
            id=r['id'], key=key, n=len(crs)))
        okc = False
        continue
      cr = crs[0]
      _identity_in(b, r, cr, out)
      any_inf = any_inf or cr['out']['infeasible']
      m = cr['out']['metrics']
      if m is None or cm not in m:
        okc = False
        continue
      exp[key] = m[cm]
    o = r['out']
    if any_inf:
      ctx.cls('multi_child_infeasible')
      if not o['infeasible']:
        out.violate('infeasible_dropped/' + b.cls, _detail(outer=o))
    if okc and not same_metrics(o['metrics'], exp):
      out.violate('multi/metrics', _detail(expected=exp, outer=o))


def check_multi_ps(b, out):
  c0 = b.children[0].ps_desc
  if b.ps_desc['space'] != c0['space']:
    out.violate('ps/multi_space', _detail(got=b.ps_desc['space'],
                                         child=c0['space']))
  want = sorted(
      ({'name': k, 'goal': ch.ps_desc['metrics'][0]['goal'],
        'type': ch.ps_desc['metrics'][0]['type']}
       for k, ch in zip(b.info['keys'], b.children)), key=lambda d: d['name'])
  if b.ps_desc['metrics'] != want:
    out.violate('ps/multi_metrics', _detail(got=b.ps_desc['metrics'],
                                           expected=want))


def check_switch(b, recs, out, ctx):
  byids = [_by_id(k.probe) for k in b.children]
  for r in recs:
    idx = r['in'].get('switch')
    try:
      idx = int(idx)
    except Exception:  # pylint: disable=broad-except
      out.violate('switch/no_switch_value', _detail(rec=r))
      continue
    for k, byid in enumerate(byids):
      n = len(byid.get(r['id'], []))
      if k == idx and n != 1:
        out.violate('inner_not_called/' + b.cls, _detail(rec=r, n=n))
      if k != idx and n:
        out.violate('switch/wrong_child_called', _detail(rec=r, child=k))
    crs = byids[idx].get(r['id'], []) if 0 <= idx < len(byids) else []
    if len(crs) != 1:
      continue
    cr = crs[0]
    want = {k: v for k, v in r['in'].items()}
    got = cr['in']
    if not all(k in got and same_value(got[k], v) for k, v in want.items()
               if k != 'switch'):
      out.violate('input/changed/' + b.cls, _detail(given=r['in'],
                                                     inner_got=got))
    o, co = r['out'], cr['out']
    if co['infeasible']:
      ctx.cls('switch_child_infeasible')
      if not o['infeasible']:
        out.violate('infeasible_dropped/' + b.cls, _detail(inner=co, outer=o))
    cm = b.info['child_metric'][idx]
    if co['metrics'] is not None and cm in co['metrics']:
      exp = {'switch_metric': co['metrics'][cm]}
      if not same_metrics(o['metrics'], exp):
        out.violate('switch/metrics', _detail(expected=exp, outer=o))


def check_leaf(b, recs, out, ctx):
  """Base: the harness evaluates a fresh base, one trial at a time."""
  import numpy as np
  from vizier import pyvizier as vz
  if not recs:
    return
  fresh, _ = build_leaf(b.node, Ctx(ctx.noavoid))
  order = b.ps_desc['order']
  for r in recs[:12]:
    t = vz.Trial(parameters=r['in'], id=r['id'])
    try:
      fresh.evaluate([t])
    except Exception as e:  # pylint: disable=broad-except
      out.violate('base/fresh_single_evaluation_raises/%s@%s' % (
          exc_key(e), exc_site(e)), _detail(params=r['in']))
      return
    s = snap_trial(t)
    if (not same_metrics(s['metrics'], r['out']['metrics'])
        or (s['infeasible'] != r['out']['infeasible']
            and not r.get('pre_infeasible'))):
      out.violate('base/batch_or_state_dependent/' + b.cls, _detail(
          params=r['in'], in_stack=r['out'], fresh_single=s))
      return
    m = r['out']['metrics']
    multi = b.info.get('impl_multi')
    if multi is not None and m is not None and all(n in r['in'] for n in order):
      x = np.array([float(r['in'][n]) for n in order], dtype=np.float64)
      try:
        vals = [float(v) for v in multi(x)]
      except Exception:  # pylint: disable=broad-except
        vals = None
      if vals is not None:
        ctx.cls('base_direct_impl_checked')
        want = {'f%d' % i: v for i, v in enumerate(vals)}
        if set(want) != set(m) or not all(
            m[k] == v or abs(m[k] - v) <= 1e-9 * max(1.0, abs(v))
            or (m[k] != m[k] and v != v) for k, v in want.items()):
          out.violate('base/multiobjective_numpy_experimenter_value', _detail(
              params=r['in'], got=m, direct_call=want))
          return
    if b.info.get('f0_is_x0') and m is not None and order and order[0] in r[
        'in']:
      ctx.cls('base_direct_impl_checked')
      if 'f0' not in m or not same_num(m['f0'], float(r['in'][order[0]])):
        out.violate('base/dh_f0_is_not_x0', _detail(params=r['in'], got=m))
        return
    impl = b.info.get('impl')
    if impl is not None and all(n in r['in'] for n in order):
      x = np.array([float(r['in'][n]) for n in order], dtype=np.float64)
      try:
        v = float(impl(x))
      except Exception:  # pylint: disable=broad-except
        v = None
      m = r['out']['metrics']
      if v is not None and math.isfinite(v) and m is not None and len(m) == 1:
        got = list(m.values())[0]
        ctx.cls('base_direct_impl_checked')
        if not (got == v or abs(got - v) <= 1e-9 * max(1.0, abs(v))):
          out.violate('base/numpy_experimenter_value', _detail(
              params=r['in'], got=got, direct_call=v))
          return


LAYER_CHECK = {
    'shift': check_shift, 'signflip': check_signflip,
    'permute': check_permute, 'discretize': check_discretize,
    'hypercube': check_hypercube, 'normalize': check_normalize,
    'noisy': check_noisy, 'sparse': check_sparse,
    'infeasible_hash': check_infeasible, 'infeasible_region': check_infeasible,
    'multi': check_multi, 'switch': check_switch,
}


def _incomplete(b, r):
  o = r['out']
  if o['infeasible']:
    return False
  return o['metrics'] is None or any(
      m['name'] not in o['metrics'] for m in b.ps_desc['metrics'])


def _incomplete_ids(b):
  """Trial ids some experimenter below b left without its own metrics."""
  ids = set()
  for c in b.children:
    ids |= {r['id'] for r in c.probe.records if _incomplete(c, r)}
    ids |= _incomplete_ids(c)
  return ids


def check_generic(b, recs, out, where, changed_below=()):
  """Clauses (1) and (2) for one experimenter as seen by its caller."""
  names = [m['name'] for m in b.ps_desc['metrics']]
  incomplete_below = _incomplete_ids(b)
  for r in recs:
    o = r['out']
    if not o['infeasible'] and r['id'] not in incomplete_below:
      if o['metrics'] is None:
        out.violate('generic/not_completed/' + b.cls, _detail(rec=r, at=where))
      else:
        missing = [n for n in names if n not in o['metrics']]
        if missing:
          out.violate('generic/missing_metric/' + b.cls, _detail(
              missing=missing, rec=r, at=where))
    if not same_params(r['in'], o['params']) and r['id'] not in changed_below:
      # blamed on the innermost experimenter that returned changed parameters
      out.violate('generic/parameters_changed/' + b.cls, _detail(
          suggested=r['in'], after=o['params'], at=where))


def _changed_ids(b):
  """Trial ids some experimenter below b handed back with other parameters."""
  ids = set()
  for c in b.children:
    for r in c.probe.records:
      if not same_params(r['in'], r['out']['params']):
        ids.add(r['id'])
    ids |= _changed_ids(c)
  return ids


def check_tree(b, recs, out, ctx, where='top'):
  check_generic(b, recs, out, where, _changed_ids(b))
  t = b.node['t']
  try:
    if t in LEAVES:
      check_leaf(b, recs, out, ctx)
      return
    LAYER_CHECK[t](b, recs, out, ctx)
  except Exception:  # pylint: disable=broad-except
    # A layer that was handed garbage by a (already reported) faulty layer
    # above it cannot be judged; without an earlier violation it is our bug.
    if not out.violations:
      raise
    ctx.cls('layer_unjudgeable_after_violation')
  for c in b.children:
    check_tree(c, c.probe.records, out, ctx, where + '/' + t)


# ---------------------------------------------------------------------------
# problem statement clauses
# ---------------------------------------------------------------------------
def check_ps_algebra(b, out, ctx):
  """Wrappers change the problem statement only as documented."""
  for n in b.walk():
    t = n.node['t']
    if t in LEAVES:
      continue
    inner = n.children[0].ps_desc
    exp = None
    if t == 'shift':
      exp = expected_ps_shift(n, inner)
    elif t == 'signflip':
      exp = expected_ps_signflip(n, inner)
    elif t in ('permute', 'normalize', 'noisy', 'infeasible_hash',
               'infeasible_region'):
      exp = inner
    elif t == 'discretize':
      if n.info['mode'] == 'grid':
        check_discretize_grid_ps(n, out, ctx)
      exp = expected_ps_discretize(n, inner)
    elif t == 'hypercube':
      check_hypercube_ps(n, out, inner)
    elif t == 'sparse':
      check_sparse_ps(n, out, inner)
    elif t == 'multi':
      check_multi_ps(n, out)
    if exp is not None:
      what, d = diff_desc(exp, n.ps_desc)
      if what is not None:
        out.violate('ps/%s/%s' % (what, n.cls), _detail(
            difference=d))


def check_ps_by_value(b, out, ctx):
  """Clause (3), every experimenter object of the tree, leaves first."""
  nodes = list(b.walk())[::-1]
  for n in nodes:
    try:
      d0 = describe_ps(n.raw.problem_statement())
      d1 = describe_ps(n.raw.problem_statement())
      if d0 != d1:
        out.violate('ps/unstable_between_calls/' + n.cls, _detail(
            diff=diff_desc(d0, d1)))
        continue
      ps = n.raw.problem_statement()
      done = mutate_ps(ps)
      d2 = describe_ps(n.raw.problem_statement())
      if d2 != d1:
        what, d = diff_desc(d1, d2)
        out.violate('ps/by_reference/' + n.cls, _detail(
            mutations=done, changed=what, diff=d))
    except Exception as e:  # pylint: disable=broad-except
      out.violate('raises/problem_statement/%s@%s' % (
          exc_key(e), exc_site(e)), traceback.format_exc()[-800:])
