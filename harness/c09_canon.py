"""C09 canonical forms and the structural comparison used by the oracle.

`canon_*` read vizier objects through their public accessors into plain nested
structures (records = dict with field names, data-keyed maps = `M`, lists).
`diff` compares two such structures by *value* (1 == 1.0, NaN == NaN, the
time fields to the microsecond) and returns the differing field paths.

Masked (documented as not transmitted): Metric.std, checkpoint_path,
related_links, the text of stopping_reason.  Wire-equivalent spellings that are
folded together because proto3 has no presence for the field: None/'' for
Trial.description, Trial.assigned_worker and checkpoint_dir; None/empty for
EarlyStopRequest.trial_ids; absent/empty per-trial Metadata in a MetadataDelta;
a raw proto message stored as a metadata value and the Any that packs it.
"""
import json
import math

from harness import c09_gen as gen


class M(dict):
  """A map keyed by data (names), as opposed to a record keyed by fields."""


US_FIELDS = ('created_us', 'completed_us')
SEC_FIELDS = ('elapsed',)


def _num(v):
  return isinstance(v, (int, float)) and not isinstance(v, bool)


def _same_scalar(a, b, field):
  if a is None or b is None:
    return a is None and b is None
  if isinstance(a, str) or isinstance(b, str):
    return isinstance(a, str) and isinstance(b, str) and a == b
  if isinstance(a, float) and isinstance(b, float) and (
      math.isnan(a) or math.isnan(b)):
    return math.isnan(a) and math.isnan(b)
  if field in US_FIELDS:  # integer microseconds since the epoch
    return a == b
  if field in SEC_FIELDS:  # the same number of microseconds
    return abs(a - b) < 0.5e-6
  return a == b


def diff(a, b, path=(), out=None):
  """-> list of (field_path_string, kind, detail, a, b); kind in
  {'missing','extra','value','type'} seen from a=expected, b=got."""
  out = [] if out is None else out
  field = path[-1] if path else ''
  p = '.'.join(path) or '<root>'
  if isinstance(a, dict) and isinstance(b, dict):
    keyed = isinstance(a, M)
    for k in a:
      sub = path if keyed else path + (k,)
      if k not in b:
        out.append((p if keyed else '.'.join(sub), 'missing',
                    'key %r lost' % (k,), a[k], None))
      else:
        diff(a[k], b[k], sub, out)
    for k in b:
      if k not in a:
        out.append((p if keyed else '.'.join(path + (k,)), 'extra',
                    'key %r appeared' % (k,), None, b[k]))
    return out
  if isinstance(a, list) and isinstance(b, list):
    if len(a) != len(b):
      out.append((p, 'value', 'length %d -> %d' % (len(a), len(b)), a, b))
      return out
    for x, y in zip(a, b):
      diff(x, y, path, out)
    return out
  if isinstance(a, (dict, list)) or isinstance(b, (dict, list)):
    out.append((p, 'type', '%.200r -> %.200r' % (a, b), a, b))
    return out
  if not _same_scalar(a, b, field):
    out.append((p, 'value', '%r -> %r' % (a, b), a, b))
  return out


# ---------------------------------------------------------------------------
def _pkey(v):
  if isinstance(v, str):
    return 's:' + v
  return 'n:%r' % (float(v),)


def canon_pc(pc):
  d = {'name': pc.name, 'type': pc.type.name}
  if pc.type.name in ('DOUBLE', 'INTEGER'):
    d['bounds'] = list(pc.bounds)
  elif pc.type.name in ('DISCRETE', 'CATEGORICAL'):
    d['values'] = list(pc.feasible_values)
  d['scale'] = pc.scale_type.name if pc.scale_type is not None else None
  d['default'] = pc.default_value
  d['ext'] = pc.external_type.name if pc.external_type is not None else None
  d['fidelity'] = (None if pc.fidelity_config is None
                   else repr(pc.fidelity_config))
  kids = M()
  for value, sub in pc.subspaces():
    if sub.parameters:  # empty subspaces are not part of the value
      kids[_pkey(value)] = canon_space(sub)
  d['children'] = kids  # field path reads children.children... per level
  return d


def canon_space(space):
  return M((p.name, canon_pc(p)) for p in space.parameters)


def canon_metric(mi):
  return {'name': mi.name, 'goal': mi.goal.name,
          'safety': mi.safety_threshold,
          'fraction': mi.desired_min_safe_trials_fraction,
          'min_value': mi.min_value, 'max_value': mi.max_value,
          'safety_std': mi.safety_std_threshold}


def canon_metrics(mc):
  return M((m.name, canon_metric(m)) for m in mc)


def canon_meas(m):
  if m is None:
    return None
  return {'metrics': M((k, v.value) for k, v in m.metrics.items()),
          'elapsed': m.elapsed_secs, 'steps': m.steps}


def canon_md_value(v):
  from google.protobuf import any_pb2
  if isinstance(v, str):
    return ['s', v]
  if not isinstance(v, any_pb2.Any):
    a = any_pb2.Any()
    a.Pack(v)
    v = a
  return ['p', v.type_url, v.value.hex()]


def canon_md(md, drop=()):
  out = M()
  for ns, k, v in md.all_items():
    if (tuple(ns), k) in drop:
      continue
    out[json.dumps([list(ns), k])] = canon_md_value(v)
  return out


def canon_params(params):
  return M((k, v.value) for k, v in params.items())


def canon_suggestion(s):
  return {'params': canon_params(s.parameters), 'md': canon_md(s.metadata)}


def canon_trial(t):
  return {
      'id': t.id, 'status': t.status.name, 'is_requested': t.is_requested,
      'worker': t.assigned_worker or '', 'description': t.description or '',
      'infeasible': t.infeasible, 'infeasibility_reason': t.infeasibility_reason,
      'params': canon_params(t.parameters), 'md': canon_md(t.metadata),
      'final': canon_meas(t.final_measurement),
      'measurements': [canon_meas(m) for m in t.measurements],
      'created_us': gen.to_us(t.creation_time),
      'completed_us': gen.to_us(t.completion_time),
  }


def canon_delta(d):
  return {'study': canon_md(d.on_study),
          'trials': M((str(k), canon_md(v)) for k, v in d.on_trials.items()
                      if v)}


def canon_problem(ps):
  return {'space': canon_space(ps.search_space),
          'metrics': canon_metrics(ps.metric_information),
          'md': canon_md(ps.metadata)}


def canon_study_config(sc):
  from vizier._src.service import constants
  drop = ()
  if sc.pythia_endpoint is not None:
    drop = (((constants.PYTHIA_ENDPOINT_NAMESPACE,),
             constants.PYTHIA_ENDPOINT_KEY),)
  stopping = sc.automated_stopping_config
  return {'space': canon_space(sc.search_space),
          'metrics': canon_metrics(sc.metric_information),
          'md': canon_md(sc.metadata, drop=drop),
          'algorithm': sc.algorithm, 'noise': sc.observation_noise.name,
          'stopping': (None if stopping is None
                       else type(stopping.to_proto()).__name__),
          'endpoint': sc.pythia_endpoint}


def canon_descriptor(d):
  return {'problem': canon_problem(d.config), 'guid': d.guid,
          'max_trial_id': d.max_trial_id}


def canon_pythia(kind, o):
  if kind == 'suggest_request':
    return {'desc': canon_descriptor(o._study_descriptor),  # pylint: disable=protected-access
            'guid': o.study_guid, 'max_trial_id': o.max_trial_id,
            'count': o.count, 'checkpoint_dir': o.checkpoint_dir or ''}
  if kind == 'suggest_decision':
    return {'suggestions': [canon_suggestion(s) for s in o.suggestions],
            'delta': canon_delta(o.metadata)}
  if kind == 'early_stop_request':
    return {'desc': canon_descriptor(o._study_descriptor),  # pylint: disable=protected-access
            'trial_ids': sorted(o.trial_ids or ()),
            'checkpoint_dir': o.checkpoint_dir or ''}
  return {'decisions': [{'id': d.id, 'reason': d.reason,
                         'should_stop': d.should_stop,
                         'predicted': canon_meas(d.predicted_final_measurement)}
                        for d in o.decisions],
          'delta': canon_delta(o.metadata)}


# ---------------------------------------------------------------------------
# proto helpers
# ---------------------------------------------------------------------------
def wire(msg):
  """The message after an actual serialisation round."""
  return type(msg).FromString(msg.SerializeToString())


def same_message(a, b):
  """Identical messages (byte-wise, so NaN payloads compare equal)."""
  return a.SerializeToString(deterministic=True) == b.SerializeToString(
      deterministic=True)


def proto_diff_path(a, b, path=''):
  """Field path of the first difference of two messages of the same type."""
  if same_message(a, b):
    return None
  for fd in a.DESCRIPTOR.fields:
    va, vb = getattr(a, fd.name), getattr(b, fd.name)
    sub = (path + '.' if path else '') + fd.name
    if fd.is_repeated:
      la, lb = list(va), list(vb)
      if fd.message_type is not None:
        if len(la) != len(lb):
          return sub + '(length)'
        for x, y in zip(la, lb):
          r = proto_diff_path(x, y, sub)
          if r:
            return r
      elif repr(la) != repr(lb):
        return sub
      continue
    if fd.message_type is not None:
      ha, hb = a.HasField(fd.name), b.HasField(fd.name)
      if ha != hb:
        return sub + '(presence)'
      if ha:
        r = proto_diff_path(va, vb, sub)
        if r:
          return r
    else:
      if fd.has_presence and a.HasField(fd.name) != b.HasField(fd.name):
        return sub + '(presence)'
      if repr(va) != repr(vb):
        return sub
  return (path or '<root>') + '(unknown fields)'
