"""C19 helpers: layout menu, jax-traceable score functions built from JSON,
optimizer construction with a per-process compile cache.

Nothing here models the optimiser.  The module only
  * builds real `TrialToModelInputConverter`s for a fixed menu of layouts,
  * builds `VectorizedOptimizer`s through the public factories and calls them
    the way the designers do (`eqx.filter_jit(optimizer)(score_fn, ...)`),
  * defines the *harness's own* score function (an `eqx.Module`, so that its
    numeric parameters are traced arrays: one XLA compile per static
    configuration, any number of score functions),
  * re-evaluates that score function on arrays the harness builds itself.
"""
import math

# ---------------------------------------------------------------------------
# layout menu (JSON space specs in the format of harness/spaces.py + padding)
# ---------------------------------------------------------------------------
PADS = ('none', 'pow2', 'pow2_feat', 'mult10')


def _d(name, lo=0.0, hi=1.0, scale=None):
  return {'name': name, 'kind': 'DOUBLE', 'lo': lo, 'hi': hi, 'scale': scale}


def _c(name, size):
  return {'name': name, 'kind': 'CATEGORICAL',
          'values': ['v%d' % i for i in range(size)]}


def _plain(n_cont, cats, pad):
  bounds = [(0.0, 1.0), (-1.0, 3.0), (-5.0, -2.5), (10.0, 1000.0)]
  params = [_d('x%d' % i, *bounds[i % 4]) for i in range(n_cont)]
  params += [_c('c%d' % j, s) for j, s in enumerate(cats)]
  return {'params': params, 'pad': pad}


LAYOUTS = [
    _plain(1, [], 'none'),            # 0
    _plain(2, [], 'none'),            # 1
    _plain(3, [], 'pow2'),            # 2  cont 3->4
    _plain(4, [], 'none'),            # 3
    _plain(0, [3], 'none'),           # 4
    _plain(0, [2, 5], 'none'),        # 5
    _plain(0, [4, 1, 3], 'pow2'),     # 6  cat 3->4
    _plain(0, [1], 'none'),           # 7  single-point space
    _plain(1, [2], 'none'),           # 8
    _plain(1, [3, 3], 'pow2'),        # 9  pad schedule on, nothing to pad
    _plain(3, [2], 'pow2'),           # 10 cont 3->4
    _plain(2, [5, 1, 2], 'pow2'),     # 11 cat 3->4
    _plain(3, [3, 4, 2], 'pow2'),     # 12 both padded
    _plain(3, [3, 4, 2], 'none'),     # 13
    _plain(4, [5], 'none'),           # 14
    _plain(2, [2, 2], 'mult10'),      # 15 cont ->10, cat ->10
    _plain(0, [3, 2], 'mult10'),      # 16 cat ->10
    _plain(2, [], 'mult10'),          # 17 cont ->10
    {'params': [_d('lr', 1e-3, 10.0, 'LOG'),
                {'name': 'n', 'kind': 'INTEGER', 'lo': 1, 'hi': 6,
                 'scale': None},
                _c('opt', 3),
                {'name': 'b', 'kind': 'BOOL'}], 'pad': 'none'},       # 18
    {'params': [{'name': 'dz', 'kind': 'DISCRETE',
                 'values': [0.5, 1.0, 4.0, 16.0], 'scale': None},
                _d('y', -2.0, 2.0), _d('w', 1.0, 100.0, 'REVERSE_LOG'),
                _c('c0', 2), _c('c1', 4), _c('c2', 3)], 'pad': 'pow2'},  # 19
    _plain(1, [1, 1], 'none'),        # 20 degenerate categories
    _plain(4, [2, 3, 5], 'pow2'),     # 21 cat 3->4
    _plain(3, [], 'pow2_feat'),       # 22 feature padding only
    _plain(2, [4], 'pow2_feat'),      # 23
]


N_MAIN = len(LAYOUTS)  # layouts drawn as the main layout of a case


def _sibling(lay, delta):
  """Same parameter names / kinds / bounds / padding, other category counts."""
  params = []
  for p in lay['params']:
    if p['kind'] == 'CATEGORICAL':
      n = max(1, len(p['values']) + delta)
      p = dict(p, values=['v%d' % i for i in range(n)])
    params.append(p)
  return {'params': params, 'pad': lay['pad']}


# index N_MAIN + 2*i is the "large" sibling (every category count +2), index
# N_MAIN + 2*i + 1 the "small" one (-1, at least 1) of main layout i.
for _i in range(N_MAIN):
  LAYOUTS.append(_sibling(LAYOUTS[_i], +2))
  LAYOUTS.append(_sibling(LAYOUTS[_i], -1))


def sibling(idx, which):
  return N_MAIN + 2 * idx + (0 if which == 'large' else 1)


def has_sibling(idx):
  return any(p['kind'] == 'CATEGORICAL' for p in LAYOUTS[idx]['params'])


def layout_info(idx):
  """Static facts about a layout, derived from the JSON spec alone."""
  lay = LAYOUTS[idx]
  cont = [p for p in lay['params'] if p['kind'] in ('DOUBLE', 'INTEGER',
                                                    'DISCRETE')]
  cat = [p for p in lay['params'] if p['kind'] in ('CATEGORICAL', 'BOOL')]
  sizes = [len(p['values']) if p['kind'] == 'CATEGORICAL' else 2 for p in cat]
  nc, nk = len(cont), len(cat)
  return {'n_cont': nc, 'n_cat': nk, 'sizes': sizes, 'pad': lay['pad'],
          'n_cont_pad': padded_dim(nc, lay['pad']),
          'n_cat_pad': padded_dim(nk, lay['pad'])}


def padded_dim(n, pad):
  """Padded size per the PaddingType docs (independent of vizier's code)."""
  if pad == 'none':
    return n
  if pad in ('pow2', 'pow2_feat'):
    if n == 0:
      return 0
    p = 1
    while p < n:
      p *= 2
    return p
  if pad == 'mult10':
    return int(math.ceil(n / 10.0)) * 10
  raise ValueError(pad)


def padded_trials(n, pad):
  if pad in ('none', 'pow2_feat'):
    return n
  return padded_dim(n, pad)


_CONV = {}
_SCHED = {}


def converter(idx):
  """(converter, space_spec) for a layout; cached per process."""
  if idx in _CONV:
    return _CONV[idx]
  from harness import spaces
  from vizier.pyvizier import converters
  from vizier.pyvizier.converters import padding
  lay = LAYOUTS[idx]
  T = padding.PaddingType
  # One schedule object per padding kind for the whole process, like a service
  # that configures its designers once ('none': the default argument of
  # from_problem).  PaddingSchedule() != PaddingSchedule() (its NaN default), so
  # per-converter objects would hide state that is keyed on the schedule.
  if not _SCHED:
    _SCHED.update({
        'pow2': padding.PaddingSchedule(num_trials=T.POWERS_OF_2,
                                        num_features=T.POWERS_OF_2),
        'pow2_feat': padding.PaddingSchedule(num_features=T.POWERS_OF_2),
        'mult10': padding.PaddingSchedule(num_trials=T.MULTIPLES_OF_10,
                                          num_features=T.MULTIPLES_OF_10),
    })
  spec = {'params': lay['params']}
  problem = spaces.problem(spec, metrics=(('obj', 'MAXIMIZE'),))
  if lay['pad'] == 'none':
    conv = converters.TrialToModelInputConverter.from_problem(problem)
  else:
    conv = converters.TrialToModelInputConverter.from_problem(
        problem, padding_schedule=_SCHED[lay['pad']])
  _CONV[idx] = (conv, spec)
  return _CONV[idx]


# ---------------------------------------------------------------------------
# optimizer construction + compile cache
# ---------------------------------------------------------------------------
_OPT = {}
COMPILES = {'n': 0}


def eagle_pool_size(n_features, batch):
  """Pool size documented in VectorizedEagleStrategyFactory (default config).

  Used only by the *generator* (to place the evaluation budget below / above
  the pool size) and for class measurement, never by the oracle.
  """
  pool = 10 + int(0.5 * n_features + n_features ** 1.2)
  pool = min(pool, 100)
  return int(math.ceil(pool / batch) * batch)


def optimizer(idx, strategy, batch, max_evaluations, use_fori):
  """Returns (optimizer, jitted optimizer); cached per static configuration.

  The strategy object holds its sampler / projection as static (hash-by-id)
  fields, so the same object must be reused for the jit cache to hit.
  """
  key = (idx, strategy, batch, max_evaluations, use_fori)
  if key in _OPT:
    return _OPT[key]
  import equinox as eqx
  from vizier._src.algorithms.optimizers import eagle_strategy as es
  from vizier._src.algorithms.optimizers import random_vectorized_optimizer as rvo
  from vizier._src.algorithms.optimizers import vectorized_base as vb
  conv, _ = converter(idx)
  if strategy == 'eagle':
    sf = es.VectorizedEagleStrategyFactory()
  elif strategy == 'random':
    sf = rvo.random_strategy_factory
  else:
    raise ValueError(strategy)
  opt = vb.VectorizedOptimizerFactory(
      strategy_factory=sf, max_evaluations=max_evaluations,
      suggestion_batch_size=batch, use_fori=use_fori)(conv)
  if len(_OPT) > 64:
    _OPT.clear()
  _OPT[key] = (opt, eqx.filter_jit(opt))
  return _OPT[key]


# ---------------------------------------------------------------------------
# score functions
# ---------------------------------------------------------------------------
_SCORE_CLS = {}


def score_class():
  """The harness's score function family (one traced structure).

  per point:  s = -wd * sum_{d<n_cont} (x_d - t_d)^2
                  + sum_{j<n_cat} wc_j * [k_j == c_j]
              s = floor(s * kp) / kp                  if kp > 0   (plateaus)
              s = bad_val  on the drawn region        (NaN / -inf)
  region kinds: 0 none, 1 x[dim] < thr, 2 x[dim] > thr, 3 k[dim] == thr,
  4 the point is exactly the target (x == t on real columns and k == c);
  bad_val is NaN, -inf or +inf.
  trap: a point with an out-of-domain real feature (NaN, outside [0,1],
  category index < 0 or >= size) scores `trap` (1e3, more than any in-domain
  point unless the region value is +inf): an optimiser that ever evaluates
  such a point will report it as its best.  With n_parallel a set containing
  one such point scores `trap`.
  n_parallel given: per-point scores reduced over the parallel axis by sum
  (red=0) or min (red=1).  The function is pure and ignores the seed.
  Padded columns are read through explicit 0/1 column masks so that whatever
  the optimiser puts there cannot change the score.
  """
  if 'cls' in _SCORE_CLS:
    return _SCORE_CLS['cls']
  import equinox as eqx
  import jax
  import jax.numpy as jnp

  class Score(eqx.Module):
    t: jax.Array        # (n_cont_pad,)
    cmask: jax.Array    # (n_cont_pad,) 1.0 on real columns
    wd: jax.Array       # ()
    c: jax.Array        # (n_cat_pad,) int
    wc: jax.Array       # (n_cat_pad,) 0.0 on padded columns
    kp: jax.Array       # ()
    bad_kind: jax.Array  # () int
    bad_dim: jax.Array   # () int
    bad_thr: jax.Array   # () float
    bad_val: jax.Array   # () float (nan or -inf)
    red: jax.Array       # () int
    sizes: jax.Array     # (n_cat_pad,) int, huge on padded columns
    kmask: jax.Array     # (n_cat_pad,) 1 on real columns
    trap: jax.Array      # () float
    parallel: bool = eqx.field(static=True)

    def invalid(self, xc, xk):
      bc = (self.cmask > 0) & (jnp.isnan(xc) | (xc < 0) | (xc > 1))
      bk = (self.kmask > 0) & ((xk < 0) | (xk >= self.sizes))
      return jnp.any(bc, axis=-1) | jnp.any(bk, axis=-1)

    def per_point(self, xc, xk):
      xc = jnp.where(jnp.isnan(xc), 0.0, xc)
      d = jnp.where(self.cmask > 0, xc - self.t, 0.0)
      s = -self.wd * jnp.sum(d * d, axis=-1)
      s = s + jnp.sum(jnp.where(xk == self.c, self.wc, 0.0), axis=-1)
      kp = jnp.where(self.kp > 0, self.kp, 1.0)
      s = jnp.where(self.kp > 0, jnp.floor(s * kp) / kp, s)
      if xc.shape[-1] > 0:
        col = jnp.take(xc, jnp.clip(self.bad_dim, 0, xc.shape[-1] - 1),
                       axis=-1)
        in1 = (self.bad_kind == 1) & (col < self.bad_thr)
        in2 = (self.bad_kind == 2) & (col > self.bad_thr)
      else:
        in1 = in2 = jnp.zeros(s.shape, dtype=bool)
      if xk.shape[-1] > 0:
        kcol = jnp.take(xk, jnp.clip(self.bad_dim, 0, xk.shape[-1] - 1),
                        axis=-1)
        in3 = (self.bad_kind == 3) & (kcol == self.bad_thr.astype(xk.dtype))
      else:
        in3 = jnp.zeros(s.shape, dtype=bool)
      at_t = jnp.all((self.cmask <= 0) | (xc == self.t), axis=-1) & jnp.all(
          (self.kmask <= 0) | (xk == self.c), axis=-1)
      in4 = (self.bad_kind == 4) & at_t
      return jnp.where(in1 | in2 | in3 | in4, self.bad_val, s)

    def __call__(self, x, seed=None):
      del seed
      xc, xk = x.continuous.padded_array, x.categorical.padded_array
      s = self.per_point(xc, xk)
      inv = self.invalid(xc, xk)
      if self.parallel:
        s = jnp.where(self.red == 1, jnp.min(s, axis=-1), jnp.sum(s, axis=-1))
        inv = jnp.any(inv, axis=-1)
      return jnp.where(inv, self.trap, s)

  _SCORE_CLS['cls'] = Score
  return Score


LOG = []  # rows recorded by the recording wrapper during one optimiser call


def _record(xc, xk, s):
  import numpy as np
  LOG.append((np.array(xc), np.array(xk), np.array(s)))
  return np.array(s)


def recording(score):
  """Wraps a Score so that every evaluation made by the optimiser is logged.

  The wrapper returns the logged value itself (`io_callback`, ordered), so the
  evaluation cannot be elided or duplicated by XLA: LOG is exactly the list of
  (continuous, categorical, rewards) batches the optimiser evaluated, in order.
  """
  if 'rcls' not in _SCORE_CLS:
    import equinox as eqx
    import jax
    from jax.experimental import io_callback
    Score = score_class()

    class Recording(eqx.Module):
      inner: Score

      def __call__(self, x, seed=None):
        s = self.inner(x, seed)
        return io_callback(
            _record, jax.ShapeDtypeStruct(s.shape, s.dtype),
            x.continuous.padded_array, x.categorical.padded_array, s,
            ordered=True)

    _SCORE_CLS['rcls'] = Recording
  return _SCORE_CLS['rcls'](score)


def make_score(desc, info, parallel, t_override=None, c_override=None):
  """JSON description -> Score module (arrays sized for the padded layout)."""
  import jax.numpy as jnp
  import numpy as np
  Score = score_class()
  ncp, nkp = info['n_cont_pad'], info['n_cat_pad']
  nc, nk = info['n_cont'], info['n_cat']
  t = np.zeros([ncp], np.float32)
  t[:nc] = np.asarray(desc['t'][:nc], np.float32)
  if t_override is not None:
    t[:nc] = np.asarray(t_override, np.float32)[:nc]
  c = np.zeros([nkp], np.int32)
  c[:nk] = [int(v) % s for v, s in zip(desc['c'][:nk], info['sizes'])]
  if c_override is not None:
    c[:nk] = np.asarray(c_override, np.int32)[:nk]
  wc = np.zeros([nkp], np.float32)
  wc[:nk] = np.asarray(desc['wc'][:nk], np.float32)
  cmask = np.zeros([ncp], np.float32)
  cmask[:nc] = 1.0
  bad = desc.get('bad') or {'kind': 0, 'dim': 0, 'thr': 0.0, 'val': 'nan'}
  kind = int(bad['kind'])
  dim = int(bad['dim'])
  thr = float(bad['thr'])
  if kind in (1, 2):
    if nc == 0:
      kind = 0
    else:
      dim %= nc
  elif kind == 3:
    if nk == 0:
      kind = 0
    else:
      dim %= nk
      thr = float(int(thr) % info['sizes'][dim])
  elif kind != 4:
    kind = 0
  val = {'nan': float('nan'), '-inf': float('-inf'),
         '+inf': float('inf')}[bad['val']]
  sizes = np.full([nkp], 2**30, np.int32)
  sizes[:nk] = info['sizes']
  kmask = np.zeros([nkp], np.int32)
  kmask[:nk] = 1
  return Score(
      t=jnp.asarray(t), cmask=jnp.asarray(cmask),
      wd=jnp.asarray(desc['wd'], jnp.float32),
      c=jnp.asarray(c), wc=jnp.asarray(wc),
      kp=jnp.asarray(desc.get('kp', 0.0), jnp.float32),
      bad_kind=jnp.asarray(kind, jnp.int32), bad_dim=jnp.asarray(dim, jnp.int32),
      bad_thr=jnp.asarray(thr, jnp.float32), bad_val=jnp.asarray(val, jnp.float32),
      red=jnp.asarray(int(desc.get('red', 0)), jnp.int32),
      sizes=jnp.asarray(sizes), kmask=jnp.asarray(kmask),
      trap=jnp.asarray(1e3, jnp.float32), parallel=parallel)


def as_model_input(cont, cat):
  """Harness-built ModelInput from plain arrays (no padding bookkeeping)."""
  import jax.numpy as jnp
  from vizier._src.jax import types
  return types.ModelInput(
      continuous=types.PaddedArray.as_padded(jnp.asarray(cont)),
      categorical=types.PaddedArray.as_padded(jnp.asarray(cat)))


def near_plateau_edge(score, cont, cat):
  """True when a plateau (floor) boundary is within float32 noise of the point.

  cont/cat: arrays (..., n_feat) for ONE candidate (all parallel members).
  """
  import numpy as np
  kp = float(score.kp)
  if kp <= 0:
    return False
  t = np.asarray(score.t, np.float64)
  m = np.asarray(score.cmask) > 0
  wd = float(score.wd)
  c = np.asarray(score.c)
  wc = np.asarray(score.wc, np.float64)
  xc = np.asarray(cont, np.float64)
  xk = np.asarray(cat)
  n = int(np.prod(xc.shape[:-1]))
  xc = xc.reshape(n, t.shape[0])
  xk = xk.reshape(n, c.shape[0])
  for a, k in zip(xc, xk):
    d = np.where(m, a - t, 0.0)
    s = -wd * float(np.sum(d * d)) + float(np.sum(np.where(k == c, wc, 0.0)))
    v = s * kp
    if abs(v - round(v)) < 1e-4 * max(1.0, abs(v)):
      return True
  return False
