"""C04, family `ds_atomic`: every single datastore call is atomic.

The interleavings of C04 are explored at the granularity of datastore calls;
that is only meaningful if a datastore call really is one indivisible step
("datastore._lock makes each single datastore call atomic"). This family
checks exactly that: 2-3 raw datastore calls run concurrently under the
cooperative scheduler with scheduling points *inside* the datastore - at every
acquire / release of the datastore's own lock and (SQL) at every
execute / commit / rollback on its connection - and ALL interleavings of those
points are enumerated (depth-first over the scheduler's decisions, capped).
Oracle: per-call results and the final datastore contents equal those of one
of the k! serial orders of the same calls (differential, same code).
"""
import itertools
import json

from harness import core
from harness import sched


class InnerLock:
  """Stands in for the datastore's threading.Lock; acquire and release are
  scheduling points, a held lock blocks the caller."""

  def __init__(self, sch):
    self.s = sch
    self.held = False
    self.owner = None

  def __enter__(self):
    self.s.point('dslock.acquire')
    r = self.s._cur()  # pylint: disable=protected-access
    while self.held:
      if r is None:
        raise RuntimeError('main thread would block on the datastore lock')
      r['blocked_on'] = self
      self.s.point('dslock.blocked')
      r['blocked_on'] = None
    self.held = True
    self.owner = r
    return self

  def __exit__(self, *a):
    self.held = False
    self.owner = None
    self.s.point('dslock.release')
    return False

  def acquire(self, blocking=True, timeout=-1):
    self.__enter__()
    return True

  def release(self):
    self.__exit__()

  def locked(self):
    return self.held


class ConnProxy:
  """SQLAlchemy connection whose execute/commit/rollback are scheduling
  points. With always=False they are points only when reached by a thread
  that does not hold the datastore lock (inside the lock no other thread can
  touch the connection unless it, too, skips the lock - and then *its* calls
  are points), which keeps the schedule space small enough to enumerate."""

  def __init__(self, conn, sch, lock, always):
    object.__setattr__(self, '_c', conn)
    object.__setattr__(self, '_s', sch)
    object.__setattr__(self, '_lock', lock)
    object.__setattr__(self, '_always', always)

  def __getattr__(self, name):
    attr = getattr(self._c, name)
    if name in ('execute', 'commit', 'rollback'):
      s = self._s

      lock, always = self._lock, self._always

      def call(*a, **k):
        if always or lock.owner is None or lock.owner is not s._cur():  # pylint: disable=protected-access
          s.point('conn.' + name)
        return attr(*a, **k)
      return call
    return attr


class _Recording:
  """Policy following a list of choices, then always the first runnable
  thread in name order ... and recording the branching factor of each step."""

  def __init__(self, choices):
    self.choices = list(choices)
    self.branching = []

  def __call__(self, step, names, cur):
    self.branching.append(len(names))
    c = self.choices[step] if step < len(self.choices) else 0
    return sorted(names)[c % len(names)]


BASE_PREFIX = [
    ['create_study', 'o0', 's0'], ['create_trial', 'o0', 's0', 1],
    ['create_trial', 'o0', 's0', 2], ['create_sop', 'o0', 's0', 'w1', 1],
    ['create_eop', 'o0', 's0', 1],
]


def strategy():
  from hypothesis import strategies as st
  from props import c07
  # calls aimed at the resources of BASE_PREFIX (writes that succeed, writes
  # that fail and roll back, reads) mixed with arbitrary ones
  focused = st.sampled_from([
      ['update_trial', 'o0', 's0', 1, 'SUCCEEDED'],
      ['update_trial', 'o0', 's0', 1, 'REQUESTED'],
      ['update_trial', 'o0', 's0', 2, 'SUCCEEDED'],
      ['create_trial', 'o0', 's0', 3], ['create_trial', 'o0', 's0', 1],
      ['delete_trial', 'o0', 's0', 1], ['delete_trial', 'o0', 's0', 3],
      ['create_study', 'o0', 's1'], ['create_study', 'o0', 's0'],
      ['create_study', 'o1', 's0'], ['delete_study', 'o0', 's0'],
      ['delete_study', 'o0', 's1'], ['update_study', 'o0', 's0', 'INACTIVE'],
      ['create_sop', 'o0', 's0', 'w1', 2], ['create_sop', 'o0', 's0', 'w2', 1],
      ['update_sop', 'o0', 's0', 'w1', 1, True],
      ['create_eop', 'o0', 's0', 2], ['create_eop', 'o0', 's0', 1],
      ['update_eop', 'o0', 's0', 1, True],
      ['update_md', 'o0', 's0', [['', 'k', 'v']], [[1, '', 'k', 'v']]],
      ['update_md', 'o0', 's0', [[':a', 'j', 'w']], [[3, '', 'k', 'v']]],
      ['get_trial', 'o0', 's0', 1], ['list_trials', 'o0', 's0'],
      ['load_study', 'o0', 's0'], ['list_studies', 'o0'],
      ['max_trial_id', 'o0', 's0'], ['get_sop', 'o0', 's0', 'w1', 1],
      ['max_sop', 'o0', 's0', 'w1'], ['get_eop', 'o0', 's0', 1],
  ])
  op = c07.strategy_datastore_op()
  call = st.one_of(focused, focused, op)
  return st.fixed_dictionaries({
      'backend': st.sampled_from(['sqlmem', 'sqlmem', 'ram']),
      # SQL: scheduling points at execute/commit/rollback also inside the lock
      'inner_points': st.sampled_from([False, False, False, True]),
      'prefix': st.tuples(
          st.sampled_from([BASE_PREFIX, BASE_PREFIX,
                           [['create_study', 'o0', 's0']]]),
          st.lists(op, min_size=0, max_size=6)).map(lambda t: t[0] + t[1]),
      'calls': st.one_of(st.lists(call, min_size=2, max_size=2),
                         st.lists(call, min_size=2, max_size=3)),
  })


UNIVERSE_READS = (
    [['list_studies', o] for o in ('o0', 'o1')] +
    [[k, o, s] for o in ('o0', 'o1') for s in ('s0', 's1')
     for k in ('load_study', 'list_trials', 'max_trial_id')] +
    [['list_sops', o, s, w, 'all'] for o in ('o0', 'o1') for s in ('s0', 's1')
     for w in ('w1', 'w2')] +
    [['get_eop', o, s, t] for o in ('o0', 'o1') for s in ('s0', 's1')
     for t in (1, 2, 3)])


def _dump(ds):
  from props import c07
  everything = {(o, s) for o in ('o0', 'o1') for s in ('s0', 's1')}
  return [c07._ds_call(ds, op, everything)  # pylint: disable=protected-access
          for op in UNIVERSE_READS]


def _fresh(case):
  """Fresh datastore with the prefix applied; returns (servicer, ds,
  existing studies, existing resources)."""
  from harness import svc
  from props import c07
  s = svc.make_servicer(case['backend'])
  ds = s.datastore
  existing, res_set = set(), set()
  for op in case['prefix']:
    op = c07.dense_sop(op, res_set)
    r = c07._ds_call(ds, op, existing, res_set)  # pylint: disable=protected-access
    c07.track(op, r, existing, res_set)
  return s, ds, existing, res_set


def _effective_calls(case):
  """Concurrent calls with the callers' preconditions evaluated against the
  state after the prefix; calls that no caller would make are dropped."""
  from harness import svc
  from props import c07
  s, ds, existing, res_set = _fresh(case)
  try:
    calls = []
    for op in case['calls']:
      op = c07.dense_sop(op, res_set)
      if c07.precondition_ok(op, existing, res_set):
        calls.append(op)
    return calls, existing, res_set
  finally:
    svc.close_servicer(s)


def _run(case, calls, existing, res_set, choices=None, order=None):
  from harness import svc
  from props import c07
  s, ds, _, _ = _fresh(case)
  try:
    if order is not None:  # serial execution
      res = [None] * len(calls)
      for i in order:
        res[i] = c07._ds_call(ds, calls[i], existing, res_set)  # pylint: disable=protected-access
      return {'calls': res, 'dump': _dump(ds)}
    pol = _Recording(choices)
    sch = sched.Sched(pol, max_steps=400)
    real_lock = ds._lock  # pylint: disable=protected-access
    ds._lock = InnerLock(sch)  # pylint: disable=protected-access
    real_conn = getattr(ds, '_connection', None)
    if real_conn is not None:
      ds._connection = ConnProxy(real_conn, sch, ds._lock,
                                 bool(case.get('inner_points')))  # pylint: disable=protected-access
    recs = [sch.spawn((lambda op=op: c07._ds_call(ds, op, existing, res_set)),  # pylint: disable=protected-access
                      't%d' % i) for i, op in enumerate(calls)]
    status = 'ok'
    detail = ''
    try:
      sch.run()
    except sched.Deadlock as e:
      status, detail = 'deadlock', str(e)
    except sched.Livelock as e:
      status, detail = 'livelock', str(e)
    ds._lock = real_lock  # pylint: disable=protected-access
    if real_conn is not None:
      ds._connection = real_conn  # pylint: disable=protected-access
    out = {'status': status, 'detail': detail, 'branching': pol.branching,
           'trace': [list(t) for t in sch.trace]}
    if status != 'ok':
      return out
    res = []
    for r in recs:
      kind, val = r['result']
      res.append(['err', 'CRASH:' + type(val).__name__] if kind == 'exc'
                 else val)
    out['calls'] = res
    out['dump'] = _dump(ds)
    return out
  finally:
    svc.close_servicer(s)


def _key(o):
  return json.dumps([o['calls'], o['dump']], sort_keys=True, default=list)


def check(case, cap=120):
  out = core.Out()
  calls, existing, res_set = _effective_calls(case)
  out.cls(case['backend'])
  if len(calls) < 2:
    out.cls('fewer_than_two_calls_after_preconditions')
    return out
  kinds = '+'.join(sorted(c[0] for c in calls))
  serial = {}
  for order in itertools.permutations(range(len(calls))):
    o = _run(case, calls, existing, res_set, order=order)
    serial.setdefault(_key(o), list(order))
  stack = [[]]
  runs = 0
  seen_traces = set()
  switched_inside = False
  while stack and runs < cap:
    prefix = stack.pop()
    res = _run(case, calls, existing, res_set, choices=prefix)
    runs += 1
    out.count('schedules_run')
    br = res['branching']
    for i in range(len(prefix), len(br)):
      for alt in range(1, br[i]):
        stack.append(prefix + [0] * (i - len(prefix)) + [alt])
    tr = tuple(t for t, _ in res['trace'])
    seen_traces.add(tr)
    # a thread was switched away from between its first and last point
    for i in range(len(tr) - 1):
      if tr[i] != tr[i + 1] and tr[i] in tr[i + 1:]:
        switched_inside = True
    if res['status'] != 'ok':
      out.violate('ds_atomic/%s/%s' % (res['status'], kinds),
                  'choices=%r calls=%r: %s' % (prefix, calls,
                                               res['detail'][:300]))
      continue
    if _key(res) not in serial:
      out.violate('ds_atomic/not_serializable/%s' % kinds,
                  'choices=%r calls=%r results=%s trace=%s; serial orders '
                  'give %s' % (prefix, calls, json.dumps(
                      res['calls'], default=list)[:300],
                               [(t, w) for t, w in res['trace']][:40],
                               [json.loads(k)[0] for k in serial][:3]))
  if stack:
    out.cls('enumeration_capped')
  else:
    out.cls('all_interleavings_enumerated')
  out.nontrivial = switched_inside and len(seen_traces) > 2
  out.nt_keys = {core.case_hash([case, list(t)]) for t in seen_traces}
  if switched_inside:
    out.cls('switched_inside_a_datastore_call')
  for c in calls:
    out.cls('dskind_' + c[0])
  return out


def check_thorough(case):
  return check(case, cap=600)
