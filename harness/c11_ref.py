"""Brute-force reference definitions for C11 (pure Python floats, no numpy).

Everything here is written from the statement of C11:

  q dominates p   iff  q_i >= p_i for every i and q_j > p_j for some j
  p is optimal    iff  no q of the multiset dominates p (so duplicates of an
                       optimal point are optimal)
  rank(p)         =    number of points of the multiset dominating p

and from the docstring of BaseParetoOptimalAlgorithm.is_pareto_optimal_against:

  strict=True   p is optimal iff no a in `against` dominates p (an equal point
                does not count)
  strict=False  p is optimal iff no a in `against` is >= p everywhere (an
                equal point does count)

Vectors are "bigger is better" in every coordinate; callers flip the sign of
MINIMIZE metrics first.
"""
import math


def dominates(q, p):
  ge = True
  gt = False
  for a, b in zip(q, p):
    if a < b:
      ge = False
      break
    if a > b:
      gt = True
  return ge and gt


def weakly_dominates(q, p):
  for a, b in zip(q, p):
    if not a >= b:
      return False
  return True


def rank(pts):
  return [sum(1 for q in pts if dominates(q, p)) for p in pts]


def optimal_mask(pts):
  return [r == 0 for r in rank(pts)]


def against_mask(points, against, strict):
  if strict:
    return [not any(dominates(a, p) for a in against) for p in points]
  return [not any(weakly_dominates(a, p) for a in against) for p in points]


def structure(pts):
  """Generator-class facts about a point multiset."""
  n = len(pts)
  opt = optimal_mask(pts)
  d = len(pts[0]) if n else 0
  tie = False
  for i in range(n):
    if not opt[i]:
      continue
    for j in range(n):
      if opt[j]:
        continue
      if any(pts[i][c] == pts[j][c] for c in range(d)):
        tie = True
        break
    if tie:
      break
  seen = {}
  dup_opt = False
  for i in range(n):
    key = tuple(0.0 if v == 0 else v for v in pts[i])  # -0.0 == 0.0
    if key in seen:
      if opt[i]:
        dup_opt = True
    seen[key] = i
  col0 = [p[0] for p in pts]
  return {
      'optimal': opt,
      'tie_opt_nonopt': tie,
      'dup_optimal': dup_opt,
      'nontrivial': tie or dup_opt,
      'col0_ties': len(set(0.0 if v == 0 else v for v in col0)) < n,
      'has_inf': any(math.isinf(v) for p in pts for v in p),
      'has_nonoptimal': any(not o for o in opt),
  }


def classes(pts, prefix=''):
  s = structure(pts)
  n = len(pts)
  cl = []
  if n == 0:
    cl.append('n=0')
  elif n == 1:
    cl.append('n=1')
  elif n <= 4:
    cl.append('n=2..4')
  elif n <= 12:
    cl.append('n=5..12')
  else:
    cl.append('n=13..40')
  if n:
    cl.append('d=%d' % len(pts[0]))
  for k in ('tie_opt_nonopt', 'dup_optimal', 'col0_ties', 'has_inf'):
    if s[k]:
      cl.append(k)
  if n > 1 and not s['has_nonoptimal']:
    cl.append('all_optimal')
  return [prefix + c for c in cl], s
