"""Driver shared by all property checks.

Concepts
  Family    one generator + one oracle ("check") for a property.  The generator
            is a Hypothesis strategy (or an explicit finite enumeration) that
            yields JSON-able *case descriptions*; `check(case)` executes the
            case against google/vizier and returns an `Out` (verdict object).
  Out       verdict of one case: list of violations (bucket, detail), the
            generator classes the case falls in, whether it is non-trivial by
            the property's stated rule, whether it was inconclusive.
  bucket    root-cause key of a violation: "<oracle clause>/<site or differing
            field>".  Known findings are matched on (property, bucket).

Flow of `./check Cxx --tier T`
  1. pinned regression cases (replay files of known / fixed findings) are run;
  2. every family's budget is split over shards, each shard is a fresh
     subprocess (PYTHONHASHSEED=0) running Hypothesis in *collecting* mode with
     seed = H(VERIF_SEED, property, family, shard) - the test body never
     raises, violations are bucketed, so one shallow defect cannot hide
     what lies behind it;
  3. for each bucket that is not a known finding the shard that found it is
     re-run in *raising* mode with the same seed so that Hypothesis shrinks the
     case (time-capped; best-so-far kept); the shrunk case becomes the replay
     file;
  4. evidence/<id>.json is rewritten from the merged shard reports.

Exit codes: 0 held (KNOWN-FINDING lines possible), 1 VIOLATION, 2 harness error.
"""
import argparse
import collections
import dataclasses
import fnmatch
import hashlib
import importlib
import json
import os
import subprocess
import sys
import tempfile
import time
import traceback
from typing import Any, Callable, Optional

VERIF = os.path.dirname(os.path.dirname(os.path.abspath(__file__)))
NCPU = int(os.environ.get('VERIF_NCPU', '16'))


# --------------------------------------------------------------------------
# verdict objects
# --------------------------------------------------------------------------
class Out:
  """Verdict of one case."""

  def __init__(self):
    self.violations = []  # list of dict(bucket, detail)
    self.classes = []
    self.nontrivial = False
    self.inconclusive = False
    self.notes = {}
    self.counters = {}  # extra integer counters, summed into the evidence
    self.nt_keys = None  # optional: distinct non-trivial sub-cases (hashes)

  def violate(self, bucket, detail=''):
    detail = str(detail)
    if len(detail) > 1500:
      detail = detail[:1500] + '...'
    self.violations.append({'bucket': str(bucket), 'detail': detail})
    return self

  def count(self, name, k=1):
    self.counters[name] = self.counters.get(name, 0) + k
    return self

  def cls(self, *names):
    for n in names:
      if n and n not in self.classes:
        self.classes.append(n)
    return self

  @property
  def ok(self):
    return not self.violations


@dataclasses.dataclass
class Family:
  """One generator + oracle."""
  name: str
  check: Callable[[Any], Out]
  strategy: Optional[Callable[[], Any]] = None  # () -> hypothesis strategy
  enumerate: Optional[Callable[[str], list]] = None  # tier -> list of cases
  budget: dict = dataclasses.field(
      default_factory=lambda: {'quick': 200, 'thorough': 4000})
  shards: dict = dataclasses.field(
      default_factory=lambda: {'quick': 8, 'thorough': 16})
  required_classes: tuple = ()  # vacuity guard: each must have share > 0
  needs: tuple = ()  # e.g. ('grpc',) informational
  setup: Optional[Callable[[], None]] = None  # per worker process
  max_shrink_s: dict = dataclasses.field(
      default_factory=lambda: {'quick': 20, 'thorough': 120})


def canon(case):
  return json.dumps(case, sort_keys=True, allow_nan=True, default=_default)


def _default(o):
  raise TypeError('case is not JSON-able: %r' % (o,))


def case_hash(case):
  return hashlib.sha1(canon(case).encode()).hexdigest()[:16]


def derive_seed(*parts):
  h = hashlib.sha1('/'.join(str(p) for p in parts).encode()).hexdigest()
  return int(h[:12], 16)


def load_prop(pid):
  return importlib.import_module('props.' + pid.lower())


def get_family(mod, tier, name):
  for f in mod.families(tier):
    if f.name == name:
      return f
  raise KeyError(name)


# --------------------------------------------------------------------------
# known findings
# --------------------------------------------------------------------------
def load_known(pid):
  paths = [os.path.join(VERIF, 'known_findings.jsonl'),
           os.path.join(VERIF, 'known_findings.d', '%s.jsonl' % pid)]
  recs = []
  for path in paths:
    if not os.path.exists(path):
      continue
    for line in open(path):
      line = line.strip()
      if not line or line.startswith('#'):
        continue
      r = json.loads(line)
      if r.get('property') == pid:
        recs.append(r)
  return recs


def match_known(recs, family, bucket, prefer=None):
  if prefer is not None and prefer.get('status') == 'known' and (
      prefer.get('family') in (None, family)) and fnmatch.fnmatchcase(
          bucket, prefer['bucket']):
    return prefer
  for r in recs:
    if r.get('status') != 'known':
      continue
    if r.get('family') not in (None, family):
      continue
    if fnmatch.fnmatchcase(bucket, r['bucket']):
      return r
  return None


# --------------------------------------------------------------------------
# worker: runs one shard of one family in this process
# --------------------------------------------------------------------------
def run_checked(fam, case):
  """Runs fam.check, converting unexpected harness exceptions to a marker."""
  try:
    out = fam.check(case)
    if not isinstance(out, Out):
      raise TypeError('check returned %r' % (out,))
    return out, None
  except Exception:  # pylint: disable=broad-except
    return None, traceback.format_exc()


def worker_main(args):
  from harness import boot
  boot.init()
  mod = load_prop(args.prop)
  fam = get_family(mod, args.tier, args.family)
  if fam.setup:
    fam.setup()
  t0 = time.time()
  rep = {
      'family': fam.name, 'shard': args.shard, 'evaluations': 0,
      'nontrivial': [], 'classes': collections.Counter(), 'samples': [],
      'buckets': {}, 'harness_errors': [], 'inconclusive': 0,
      'exhaustive': False, 'counters': collections.Counter(),
  }
  nt = set()
  deadline = t0 + args.time_cap if args.time_cap else None

  def record(case):
    out, err = run_checked(fam, case)
    rep['evaluations'] += 1
    if err is not None:
      if len(rep['harness_errors']) < 3:
        rep['harness_errors'].append({'case': case, 'traceback': err})
      else:
        rep['harness_errors'].append({'traceback': err.splitlines()[-1]})
      return
    for c in out.classes:
      rep['classes'][c] += 1
    if out.inconclusive:
      rep['inconclusive'] += 1
    rep['counters'].update(out.counters)
    if out.nt_keys:
      nt.update(out.nt_keys)
    if out.nontrivial:
      h = case_hash(case)
      if h not in nt:
        nt.add(h)
        if len(rep['samples']) < 2:
          rep['samples'].append(case)
    for v in out.violations:
      b = rep['buckets'].setdefault(
          v['bucket'], {'count': 0, 'case': case, 'detail': v['detail'],
                        'size': len(canon(case))})
      b['count'] += 1
      sz = len(canon(case))
      if sz < b['size']:
        b.update(case=case, detail=v['detail'], size=sz)

  if fam.enumerate is not None and args.mode == 'collect':
    cases = fam.enumerate(args.tier)
    for i, case in enumerate(cases):
      if i % args.nshards == args.shard:
        record(case)
    rep['exhaustive'] = True
  if fam.strategy is not None and args.examples > 0:
    import hypothesis
    from hypothesis import given, settings, HealthCheck, Phase
    strat = fam.strategy()
    seed = derive_seed(args.seed, args.prop, fam.name, args.shard)

    if args.mode == 'collect':
      @hypothesis.seed(seed)
      @settings(max_examples=args.examples, database=None, deadline=None,
                derandomize=False, report_multiple_bugs=False,
                phases=[Phase.generate],
                suppress_health_check=list(HealthCheck))
      @given(strat)
      def run(case):
        if deadline and time.time() > deadline:
          rep['budget_hit'] = True
          return
        record(case)
      run()
    else:  # shrink mode: raise on the target bucket, keep best-so-far
      target = args.bucket
      best = {'case': None, 'size': None, 'detail': ''}
      best_path = args.out + '.best'

      @hypothesis.seed(seed)
      @settings(max_examples=args.examples, database=None, deadline=None,
                derandomize=False, report_multiple_bugs=False,
                phases=[Phase.generate, Phase.shrink],
                suppress_health_check=list(HealthCheck))
      @given(strat)
      def run(case):
        out, err = run_checked(fam, case)
        if err is not None:
          return
        hit = [v for v in out.violations if v['bucket'] == target]
        if hit:
          sz = len(canon(case))
          if best['size'] is None or sz <= best['size']:
            best.update(case=case, size=sz, detail=hit[0]['detail'])
            with open(best_path + '.tmp', 'w') as f:
              json.dump(best, f)
            os.replace(best_path + '.tmp', best_path)
          raise AssertionError(target)
      try:
        run()
      except AssertionError:
        pass
      except Exception:  # flaky etc: keep best-so-far
        rep['shrink_note'] = traceback.format_exc().splitlines()[-1]
      rep['shrunk'] = best
  rep['nontrivial'] = sorted(nt)
  rep['classes'] = dict(rep['classes'])
  rep['counters'] = dict(rep['counters'])
  rep['wall_s'] = time.time() - t0
  with open(args.out, 'w') as f:
    json.dump(rep, f, allow_nan=True)
  return 0


# --------------------------------------------------------------------------
# orchestrator
# --------------------------------------------------------------------------
def _spawn(argv, env, log):
  return subprocess.Popen(argv, env=env, stdout=log, stderr=subprocess.STDOUT,
                          cwd=VERIF)


def _worker_env():
  env = dict(os.environ)
  env['PYTHONHASHSEED'] = '0'
  env.setdefault('JAX_PLATFORMS', 'cpu')
  env.setdefault('TF_CPP_MIN_LOG_LEVEL', '3')
  env.setdefault('XLA_FLAGS', '--xla_force_host_platform_device_count=1')
  env['OMP_NUM_THREADS'] = env.get('OMP_NUM_THREADS', '2')
  return env


def run_jobs(jobs, tmp, timeout):
  """jobs: list of dict(argv-extras). Runs <=NCPU at a time; returns reports."""
  env = _worker_env()
  pending = list(jobs)
  running = []
  results = []
  t_start = time.time()
  while pending or running:
    while pending and len(running) < NCPU:
      j = pending.pop(0)
      out = os.path.join(tmp, 'w%d.json' % j['idx'])
      logp = os.path.join(tmp, 'w%d.log' % j['idx'])
      log = open(logp, 'w')
      argv = [sys.executable, os.path.join(VERIF, 'check'), j['prop'],
              '--worker', '--family', j['family'], '--shard', str(j['shard']),
              '--nshards', str(j['nshards']), '--examples', str(j['examples']),
              '--tier', j['tier'], '--seed', str(j['seed']), '--out', out,
              '--mode', j.get('mode', 'collect'),
              '--time-cap', str(j.get('time_cap', 0))]
      if j.get('bucket'):
        argv += ['--bucket', j['bucket']]
      p = _spawn(argv, env, log)
      running.append((p, j, out, logp, log, time.time()))
    time.sleep(0.05)
    still = []
    for p, j, out, logp, log, t0 in running:
      rc = p.poll()
      if rc is None:
        if time.time() - t0 > j.get('timeout', timeout):
          p.kill()
          p.wait()
          log.close()
          results.append((j, None, 'timeout', logp, out))
        else:
          still.append((p, j, out, logp, log, t0))
        continue
      log.close()
      if rc != 0 or not os.path.exists(out):
        results.append((j, None, 'rc=%s' % rc, logp, out))
      else:
        results.append((j, json.load(open(out)), None, logp, out))
    running = still
  return results


def _reproduces(pid, family, bucket, case, detail, tier, tmp):
  """Replays `case` in a fresh process; True iff `bucket` is reported again."""
  path = os.path.join(tmp, 'candidate-%s.json' % hashlib.sha1(
      (family + bucket).encode()).hexdigest()[:10])
  try:
    with open(path, 'w') as f:
      json.dump({'property': pid, 'family': family, 'bucket': bucket,
                 'detail': detail, 'case': case}, f, allow_nan=True)
    env = dict(os.environ)
    env['PYTHONHASHSEED'] = '0'
    p = subprocess.run(
        [sys.executable, os.path.join(VERIF, 'check'), pid, '--tier', tier,
         '--replay', path], env=env, cwd=VERIF, capture_output=True, text=True,
        timeout=900)
    return ('bucket=%s' % bucket) in p.stdout
  except Exception:  # pylint: disable=broad-except
    return True  # cannot tell: keep the shrunk case


def write_replay(pid, family, bucket, case, detail, sub=''):
  d = os.path.join(VERIF, 'replays', pid, sub) if sub else os.path.join(
      VERIF, 'replays', pid)
  os.makedirs(d, exist_ok=True)
  safe = ''.join(ch if ch.isalnum() or ch in '-_.' else '_' for ch in bucket)
  safe = safe[:80] + '-' + hashlib.sha1(bucket.encode()).hexdigest()[:8]
  path = os.path.join(d, '%s.%s.json' % (family, safe))
  with open(path, 'w') as f:
    json.dump({'property': pid, 'family': family, 'bucket': bucket,
               'detail': detail, 'case': case}, f, indent=1, allow_nan=True)
  return path


def replay_file(pid, path, tier='quick'):
  """Returns (Out|None, err, rec)."""
  rec = json.load(open(path))
  mod = load_prop(pid)
  fam = get_family(mod, tier, rec['family'])
  if fam.setup:
    fam.setup()
  out, err = run_checked(fam, rec['case'])
  return out, err, rec


def orchestrate(args):
  pid = args.prop
  tier = args.tier
  seed = int(os.environ.get('VERIF_SEED', '1'))
  t0 = time.time()
  from harness import boot
  repo = boot.REPO
  git_before = subprocess.run(['git', '-C', repo, 'status', '--porcelain'],
                              capture_output=True, text=True).stdout
  boot.init()
  mod = load_prop(pid)
  known = load_known(pid)
  fams = mod.families(tier)
  if args.only:
    fams = [f for f in fams if f.name in args.only.split(',')]
  violations = []  # (family, bucket, replay)
  known_seen = {}
  harness_errors = []

  # 1. pinned regression cases
  pinned_run = 0
  for r in known:
    rp = r.get('replay')
    if not rp:
      continue
    path = os.path.join(VERIF, rp)
    try:
      out, err, rec = replay_file(pid, path, tier)
    except Exception:  # pylint: disable=broad-except
      harness_errors.append('pinned %s: %s' % (rp, traceback.format_exc()))
      continue
    pinned_run += 1
    if err:
      harness_errors.append('pinned %s: %s' % (rp, err))
      continue
    for v in out.violations:
      k = match_known(known, rec['family'], v['bucket'], prefer=r)
      if k is not None:
        known_seen[k.get('replay') or k['bucket']] = k
      else:
        violations.append((rec['family'], v['bucket'], path, v['detail']))

  # 2. generated search
  tmp = tempfile.mkdtemp(prefix='verif-%s-' % pid)
  jobs = []
  idx = 0
  scale = float(os.environ.get('VERIF_BUDGET_SCALE', '1'))
  for f in fams:
    n = max(1, min(f.shards.get(tier, 8), NCPU * 4))
    total = int(f.budget.get(tier, 0) * scale) if f.strategy else 0
    per = (total + n - 1) // n if total else 0
    for s in range(n):
      jobs.append(dict(idx=idx, prop=pid, family=f.name, shard=s, nshards=n,
                       examples=per, tier=tier, seed=seed))
      idx += 1
  timeout = float(os.environ.get('VERIF_WORKER_TIMEOUT',
                                 '600' if tier == 'quick' else '3600'))
  results = run_jobs(jobs, tmp, timeout)

  merged = {}
  for j, rep, err, logp, outp in results:
    m = merged.setdefault(j['family'], {
        'evaluations': 0, 'nontrivial': set(), 'classes': collections.Counter(),
        'samples': [], 'buckets': {}, 'inconclusive': 0, 'exhaustive': False,
        'failed_shards': 0, 'budget_hit': 0,
        'counters': collections.Counter()})
    if rep is None:
      m['failed_shards'] += 1
      tail = ''
      try:
        tail = ''.join(open(logp).readlines()[-15:])
      except OSError:
        pass
      if err == 'timeout':
        m['inconclusive'] += j['examples']
        m['budget_hit'] += 1
      else:
        harness_errors.append('worker %s shard %d: %s\n%s' % (
            j['family'], j['shard'], err, tail))
      continue
    m['evaluations'] += rep['evaluations']
    m['nontrivial'].update(rep['nontrivial'])
    m['classes'].update(rep['classes'])
    m['counters'].update(rep.get('counters', {}))
    m['inconclusive'] += rep['inconclusive']
    m['exhaustive'] = m['exhaustive'] or rep.get('exhaustive', False)
    if rep.get('budget_hit'):
      m['budget_hit'] += 1
    if len(m['samples']) < 3:
      m['samples'].extend(rep['samples'][:1])
    for he in rep['harness_errors'][:2]:
      harness_errors.append('family %s shard %d: %s\ncase=%s' % (
          j['family'], j['shard'], he['traceback'],
          json.dumps(he.get('case'))[:2000]))
    for b, info in rep['buckets'].items():
      cur = m['buckets'].get(b)
      if cur is None:
        m['buckets'][b] = dict(info, shard=j['shard'], nshards=j['nshards'],
                               examples=j['examples'])
      else:
        cur['count'] += info['count']
        if info['size'] < cur['size']:
          cur.update(case=info['case'], detail=info['detail'],
                     size=info['size'], shard=j['shard'],
                     examples=j['examples'])

  # 3. classify buckets, shrink new ones
  shrink_jobs = []
  new_buckets = []
  for f in fams:
    m = merged.get(f.name)
    if not m:
      continue
    for b, info in sorted(m['buckets'].items()):
      k = match_known(known, f.name, b)
      if k is not None:
        known_seen.setdefault(k.get('replay') or k['bucket'], k)
        continue
      new_buckets.append((f, b, info))
  for f, b, info in new_buckets[:4]:
    if f.strategy is None or os.environ.get('VERIF_NO_SHRINK'):
      continue
    cap = f.max_shrink_s.get(tier, 20)
    shrink_jobs.append(dict(
        idx=idx, prop=pid, family=f.name, shard=info['shard'],
        nshards=info['nshards'], examples=info['examples'], tier=tier,
        seed=seed, mode='shrink', bucket=b, timeout=cap))
    idx += 1
  shrunk = {}
  if shrink_jobs:
    for j, rep, err, logp, outp in run_jobs(shrink_jobs, tmp, 600):
      best = None
      if rep is not None and rep.get('shrunk', {}).get('case') is not None:
        best = rep['shrunk']
      elif os.path.exists(outp + '.best'):
        try:
          best = json.load(open(outp + '.best'))
        except Exception:  # pylint: disable=broad-except
          best = None
      if best and best.get('case') is not None:
        shrunk[(j['family'], j['bucket'])] = best
  for f, b, info in new_buckets:
    best = shrunk.get((f.name, b))
    case, detail = info['case'], info['detail']
    if best is not None and best['size'] <= info['size']:
      # a shrunk case becomes the replay only if it reproduces on its own in a
      # fresh process (it was accepted inside a long-lived worker process)
      if _reproduces(pid, f.name, b, best['case'], best['detail'], tier, tmp):
        case, detail = best['case'], best['detail']
      else:
        detail += ' [shrunk case did not reproduce standalone; unshrunk case kept]'
    path = write_replay(pid, f.name, b, case, detail)
    violations.append((f.name, b, path, detail))

  # 4. evidence
  evaluations = sum(m['evaluations'] for m in merged.values()) + pinned_run
  eval_counter = getattr(mod, 'EVAL_COUNTER', None)
  generated_cases = evaluations
  if eval_counter:
    evaluations = sum(m['counters'].get(eval_counter, 0)
                      for m in merged.values()) + pinned_run
  nt_all = set()
  for fn, m in merged.items():
    nt_all.update(fn + ':' + h for h in m['nontrivial'])
  samples = []
  for fn, m in merged.items():
    for s in m['samples'][:2]:
      samples.append({'family': fn, 'case': s})
  classes = {fn: dict(m['classes']) for fn, m in merged.items()}
  vacuous = []
  for f in fams:
    m = merged.get(f.name)
    if not m:
      continue
    for rc in f.required_classes:
      if m['classes'].get(rc, 0) == 0 and m['evaluations'] > 0:
        vacuous.append('%s:%s' % (f.name, rc))
  per_family = {
      fn: {'evaluations': m['evaluations'],
           'distinct_nontrivial': len(m['nontrivial']),
           'inconclusive_cases': m['inconclusive'],
           'counters': dict(m['counters']),
           'exhaustive_enumeration_part': m['exhaustive'],
           'failed_or_timed_out_shards': m['failed_shards'],
           'violation_buckets': {b: i['count']
                                 for b, i in m['buckets'].items()}}
      for fn, m in merged.items()}
  ev = {
      'property_id': pid, 'tier': tier, 'seed': seed,
      'level': getattr(mod, 'LEVEL', 'exploration'),
      'coverage': {
          'evaluations': evaluations,
          'distinct_nontrivial': len(nt_all),
          'rule': getattr(mod, 'RULE', ''),
          'samples': samples[:6],
          'classes': classes,
          'per_family': per_family,
          'generated_cases': generated_cases,
          'pinned_regression_cases_run': pinned_run,
          'inconclusive_cases': sum(m['inconclusive'] for m in merged.values()),
          'exhaustive': bool(merged) and all(
              m['exhaustive'] and not f.strategy
              for f in fams for m in [merged.get(f.name)] if m),
          'known_findings_seen': sorted(k['what'][:120] for k in known_seen.values()),
          'new_violation_buckets': [
              {'family': a, 'bucket': b, 'replay': os.path.relpath(c, VERIF)}
              for a, b, c, _ in violations],
      },
      'assumptions': list(getattr(mod, 'ASSUMPTIONS', [])) + [
          'harness/boot.py compiles vizier/_src/service/*.proto of the '
          'working tree with a pure-python proto3 front end (no protoc in the '
          'sandbox) and re-exports jax names removed in jax 0.11 so that '
          'equinox imports; both are environment repairs, part of the trusted '
          'base',
          'hypothesis %s generators, seed derived from VERIF_SEED per '
          '(property, family, shard)' % _hyp_version(),
      ],
      'wall_s': round(time.time() - t0, 2),
      'violations': len(violations),
  }
  evdir = os.environ.get('VERIF_EVIDENCE_DIR') or os.path.join(
      VERIF, 'evidence')
  if os.environ.get('VERIF_REPO') and not os.environ.get('VERIF_EVIDENCE_DIR'):
    # runs against a scratch copy (mutants) must not overwrite the evidence
    evdir = os.path.join(VERIF, 'replays', '_mutant_evidence')
  os.makedirs(evdir, exist_ok=True)
  evp = os.path.join(evdir, '%s.json' % pid)
  with open(evp + '.tmp', 'w') as f:
    json.dump(_finite_json(ev), f, indent=1, allow_nan=False, default=str)
  os.replace(evp + '.tmp', evp)

  import shutil
  if not os.environ.get('VERIF_KEEP_TMP'):
    shutil.rmtree(tmp, ignore_errors=True)

  git_after = subprocess.run(['git', '-C', repo, 'status', '--porcelain'],
                             capture_output=True, text=True).stdout
  if git_after != git_before:
    harness_errors.append('repository working tree changed during the check:\n'
                          + git_after)

  for k in known_seen.values():
    print('KNOWN-FINDING: property=%s %s' % (pid, k['what']))
  for fam, b, path, detail in violations:
    print('VIOLATION property=%s replay=%s' % (pid, os.path.relpath(path, VERIF)))
    print('  family=%s bucket=%s' % (fam, b))
    print('  detail=%s' % detail[:600].replace('\n', ' | '))
  print('%s tier=%s seed=%d evaluations=%d distinct_nontrivial=%d '
        'violations=%d known=%d wall=%.1fs' % (
            pid, tier, seed, evaluations, len(nt_all), len(violations),
            len(known_seen), time.time() - t0))
  for fn, c in classes.items():
    tot = max(1, merged[fn]['evaluations'])
    print('  %s: n=%d nt=%d classes=%s' % (
        fn, merged[fn]['evaluations'], len(merged[fn]['nontrivial']),
        {k: round(v / tot, 3) for k, v in sorted(c.items())}))
  for h in harness_errors[:6]:
    print('HARNESS-ERROR: ' + h, file=sys.stderr)
  if violations:
    return 1
  if harness_errors:
    return 2
  if vacuous:
    print('HARNESS-ERROR: vacuous generator classes: %s' % vacuous,
          file=sys.stderr)
    return 2
  if len(nt_all) < 2:
    print('HARNESS-ERROR: fewer than 2 distinct non-trivial cases',
          file=sys.stderr)
    return 2
  return 0


def _finite_json(o):
  """Evidence files are strict JSON: non-finite floats become strings."""
  if isinstance(o, float) and (o != o or o in (float('inf'), float('-inf'))):
    return {'nonfinite_float': repr(o)}
  if isinstance(o, dict):
    return {str(k): _finite_json(v) for k, v in o.items()}
  if isinstance(o, (list, tuple)):
    return [_finite_json(v) for v in o]
  return o


def _hyp_version():
  try:
    import hypothesis
    return hypothesis.__version__
  except Exception:  # pylint: disable=broad-except
    return '?'


def do_replay(args):
  pid = args.prop
  from harness import boot
  boot.init()
  known = load_known(pid)
  try:
    out, err, rec = replay_file(pid, args.replay, args.tier)
  except Exception:  # pylint: disable=broad-except
    traceback.print_exc()
    return 2
  if err:
    print('HARNESS-ERROR: ' + err, file=sys.stderr)
    return 2
  bad = 0
  prefer = None
  for r in known:
    if r.get('replay') and os.path.abspath(os.path.join(
        VERIF, r['replay'])) == os.path.abspath(args.replay):
      prefer = r
  printed = set()
  for v in out.violations:
    k = match_known(known, rec['family'], v['bucket'], prefer=prefer)
    if k is not None:
      if k['what'] not in printed:
        printed.add(k['what'])
        print('KNOWN-FINDING: property=%s %s' % (pid, k['what']))
    else:
      bad += 1
      print('VIOLATION property=%s replay=%s' % (pid, args.replay))
      print('  bucket=%s' % v['bucket'])
      print('  detail=%s' % v['detail'][:1000])
  if not out.violations:
    print('replay: property held on this case')
  return 1 if bad else 0


def main(argv=None):
  ap = argparse.ArgumentParser()
  ap.add_argument('prop')
  ap.add_argument('--tier', default=os.environ.get('VERIF_TIER', 'quick'),
                  choices=['quick', 'thorough'])
  ap.add_argument('--replay')
  ap.add_argument('--only', help='comma separated family names')
  ap.add_argument('--worker', action='store_true')
  ap.add_argument('--family')
  ap.add_argument('--shard', type=int, default=0)
  ap.add_argument('--nshards', type=int, default=1)
  ap.add_argument('--examples', type=int, default=0)
  ap.add_argument('--seed', type=int, default=1)
  ap.add_argument('--out')
  ap.add_argument('--mode', default='collect')
  ap.add_argument('--bucket')
  ap.add_argument('--time-cap', type=float, default=0)
  args = ap.parse_args(argv)
  args.prop = args.prop.upper()
  if args.worker:
    return worker_main(args)
  if args.replay:
    return do_replay(args)
  try:
    return orchestrate(args)
  except SystemExit:
    raise
  except Exception:  # pylint: disable=broad-except
    traceback.print_exc()
    return 2
