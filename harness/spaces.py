"""Search-space generators (JSON specs), builders and an independent membership oracle.

A space spec is JSON: {'params': [param, ...]} with param one of
  {'name', 'kind': 'DOUBLE',  'lo', 'hi', 'scale', 'default'?}
  {'name', 'kind': 'INTEGER', 'lo', 'hi', 'scale', 'default'?}
  {'name', 'kind': 'DISCRETE', 'values': [...], 'scale', 'default'?, 'auto_cast'}
  {'name', 'kind': 'CATEGORICAL', 'values': [...], 'default'?}
  {'name', 'kind': 'BOOL', 'default'?}
and optionally 'children': [{'parent_values': [...], 'params': [...]}] on
INTEGER / DISCRETE / CATEGORICAL / BOOL params (conditional spaces).

`build(spec)` creates the vz.SearchSpace through the public builders.
`member(spec, assignment)` is the membership oracle written from the
statement of C03/C16 (not from SearchSpace.contains).
"""
import math

from hypothesis import strategies as st

SCALES = (None, 'LINEAR', 'LOG', 'REVERSE_LOG')
NAMES = ['x', 'y', 'z', 'lr', 'n', 'w0', 'p']
HOSTILE_NAMES = ['a:b', 'a\\b', 'é', 'a b', 'x[0]', 'q.r', 'True', '0']


# ---------------------------------------------------------------------------
# strategies
# ---------------------------------------------------------------------------
def _finite(lo, hi):
  return st.floats(min_value=lo, max_value=hi, allow_nan=False,
                   allow_infinity=False)


@st.composite
def double_bounds(draw, positive=False, allow_degenerate=True):
  cls = draw(st.sampled_from(
      ['unit', 'tiny', 'neg', 'mixed', 'wide', 'generic', 'degenerate', 'huge',
       'decimal']
      if not positive else ['unit+', 'tiny', 'wide+', 'generic+', 'huge+'] + (
          ['degenerate+'] if allow_degenerate else [])))
  if cls == 'degenerate+':
    a = draw(st.sampled_from([0.1, 1e-5, 123.456, 3.3, 1.0]))
    return a, a
  if cls == 'decimal':
    # bounds as people type them: -0.1 .. 0.3, 1.1 .. 2.3 (not exactly
    # representable, the usual source of one-ulp overshoots)
    a = draw(st.integers(-30, 30)) / 10.0
    return a, a + draw(st.integers(1, 40)) / 10.0
  if cls == 'unit':
    return 0.0, 1.0
  if cls == 'unit+':
    return draw(st.sampled_from([1e-3, 0.01, 0.1, 1.0])), draw(
        st.sampled_from([1.5, 10.0, 100.0]))
  if cls == 'tiny':
    a = draw(_finite(1e-12, 1e-9))
    return a, a * draw(_finite(1.5, 1000.0))
  if cls == 'neg':
    a = draw(_finite(-1e6, -1e-6))
    return a, a * draw(_finite(0.001, 0.9))
  if cls == 'mixed':
    return -draw(_finite(1e-6, 1e6)), draw(_finite(1e-6, 1e6))
  if cls == 'wide':
    return -1e9, 1e9
  if cls == 'wide+':
    return 1e-9, 1e9
  if cls == 'huge':
    return -draw(_finite(1e100, 1e150)), draw(_finite(1e100, 1e150))
  if cls == 'huge+':
    return draw(_finite(1e-150, 1e-100)), draw(_finite(1e100, 1e150))
  if cls == 'degenerate':
    if not allow_degenerate:
      return 0.0, 1.0
    a = draw(st.sampled_from([0.0, 1.0, -2.5, 1e-7, 3e8]))
    return a, a
  if cls == 'generic+':
    a = draw(_finite(1e-6, 1e6))
    return a, a + draw(_finite(1e-6, 1e6))
  a = draw(_finite(-1e6, 1e6))
  return a, a + draw(_finite(1e-6, 1e6))


@st.composite
def param_spec(draw, name, kinds=('DOUBLE', 'INTEGER', 'DISCRETE',
                                  'CATEGORICAL', 'BOOL'),
               scales=SCALES, defaults=True, degenerate=True):
  kind = draw(st.sampled_from(list(kinds)))
  p = {'name': name, 'kind': kind}
  if kind == 'DOUBLE':
    scale = draw(st.sampled_from(list(scales)))
    lo, hi = draw(double_bounds(positive=scale in ('LOG', 'REVERSE_LOG'),
                                allow_degenerate=degenerate))
    p.update(lo=lo, hi=hi, scale=scale)
    if defaults and draw(st.booleans()):
      p['default'] = draw(st.sampled_from([lo, hi, lo + (hi - lo) / 2]))
  elif kind == 'INTEGER':
    scale = draw(st.sampled_from(list(scales)))
    if scale in ('LOG', 'REVERSE_LOG'):
      lo = draw(st.integers(1, 50))
    else:
      lo = draw(st.sampled_from([0, 1, -3, -100, 7, 10 ** 6]))
    width = draw(st.sampled_from(
        ([0] if degenerate else []) + [1, 2, 5, 9, 10, 11, 40, 1000]))
    p.update(lo=lo, hi=lo + width, scale=scale)
    if defaults and draw(st.booleans()):
      p['default'] = draw(st.sampled_from([lo, lo + width, lo + width // 2]))
  elif kind == 'DISCRETE':
    scale = draw(st.sampled_from(list(scales)))
    n = draw(st.sampled_from(([1] if degenerate else []) + [2, 3, 5, 10, 12]))
    positive = scale in ('LOG', 'REVERSE_LOG')
    integral = draw(st.booleans())
    if integral:
      base = st.integers(1 if positive else -20, 200)
      vals = draw(st.lists(base, min_size=n, max_size=n, unique=True))
      if draw(st.booleans()):
        vals = [float(v) for v in vals]
    else:
      base = _finite(1e-3 if positive else -100.0, 1e4).map(
          lambda v: round(v, 4))
      vals = draw(st.lists(base, min_size=n, max_size=n, unique=True))
      if positive:
        vals = [v for v in vals if v > 0] or [0.5]
    vals = sorted(set(vals))
    p.update(values=vals, scale=scale, auto_cast=draw(st.booleans()))
    if defaults and draw(st.booleans()):
      p['default'] = draw(st.sampled_from(vals))
  elif kind == 'CATEGORICAL':
    n = draw(st.sampled_from(([1] if degenerate else []) + [2, 3, 5, 11]))
    pool = ['a', 'b', 'c', 'True', 'False', '', '0', 'é', 'a:b', 'dd', 'e',
            'f', 'g', '1.0', 'None']
    vals = sorted(draw(st.lists(st.sampled_from(pool), min_size=n, max_size=n,
                                unique=True)))
    p.update(values=vals)
    if defaults and draw(st.booleans()):
      p['default'] = draw(st.sampled_from(vals))
  else:  # BOOL
    if defaults and draw(st.booleans()):
      p['default'] = draw(st.booleans())
  return p


@st.composite
def flat_space(draw, min_params=1, max_params=5, kinds=('DOUBLE', 'INTEGER',
                                                        'DISCRETE',
                                                        'CATEGORICAL', 'BOOL'),
               scales=SCALES, defaults=True, hostile_names=False,
               degenerate=True):
  n = draw(st.integers(min_params, max_params))
  pool = NAMES + (HOSTILE_NAMES if hostile_names else [])
  names = draw(st.lists(st.sampled_from(pool), min_size=n, max_size=n,
                        unique=True))
  return {'params': [draw(param_spec(nm, kinds, scales, defaults, degenerate))
                     for nm in names]}


def parent_values_of(p):
  if p['kind'] == 'INTEGER':
    return list(range(p['lo'], min(p['hi'], p['lo'] + 6) + 1))
  if p['kind'] in ('DISCRETE', 'CATEGORICAL'):
    return list(p['values'])
  if p['kind'] == 'BOOL':
    return [True, False]
  return []


@st.composite
def conditional_space(draw, max_depth=3, hostile_names=False):
  counter = [0]

  def fresh(prefix):
    counter[0] += 1
    return '%s%d' % (prefix, counter[0])

  def level(depth):
    n = draw(st.integers(1, 3))
    params = []
    for _ in range(n):
      p = draw(param_spec(fresh('p'), defaults=False))
      pv = parent_values_of(p)
      if depth < max_depth and pv and draw(st.booleans()):
        kids = []
        for _ in range(draw(st.integers(1, 2))):
          sel = draw(st.lists(st.sampled_from(pv), min_size=1,
                              max_size=min(2, len(pv)), unique=True))
          kids.append({'parent_values': sel, 'params': level(depth + 1)})
        p['children'] = kids
      params.append(p)
    return params
  return {'params': level(1)}


def is_conditional(spec):
  return any(p.get('children') for p in spec['params'])


# ---------------------------------------------------------------------------
# building vizier objects
# ---------------------------------------------------------------------------
def _scale(vz, s):
  return None if s is None else getattr(vz.ScaleType, s)


def add_param(vz, selector, p):
  kw = {}
  if 'default' in p:
    kw['default_value'] = p['default']
  k = p['kind']
  if k == 'DOUBLE':
    return selector.add_float_param(p['name'], p['lo'], p['hi'],
                                    scale_type=_scale(vz, p['scale']), **kw)
  if k == 'INTEGER':
    return selector.add_int_param(p['name'], p['lo'], p['hi'],
                                  scale_type=_scale(vz, p['scale']), **kw)
  if k == 'DISCRETE':
    return selector.add_discrete_param(
        p['name'], p['values'], scale_type=_scale(vz, p['scale']),
        auto_cast=p.get('auto_cast', True), **kw)
  if k == 'CATEGORICAL':
    return selector.add_categorical_param(p['name'], p['values'], **kw)
  if k == 'BOOL':
    return selector.add_bool_param(p['name'], **kw)
  raise ValueError(k)


def build(spec, space=None):
  from vizier import pyvizier as vz
  space = space if space is not None else vz.SearchSpace()

  def rec(selector, params):
    for p in params:
      add_param(vz, selector, p)
      for ch in p.get('children', ()):
        pvals = ch['parent_values']
        if p['kind'] == 'BOOL':
          pvals = ['True' if v else 'False' for v in pvals]
        sub = selector.select(p['name'], pvals)
        rec(sub, ch['params'])
  rec(space.root, spec['params'])
  return space


def problem(spec, metrics=(('m', 'MAXIMIZE'),)):
  from vizier import pyvizier as vz
  ps = vz.ProblemStatement()
  build(spec, ps.search_space)
  for name, goal in metrics:
    ps.metric_information.append(vz.MetricInformation(
        name, goal=getattr(vz.ObjectiveMetricGoal, goal)))
  return ps


# ---------------------------------------------------------------------------
# points
# ---------------------------------------------------------------------------
@st.composite
def value_in(draw, p):
  k = p['kind']
  if k == 'DOUBLE':
    lo, hi = p['lo'], p['hi']
    if lo == hi:
      return lo
    c = draw(st.integers(0, 5))
    if c == 0:
      return lo
    if c == 1:
      return hi
    v = draw(_finite(lo, hi))
    return min(max(v, lo), hi)
  if k == 'INTEGER':
    return draw(st.one_of(st.just(p['lo']), st.just(p['hi']),
                          st.integers(p['lo'], p['hi'])))
  if k in ('DISCRETE', 'CATEGORICAL'):
    return draw(st.sampled_from(p['values']))
  return draw(st.sampled_from(['True', 'False']))


@st.composite
def point_in(draw, spec):
  """A member assignment (dict name->value) of a (possibly conditional) spec."""
  out = {}

  def rec(params):
    for p in params:
      v = draw(value_in(p))
      out[p['name']] = v
      for ch in p.get('children', ()):
        pv = ch['parent_values']
        if p['kind'] == 'BOOL':
          pv = ['True' if x else 'False' for x in pv]
        if v in pv:
          rec(ch['params'])
  rec(spec['params'])
  return out


# ---------------------------------------------------------------------------
# independent membership oracle (flat spaces)
# ---------------------------------------------------------------------------
def _is_number(v):
  return isinstance(v, (int, float)) and not isinstance(v, bool)


def value_member(p, v):
  """Is python value v inside the domain of flat param spec p?

  Type compatibility: numeric kinds need a real number (bool is not a number
  here; callers decide how to treat bools); CATEGORICAL/BOOL need a str.
  """
  k = p['kind']
  if k == 'DOUBLE':
    return _is_number(v) and math.isfinite(v) and p['lo'] <= v <= p['hi']
  if k == 'INTEGER':
    return (_is_number(v) and math.isfinite(v) and float(v) == int(v)
            and p['lo'] <= v <= p['hi'])
  if k == 'DISCRETE':
    return _is_number(v) and any(v == x for x in p['values'])
  if k == 'CATEGORICAL':
    return isinstance(v, str) and v in p['values']
  if k == 'BOOL':
    return isinstance(v, str) and v in ('True', 'False')
  raise ValueError(k)


def member(spec, assignment):
  """Flat spaces only: exact key set and every value in its domain."""
  names = [p['name'] for p in spec['params']]
  if set(assignment) != set(names) or len(assignment) != len(names):
    return False
  return all(value_member(p, assignment[p['name']]) for p in spec['params'])


def member_reason(spec, assignment):
  names = [p['name'] for p in spec['params']]
  missing = [n for n in names if n not in assignment]
  extra = [n for n in assignment if n not in names]
  if missing or extra:
    return 'missing=%r extra=%r' % (missing, extra)
  for p in spec['params']:
    if not value_member(p, assignment[p['name']]):
      return 'param %r (%s) value %r outside domain %r' % (
          p['name'], p['kind'], assignment[p['name']],
          {k: p[k] for k in ('lo', 'hi', 'values') if k in p})
  return None


def param_values_to_py(parameters):
  """vz.ParameterDict -> {name: python value}."""
  return {k: v.value for k, v in parameters.items()}


def kinds_of(spec):
  return sorted({p['kind'] for p in spec['params']})


def classes_of(spec):
  cl = ['kind_' + k for k in kinds_of(spec)]
  for p in spec['params']:
    if p.get('scale') in ('LOG', 'REVERSE_LOG'):
      cl.append('scale_' + p['scale'])
    if p['kind'] in ('DOUBLE', 'INTEGER') and p['lo'] == p['hi']:
      cl.append('degenerate')
    if p['kind'] in ('DISCRETE', 'CATEGORICAL') and len(p['values']) == 1:
      cl.append('degenerate')
    if p['kind'] == 'INTEGER' and p['hi'] - p['lo'] >= 10:
      cl.append('integer_gt10')
    if p['kind'] == 'DISCRETE' and len(p['values']) > 10:
      cl.append('discrete_gt10')
    if 'default' in p:
      cl.append('has_default')
  if len(kinds_of(spec)) >= 2:
    cl.append('mixed_kinds')
  return sorted(set(cl))
