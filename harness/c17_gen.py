"""Generators, builder and the independent expectation for C17.

Space spec (JSON) = {'params': [param, ...]}; a param is
  {'name', 'kind': 'DOUBLE',      'lo', 'hi'}
  {'name', 'kind': 'INTEGER',     'lo', 'hi'}
  {'name', 'kind': 'DISCRETE',    'values': [...], 'auto_cast': bool}
  {'name', 'kind': 'CATEGORICAL', 'values': [...]}
  {'name', 'kind': 'BOOL',        'feasible': None | [bool, ...]}
optionally with
  'base', 'index'   the parameter was declared as add_*_param(base, index=i)
                    (then name == '%s[%d]' % (base, index));
  'children': [{'parent_values': [...], 'params': [...]}]
                    declared through selector.select(name, parent_values);
                    BOOL parents list 'True' / 'False' strings.
The order of 'params' is the declaration order.

`expect(spec, params)` is written from the statement of C17 only; nothing
here imports vizier except `build()` which calls the public builders.
"""
from hypothesis import strategies as st

HOSTILE = ['a:b', 'a\\b', 'é', 'a b', 'q.r', 'True', '0', 'a[b]', 'n[1]x',
           'x]', 'None']
CAT_POOL = ['a', 'b', 'c', 'True', 'False', '0', '1', '1.0', 'é', 'a:b', 'dd',
            'None', 'true']
INDEX_SETS = [[0, 1, 2], [0, 2, 10], [2, 10], [1, 10, 100], [9, 10, 11],
              [3], [0], [0, 1, 2, 3, 4, 5, 6, 7, 8, 9, 10, 11], [5, 40, 300],
              [7, 8], [19, 2]]
KINDS = ('DOUBLE', 'INTEGER', 'DISCRETE', 'CATEGORICAL', 'BOOL')


# ---------------------------------------------------------------------------
# parameter specs
# ---------------------------------------------------------------------------
def _fl(lo, hi):
  return st.floats(min_value=lo, max_value=hi, allow_nan=False,
                   allow_infinity=False)


@st.composite
def _discrete_values(draw):
  flavour = draw(st.sampled_from(
      ['ints', 'integral_floats', 'fractional', 'mixed', 'mixed',
       'big_integral', 'near_integral']))
  n = draw(st.sampled_from([1, 2, 3, 5]))
  if flavour == 'ints':
    vals = draw(st.lists(st.integers(-20, 200), min_size=n, max_size=n,
                         unique=True))
  elif flavour == 'integral_floats':
    vals = [float(v) for v in draw(st.lists(
        st.integers(-20, 200), min_size=n, max_size=n, unique=True))]
  elif flavour == 'fractional':
    vals = draw(st.lists(
        st.integers(-400, 4000).map(lambda k: k / 8.0 + 0.0625),
        min_size=n, max_size=n, unique=True))
  elif flavour == 'big_integral':
    vals = draw(st.lists(st.sampled_from(
        [1e6, 2.0 ** 40, 1e15, -3e9, 123456789.0, 2.0 ** 53]),
                         min_size=1, max_size=3, unique=True))
  elif flavour == 'near_integral':
    # fractional values within float round-off / 1e-9 relative of an integer:
    # they are NOT integers and must be presented as floats
    vals = draw(st.lists(st.sampled_from(
        [28.999999999999996, 0.1 + 0.2 + 2.7, 2500000000.5, 1e10 + 0.25,
         123456789.000001, 7.000000001, -3.9999999999, 1e12 + 0.5]),
                         min_size=1, max_size=3, unique=True))
  else:  # mixed: at least one integral and one fractional value
    a = [float(v) for v in draw(st.lists(st.integers(-20, 200), min_size=1,
                                         max_size=2, unique=True))]
    b = draw(st.lists(st.integers(-40, 400).map(lambda k: k + 0.5),
                      min_size=1, max_size=2, unique=True))
    vals = a + b
  return sorted(set(vals)), flavour


@st.composite
def leaf(draw, name, kinds=KINDS, base=None, index=None):
  kind = draw(st.sampled_from(list(kinds)))
  p = {'name': name, 'kind': kind}
  if index is not None:
    p['base'] = base
    p['index'] = index
  if kind == 'DOUBLE':
    lo, hi = draw(st.sampled_from(
        [(0.0, 1.0), (-5.5, 3.25), (1e-3, 1e3), (-1e9, 1e9), (2.0, 2.0),
         (0.0, 10.0), (-1.0, 1.0), (1.0, 64.0)]))
    p.update(lo=lo, hi=hi)
  elif kind == 'INTEGER':
    lo = draw(st.sampled_from([0, 0, 1, -3, -100, 7, 10 ** 6]))
    width = draw(st.sampled_from([0, 1, 1, 2, 3, 5, 40]))
    p.update(lo=lo, hi=lo + width)
  elif kind == 'DISCRETE':
    vals, flavour = draw(_discrete_values())
    p.update(values=vals, flavour=flavour, auto_cast=draw(st.sampled_from(
        [True, True, False, None])))
  elif kind == 'CATEGORICAL':
    n = draw(st.sampled_from([1, 2, 2, 3, 5]))
    vals = draw(st.lists(st.sampled_from(CAT_POOL), min_size=n, max_size=n,
                         unique=True))
    p.update(values=sorted(vals))
  else:
    p['feasible'] = draw(st.sampled_from(
        [None, None, None, [True, False], [False, True], [True], [False]]))
  return p


def parent_values_of(p):
  """Values of p that may carry a conditional subspace (DOUBLE: none)."""
  k = p['kind']
  if k == 'INTEGER':
    return list(range(p['lo'], min(p['hi'], p['lo'] + 5) + 1))
  if k in ('DISCRETE', 'CATEGORICAL'):
    return list(p['values'])
  if k == 'BOOL':
    f = p.get('feasible')
    return ['True' if b else 'False' for b in (f if f else [True, False])]
  return []


@st.composite
def space(draw, max_depth=3, hostile=True, indexed=True):
  counter = [0]
  hostile_left = list(HOSTILE)

  def fresh(prefix):
    counter[0] += 1
    if hostile and hostile_left and draw(st.integers(0, 5)) == 5:
      i = draw(st.integers(0, len(hostile_left) - 1))
      return hostile_left.pop(i)
    return '%s%d' % (prefix, counter[0])

  def family():
    base = fresh('v')
    idxs = draw(st.one_of(
        st.sampled_from(INDEX_SETS),
        st.lists(st.integers(0, 30), min_size=1, max_size=5, unique=True)))
    idxs = draw(st.permutations(idxs))
    kinds = KINDS if draw(st.integers(0, 3)) == 0 else (
        draw(st.sampled_from(KINDS)),)
    return [draw(leaf('%s[%d]' % (base, i), kinds, base=base, index=i))
            for i in idxs]

  def level(depth):
    n = draw(st.integers(1, 3 if depth == 1 else 2))
    params = []
    for _ in range(n):
      # the first parameter of a level is (mostly) a parent, so that the
      # requested depth is usually reached
      force = (depth < max_depth and not params and
               draw(st.integers(0, 9)) > 0)
      if (not force and indexed and
          draw(st.integers(0, 2 if depth == 1 else 5)) == 0):
        params.extend(family())
        continue
      p = draw(leaf(fresh('p'), kinds=KINDS[1:] if force else KINDS))
      pv = parent_values_of(p)
      if depth < max_depth and pv and (force or draw(st.booleans())):
        kids = []
        ngroups = draw(st.sampled_from([1, 2, 2]))
        remaining = list(pv)
        for _ in range(ngroups):
          if not remaining:
            break
          k = draw(st.integers(1, max(1, min(3, len(remaining) - 1))))
          sel = draw(st.lists(st.sampled_from(remaining), min_size=k,
                              max_size=k, unique=True))
          # parent-value sets of the groups of one parent are disjoint, so a
          # parameter name may be reused by the next group (see below).
          remaining = [v for v in remaining if v not in sel]
          kids.append({'parent_values': sel, 'params': level(depth + 1)})
        if len(kids) == 2 and draw(st.integers(0, 2)) == 0:
          # same child name in two disjoint subspaces, independent configs
          a, b = kids[0]['params'][0], kids[1]['params'][0]
          if 'index' not in a and 'index' not in b:
            b['name'] = a['name']
        p['children'] = kids
      params.append(p)
    return list(draw(st.permutations(params)))

  return {'params': level(1)}


# ---------------------------------------------------------------------------
# spec walks
# ---------------------------------------------------------------------------
def walk(spec):
  """Yields (param, depth) for every declared parameter."""
  def rec(params, d):
    for p in params:
      yield p, d
      for ch in p.get('children', ()):
        yield from rec(ch['params'], d + 1)
  yield from rec(spec['params'], 1)


def depth_of(spec):
  return max(d for _, d in walk(spec))


def _canon_parent(p, v):
  if p['kind'] == 'BOOL' and isinstance(v, bool):
    return 'True' if v else 'False'
  return v


def child_matches(p, v, parent_values):
  v = _canon_parent(p, v)
  if isinstance(v, str):
    return any(isinstance(x, str) and x == v for x in parent_values)
  return any((not isinstance(x, str)) and x == v for x in parent_values)


def active_params(spec, params):
  """{name: (param spec, depth)} of the parameters active for assignment."""
  active = {}

  def rec(plist, d):
    for p in plist:
      active[p['name']] = (p, d)
      if p['name'] in params:
        for ch in p.get('children', ()):
          if child_matches(p, params[p['name']], ch['parent_values']):
            rec(ch['params'], d + 1)
  rec(spec['params'], 1)
  return active


# ---------------------------------------------------------------------------
# trials
# ---------------------------------------------------------------------------
@st.composite
def value_in(draw, p, leaf_only_pybool=True):
  k = p['kind']
  if k == 'DOUBLE':
    lo, hi = p['lo'], p['hi']
    c = draw(st.integers(0, 4))
    if lo == hi or c == 0:
      return lo
    if c == 1:
      return hi
    return min(max(draw(_fl(lo, hi)), lo), hi)
  if k == 'INTEGER':
    v = draw(st.one_of(st.just(p['lo']), st.just(p['hi']),
                       st.integers(p['lo'], p['hi'])))
    return float(v) if draw(st.integers(0, 3)) == 0 else v
  if k == 'DISCRETE':
    v = draw(st.sampled_from(p['values']))
    if float(v) == int(v) and abs(v) < 2 ** 53 and draw(st.booleans()):
      return int(v) if isinstance(v, float) else float(v)
    return v
  if k == 'CATEGORICAL':
    return draw(st.sampled_from(p['values']))
  f = p.get('feasible')
  b = draw(st.sampled_from(f if f else [True, False]))
  if not p.get('children') and draw(st.integers(0, 3)) == 0:
    return b  # python bool given for a childless boolean parameter
  return 'True' if b else 'False'


@st.composite
def point(draw, spec):
  out = {}

  def rec(plist):
    for p in plist:
      v = draw(value_in(p))
      kids = p.get('children', ())
      if kids and draw(st.integers(0, 2)) > 0:
        # prefer a value that activates a declared subspace
        v = draw(st.sampled_from(
            [x for ch in kids for x in ch['parent_values']]))
        if p['kind'] == 'INTEGER' and draw(st.integers(0, 3)) == 0:
          v = float(v)
      out[p['name']] = v
      for ch in p.get('children', ()):
        if child_matches(p, v, ch['parent_values']):
          rec(ch['params'])
  rec(spec['params'])
  return out


@st.composite
def trial(draw, spec):
  """{'want': requested variant, 'made': variant produced, 'params': {...}}.

  params is a list of [name, value] pairs (insertion order is drawn)."""
  params = draw(point(spec))
  pool = [p for p, _ in walk(spec) if p['name'] not in params]
  # inactive parameters whose declared parent is itself absent from the trial
  orphan = [q for p, _ in walk(spec) if p['name'] not in params
            for ch in p.get('children', ()) for q in ch['params']
            if q['name'] not in params]
  has_family = any('index' in p for p, _ in walk(spec))
  want = draw(st.sampled_from(
      ['valid', 'valid', 'extra'] + (['inactive'] * 6 if pool else []) +
      (['missing_indexed'] if has_family else [])))
  made = 'valid'
  if want == 'inactive':
    if pool:
      p = draw(st.sampled_from(
          orphan if orphan and draw(st.booleans()) else pool))
      params[p['name']] = draw(value_in(p))
      made = 'inactive'
    else:
      want = 'extra'
  if want == 'extra':
    declared = {p['name'] for p, _ in walk(spec)}
    cands = ['zz', 'p0', 'P1', '']
    for p, _ in walk(spec):
      if 'index' in p:
        cands += [p['base'], '%s[%d]' % (p['base'], p['index'] + 1),
                  '%s[%d]x' % (p['base'], p['index'])]
      else:
        cands += [p['name'] + ' ', p['name'] + '[0]']
    cands = [c for c in cands if c and c not in declared]
    name = draw(st.sampled_from(sorted(set(cands))))
    params[name] = draw(st.sampled_from([0.5, 1, 'a', 'True', 0]))
    made = 'extra'
  if want == 'missing_indexed':
    fam = {}
    for n in params:
      a = active_params(spec, params)[n][0]
      if 'index' in a:
        fam.setdefault(a['base'], []).append(n)
    fams = sorted(b for b, ns in fam.items() if len(ns) >= 2)
    if fams:
      b = draw(st.sampled_from(fams))
      params.pop(draw(st.sampled_from(sorted(fam[b]))))
      made = 'missing_indexed'
  items = draw(st.permutations(sorted(params.items(), key=lambda kv: kv[0])))
  return {'made': made, 'params': [[k, v] for k, v in items]}


# ---------------------------------------------------------------------------
# building through the public builders
# ---------------------------------------------------------------------------
def add_param(selector, p):
  kw = {}
  name = p['name']
  if 'index' in p:
    name = p['base']
    kw['index'] = p['index']
  k = p['kind']
  if k == 'DOUBLE':
    return selector.add_float_param(name, p['lo'], p['hi'], **kw)
  if k == 'INTEGER':
    return selector.add_int_param(name, p['lo'], p['hi'], **kw)
  if k == 'DISCRETE':
    if p.get('auto_cast') is not None:
      kw['auto_cast'] = p['auto_cast']
    return selector.add_discrete_param(name, p['values'], **kw)
  if k == 'CATEGORICAL':
    return selector.add_categorical_param(name, p['values'], **kw)
  if k == 'BOOL':
    if p.get('feasible') is not None:
      return selector.add_bool_param(name, p['feasible'], **kw)
    return selector.add_bool_param(name, **kw)
  raise ValueError(k)


def build(spec, search_space):
  def rec(selector, params):
    for p in params:
      add_param(selector, p)
      for ch in p.get('children', ()):
        rec(selector.select(p['name'], ch['parent_values']), ch['params'])
  rec(search_space.root, spec['params'])
  return search_space


# ---------------------------------------------------------------------------
# expectation (from the statement of C17)
# ---------------------------------------------------------------------------
def external_type(p):
  """'bool' | 'int' | 'float' | 'str' | 'integral' (INTEGER parameters)."""
  k = p['kind']
  if k == 'BOOL':
    return 'bool'
  if k == 'CATEGORICAL':
    return 'str'
  if k == 'DOUBLE':
    return 'float'
  if k == 'INTEGER':
    return 'integral'
  auto = p.get('auto_cast')
  if auto is None:
    auto = True  # documented default of add_discrete_param
  if auto and all(float(v) == int(v) for v in p['values']):
    return 'int'
  return 'float'


def expect(spec, params):
  """-> ('error', kind, names) | ('ok', {key: (etype, value) | [..]})

  A list value stands for an indexed family: [(etype, value), ...] in index
  order."""
  active = active_params(spec, params)
  declared = {p['name'] for p, _ in walk(spec)}
  unknown = sorted(n for n in params if n not in declared)
  inactive = sorted(n for n in params if n in declared and n not in active)
  if unknown:
    return ('error', 'unknown', unknown)
  if inactive:
    return ('error', 'inactive', inactive)
  out = {}
  fams = {}
  for n, v in params.items():
    p = active[n][0]
    et = external_type(p)
    if et == 'bool':
      ev = v if isinstance(v, bool) else (v == 'True')
    else:
      ev = v
    if 'index' in p:
      fams.setdefault(p['base'], []).append((p['index'], (et, ev)))
    else:
      out[n] = (et, ev)
  for b, items in fams.items():
    out[b] = [x for _, x in sorted(items, key=lambda t: t[0])]
  return ('ok', out)


def type_ok(et, got):
  if et == 'bool':
    return type(got) is bool
  if et == 'int':
    return type(got) is int
  if et == 'float':
    return type(got) is float
  if et == 'str':
    return type(got) is str
  return type(got) in (int, float) and float(got) == int(got)


def value_ok(et, ev, got):
  if et == 'str':
    return got == ev
  if et == 'bool':
    return got is ev
  return isinstance(got, (int, float)) and not isinstance(
      got, bool) and got == ev
